#!/bin/bash
# usage: tools_rebase_seeds.sh seeded/Cxx-k ...   (find the ones that need it with:  for d in seeded/C*-*/; do git -C /repo apply --check /verif/$d/patch.diff 2>/dev/null || echo $d; done)
HEAD=$(git -C /repo rev-parse HEAD)
COMMITS=$(git -C /repo log --format=%H --reverse)
for d in "$@"; do
  P=/verif/$d/patch.diff
  base=""
  for c in $(git -C /repo log --format=%H); do    # newest first
    rm -rf /tmp/rb1; git -C /repo worktree add -q --detach /tmp/rb1 $c 2>/dev/null || continue
    if git -C /tmp/rb1 apply --check $P 2>/dev/null; then base=$c; break; fi
    git -C /repo worktree remove --force /tmp/rb1
  done
  if [ -z "$base" ]; then echo "$d: no base found"; continue; fi
  git -C /tmp/rb1 apply $P && git -C /tmp/rb1 -c user.name=x -c user.email=x@x commit -qam seed
  sc=$(git -C /tmp/rb1 rev-parse HEAD)
  rm -rf /tmp/rb2; git -C /repo worktree add -q --detach /tmp/rb2 $HEAD
  if git -C /tmp/rb2 -c user.name=x -c user.email=x@x cherry-pick $sc >/dev/null 2>&1; then
     [ -f /verif/$d/patch.orig.diff ] || cp $P /verif/$d/patch.orig.diff
     git -C /tmp/rb2 diff $HEAD HEAD -- lentil > $P
     echo "$d: rebased from ${base:0:7}"
  else
     echo "$d: CONFLICT (base ${base:0:7}): $(git -C /tmp/rb2 diff --name-only --diff-filter=U | tr '\n' ' ')"
     git -C /tmp/rb2 cherry-pick --abort 2>/dev/null
  fi
  git -C /repo worktree remove --force /tmp/rb1; git -C /repo worktree remove --force /tmp/rb2
done
git -C /repo worktree prune
