"""Core of the runtime-monitoring framework: shard context, three-valued
verdicts, evidence, findings protocol.

A *shard* is one OS process that imports lentil from the tree under test,
installs the probes of one property, drives workloads and returns a JSON
record of what its monitors observed.  The *runner* (vp/runner.py) starts the
shards with subprocess.run(timeout=), merges their records, classifies the
violations against /verif/known_findings.txt and writes the evidence file.
"""
import hashlib
import json
import os
import sys
import time
import traceback
from collections import Counter

import numpy as np

VERIF_DIR = os.path.dirname(os.path.dirname(os.path.abspath(__file__)))
EPS = float(np.finfo(np.float64).eps)


def repo_dir():
    return os.path.abspath(os.environ.get('VERIF_REPO', '/repo'))


def import_lentil():
    """Import lentil from the tree under test and make sure that is what we got."""
    repo = repo_dir()
    if repo not in sys.path[:1]:
        sys.path.insert(0, repo)
    sys.dont_write_bytecode = True
    import lentil  # noqa
    here = os.path.abspath(lentil.__file__)
    if not here.startswith(repo + os.sep):
        raise RuntimeError(f'lentil imported from {here}, not from tree under test {repo}')
    return lentil


def jsonable(x, depth=0):
    """Convert witnesses / descriptors to something json.dump accepts (small)."""
    if depth > 6:
        return repr(x)[:200]
    if x is None or isinstance(x, (bool, int, str)):
        return x
    if isinstance(x, float):
        return x if np.isfinite(x) else repr(x)
    if isinstance(x, (np.integer,)):
        return int(x)
    if isinstance(x, (np.floating,)):
        return jsonable(float(x))
    if isinstance(x, (np.bool_,)):
        return bool(x)
    if isinstance(x, complex) or isinstance(x, np.complexfloating):
        return [jsonable(float(x.real)), jsonable(float(x.imag))]
    if isinstance(x, np.ndarray):
        if x.size <= 64:
            if np.iscomplexobj(x):
                return {'re': jsonable(x.real.tolist(), depth + 1),
                        'im': jsonable(x.imag.tolist(), depth + 1)}
            return jsonable(x.tolist(), depth + 1)
        return {'ndarray': list(x.shape), 'dtype': str(x.dtype),
                'sha': hashlib.sha256(np.ascontiguousarray(x).tobytes()).hexdigest()[:16]}
    if isinstance(x, dict):
        return {str(k): jsonable(v, depth + 1) for k, v in x.items()}
    if isinstance(x, (list, tuple, set, frozenset)):
        return [jsonable(v, depth + 1) for v in x]
    if isinstance(x, slice):
        return f'slice({x.start},{x.stop},{x.step})'
    return repr(x)[:200]


def digest(desc):
    return hashlib.sha256(json.dumps(jsonable(desc), sort_keys=True).encode()).hexdigest()[:20]


class Ctx:
    """Per-shard recording context handed to monitors."""

    MAX_SAMPLES = 4

    def __init__(self, prop, tier, seed, shard, nshards):
        self.prop = prop
        self.tier = tier
        self.seed = seed
        self.shard = shard
        self.nshards = nshards
        # independent stream per (seed, shard); generators never touch the global RNG
        self.rng = np.random.default_rng([seed, shard, 0x1e7711])
        self.evaluations = 0
        self.distinct = set()
        self.samples = []
        self.buckets = Counter()
        self.oracle_evals = Counter()      # oracle name -> number of evaluations
        self.residuals = {}                # oracle name -> [max ratio, residual, tol]
        self.skipped = Counter()
        self.violations = {}               # key -> dict
        self.anchors = Counter()
        self.notes = {}
        self.workload = 'generator'        # label of the workload currently driving
        self.workload_evals = Counter()
        self.case_desc = None
        self.t0 = time.time()

    def count(self, quick, thorough):
        """Number of cases for a workload section: the per-tier base count times the depth factor
        (3 by default; VERIF_SCALE overrides it, e.g. for a fast smoke run)."""
        base = quick if self.tier == 'quick' else thorough
        return max(1, int(round(base * float(os.environ.get('VERIF_SCALE', '3')))))

    # -- cases ------------------------------------------------------------
    def case(self, desc, bucket=None, nontrivial=True):
        """Register one generated case (an execution that the monitors observe)."""
        self.evaluations += 1
        self.case_desc = desc
        if nontrivial:
            self.distinct.add(digest(desc))
        if len(self.samples) < self.MAX_SAMPLES:
            self.samples.append(jsonable(desc))
        if bucket is not None:
            if isinstance(bucket, (list, tuple, set)):
                for b in bucket:
                    self.buckets[str(b)] += 1
            else:
                self.buckets[str(bucket)] += 1

    def bucket(self, *names):
        for b in names:
            self.buckets[str(b)] += 1

    def skip(self, reason):
        self.skipped[reason] += 1

    # -- verdicts ---------------------------------------------------------
    def violation(self, key, what, witness=None):
        v = self.violations.get(key)
        if v is None:
            w = {'case': jsonable(self.case_desc), 'workload': self.workload,
                 'shard': self.shard, 'seed': self.seed, 'tier': self.tier}
            if witness is not None:
                w['detail'] = jsonable(witness)
            self.violations[key] = {'key': key, 'what': what, 'witness': w, 'count': 1}
        else:
            v['count'] += 1

    def check(self, ok, oracle, key, what, witness=None):
        """Record one oracle evaluation; a false `ok` is a violation."""
        self.oracle_evals[oracle] += 1
        self.workload_evals[self.workload] += 1
        if not ok:
            self.violation(key, what, witness)
        return bool(ok)

    def close(self, oracle, got, ref, tol, key, what, witness=None, scale=None):
        """|got-ref| <= tol*scale element-wise (scale defaults to max|ref|, at least tiny)."""
        self.oracle_evals[oracle] += 1
        self.workload_evals[self.workload] += 1
        got = np.asarray(got)
        ref = np.asarray(ref)
        if got.shape != ref.shape:
            self.violation(key + '|shape', what + f' (shape {got.shape} != {ref.shape})', witness)
            return False
        if ref.size == 0:
            return True
        if scale is None:
            scale = float(np.max(np.abs(ref))) if ref.size else 0.0
        scale = max(float(scale), 1e-300)
        with np.errstate(all='ignore'):
            d = np.abs(got.astype(np.clongdouble if np.iscomplexobj(got) or np.iscomplexobj(ref)
                                  else np.longdouble) - ref)
        if not np.all(np.isfinite(d)):
            # non-finite on either side: must coincide exactly in where and what
            same = np.array_equal(np.isnan(got), np.isnan(ref)) and \
                np.array_equal(np.isinf(got), np.isinf(ref))
            fin = np.isfinite(d)
            resid = float(np.max(d[fin])) if fin.any() else 0.0
            ok = same and resid <= tol * scale
        else:
            resid = float(np.max(d))
            ok = resid <= tol * scale
        ratio = resid / (tol * scale) if tol > 0 else (0.0 if resid == 0 else np.inf)
        cur = self.residuals.get(oracle)
        if cur is None or ratio > cur[0]:
            self.residuals[oracle] = [float(ratio), resid, tol * scale]
        if not ok:
            w = dict(witness or {})
            w.update({'max_residual': resid, 'allowed': tol * scale})
            try:
                idx = np.unravel_index(int(np.argmax(np.where(np.isfinite(d), d, np.inf))), d.shape)
                w['at'] = [int(i) for i in idx]
                w['got'] = jsonable(got[idx])
                w['ref'] = jsonable(np.asarray(ref)[idx].astype(complex)
                                    if np.iscomplexobj(ref) else float(np.asarray(ref)[idx]))
            except Exception:
                pass
            self.violation(key, what, w)
        return ok

    def expect_raises(self, oracle, exc_types, fn, key, what, witness=None):
        """fn() must raise one of exc_types. Returns the exception (or None)."""
        try:
            fn()
        except exc_types as e:
            self.check(True, oracle, key, what)
            return e
        except Exception as e:  # wrong exception type
            self.check(False, oracle, key + f'|raises={type(e).__name__}',
                       what + f' (raised {type(e).__name__}: {e})', witness)
            return e
        self.check(False, oracle, key + '|accepted', what + ' (no exception)', witness)
        return None

    def result(self):
        return {
            'prop': self.prop, 'tier': self.tier, 'seed': self.seed, 'shard': self.shard,
            'evaluations': self.evaluations,
            'distinct': sorted(self.distinct),
            'samples': self.samples,
            'buckets': dict(self.buckets),
            'oracle_evals': dict(self.oracle_evals),
            'workload_evals': dict(self.workload_evals),
            'residuals': self.residuals,
            'skipped': dict(self.skipped),
            'violations': list(self.violations.values()),
            'anchors': dict(self.anchors),
            'notes': jsonable(self.notes),
            'wall_s': time.time() - self.t0,
        }


def call_guarded(ctx, fn, key, what):
    """Run a driver step; an unexpected exception inside the *harness* is a crash of the
    shard (inconclusive), never silently a pass.  Exceptions raised by lentil on inputs the
    property covers are handled by the monitors themselves."""
    try:
        return fn()
    except Exception:
        ctx.notes.setdefault('harness_errors', []).append(traceback.format_exc()[-1500:])
        raise
