"""Import the output of a seeding sub-agent (/tmp/wt/Cxx/_seed/<k>/) into /verif/seeded/Cxx-<k>/ and evaluate it."""
import json
import os
import shutil
import subprocess
import sys

from vp import core


def main():
    prop = sys.argv[1]
    offset = int(next((a.split('=')[1] for a in sys.argv if a.startswith('--offset=')), '0'))
    extra = [a for a in sys.argv[2:] if not a.startswith('--')]
    extra = extra[0].split(',') if extra else []
    src = f'/tmp/wt/{prop}/_seed'
    for k in sorted(os.listdir(src)):
        d = os.path.join(src, k)
        if not (os.path.isdir(d) and os.path.exists(os.path.join(d, 'patch.diff'))):
            continue
        dst = os.path.join(core.VERIF_DIR, 'seeded', f'{prop}-{int(k) + offset}')
        os.makedirs(dst, exist_ok=True)
        for fn in ('patch.diff', 'demo.py', 'notes.md'):
            if os.path.exists(os.path.join(d, fn)):
                shutil.copy(os.path.join(d, fn), os.path.join(dst, fn))
        notes = open(os.path.join(dst, 'notes.md')).read() if os.path.exists(os.path.join(dst, 'notes.md')) else ''
        meta = {'property': prop, 'origin': 'independent sub-agent given only the property text and a scratch worktree' + ((f' (round {offset // 3 + 1}: told which mechanisms the earlier rounds had used)' if offset else '')),
                'needs_to_manifest': notes.strip()[:1500], 'checks_expected': [prop] + extra}
        with open(os.path.join(dst, 'meta.json'), 'w') as f:
            json.dump(meta, f, indent=1)
        subprocess.run([sys.executable, '-m', 'vp.seedcheck', dst, '--seeds', '0,1'], cwd=core.VERIF_DIR,
                       env=dict(os.environ, PYTHONPATH=core.VERIF_DIR))


if __name__ == '__main__':
    main()
