"""Instrumentation layer: probes on the real lentil callables, shadow state
(fingerprints), freezing of caller buffers, anchor-reach counters.

Nothing here edits the repository.  A probe replaces a callable in every lentil
namespace that holds a reference to it; the wrapper calls the original and then
the oracle, which records its verdict in the Ctx and never raises into lentil.
"""
import functools
import hashlib
import sys
import types

import numpy as np

_installed = []      # (holder, name, original)
_depth = 0           # re-entrancy guard: oracles call lentil themselves


def lentil_namespaces():
    out = []
    for name, mod in list(sys.modules.items()):
        if mod is not None and (name == 'lentil' or name.startswith('lentil.')):
            out.append(mod)
    return out


def holders_of(original):
    """All (namespace, attribute) pairs in lentil modules bound to `original`."""
    found = []
    for mod in lentil_namespaces():
        for attr, val in list(vars(mod).items()):
            if val is original:
                found.append((mod, attr))
    return found


def _make_wrapper(original, oracle, ctx, label):
    """oracle(ctx, args, kwargs, result, exc, pre); optional oracle.before(ctx, args, kwargs)
    returns `pre` (shadow state taken before the call)."""
    before = getattr(oracle, 'before', None)

    @functools.wraps(original)
    def wrapper(*args, **kwargs):
        global _depth
        if _depth > 0:
            return original(*args, **kwargs)
        pre = None
        if before is not None:
            _depth += 1
            try:
                pre = before(ctx, args, kwargs)
            except Exception:
                import traceback
                ctx.notes.setdefault('oracle_errors', []).append(
                    label + '.before: ' + traceback.format_exc()[-1200:])
            finally:
                _depth -= 1
        exc = None
        result = None
        try:
            result = original(*args, **kwargs)
        except BaseException as e:   # noqa
            exc = e
        _depth += 1
        try:
            ctx.anchors['probe:' + label] += 1
            oracle(ctx, args, kwargs, result, exc, pre)
        except Exception:  # an oracle bug must be loud, not a silent pass
            import traceback
            ctx.notes.setdefault('oracle_errors', []).append(
                label + ': ' + traceback.format_exc()[-1200:])
        finally:
            _depth -= 1
        if exc is not None:
            raise exc
        return result

    wrapper.__wrapped_original__ = original
    return wrapper


def wrap_function(original, oracle, ctx, name=None):
    """Replace a module-level function in every lentil namespace that references it."""
    label = name or getattr(original, '__qualname__', repr(original))
    wrapper = _make_wrapper(original, oracle, ctx, label)
    hs = holders_of(original)
    for holder, attr in hs:
        setattr(holder, attr, wrapper)
        _installed.append((holder, attr, original))
    ctx.anchors.setdefault('probe:' + label, 0)
    return wrapper, len(hs)


def wrap_method(cls, name, oracle, ctx):
    """Replace cls.<name> (a plain function in the class dict)."""
    original = cls.__dict__[name]
    label = f'{cls.__name__}.{name}'
    wrapper = _make_wrapper(original, oracle, ctx, label)
    setattr(cls, name, wrapper)
    _installed.append((cls, name, original))
    ctx.anchors.setdefault('probe:' + label, 0)
    return wrapper


def wrap_property(cls, name, oracle, ctx):
    """Replace the getter of property cls.<name>; oracle(ctx, (self,), {}, value, exc, pre)."""
    prop = cls.__dict__[name]
    label = f'{cls.__name__}.{name}'
    getter = _make_wrapper(prop.fget, oracle, ctx, label)
    setattr(cls, name, property(getter, prop.fset, prop.fdel, prop.__doc__))
    _installed.append((cls, name, prop))
    ctx.anchors.setdefault('probe:' + label, 0)
    return getter


class quiet:
    """Context manager: run lentil calls made by an oracle/driver without re-triggering probes."""
    def __enter__(self):
        global _depth
        _depth += 1

    def __exit__(self, *a):
        global _depth
        _depth -= 1


def uninstall_all():
    while _installed:
        holder, name, original = _installed.pop()
        setattr(holder, name, original)


# ---------------------------------------------------------------------------
# shadow state

def fp_array(a):
    a = np.asarray(a)
    h = hashlib.sha256()
    h.update(str(a.dtype).encode())
    h.update(str(a.shape).encode())
    h.update(np.ascontiguousarray(a).tobytes())
    return h.hexdigest()[:24]


def fingerprint(obj, depth=0, seen=None):
    """Canonical deep fingerprint of caller-owned values/objects (bytes, dtype, shape)."""
    if seen is None:
        seen = set()
    if depth > 8:
        return 'deep'
    if obj is None or isinstance(obj, (bool, int, str, bytes)):
        return repr(obj)
    if isinstance(obj, float):
        return repr(obj)
    if isinstance(obj, complex):
        return repr(obj)
    if isinstance(obj, np.generic):
        return repr(obj.item()) + str(obj.dtype)
    if isinstance(obj, np.ndarray):
        return 'nd:' + fp_array(obj)
    if isinstance(obj, (list, tuple)):
        return type(obj).__name__ + '[' + ','.join(fingerprint(o, depth + 1, seen) for o in obj) + ']'
    if isinstance(obj, dict):
        return '{' + ','.join(f'{k!r}:{fingerprint(v, depth + 1, seen)}'
                              for k, v in sorted(obj.items(), key=lambda kv: repr(kv[0]))) + '}'
    if isinstance(obj, slice):
        return repr(obj)
    if obj is Ellipsis:
        return '...'
    if isinstance(obj, (types.FunctionType, types.MethodType, types.BuiltinFunctionType)):
        return 'fn:' + getattr(obj, '__qualname__', repr(obj))
    if id(obj) in seen:
        return 'cycle'
    seen = seen | {id(obj)}
    parts = [type(obj).__name__]
    slots = []
    for klass in type(obj).__mro__:
        slots.extend(getattr(klass, '__slots__', ()))
    for s in slots:
        if hasattr(obj, s):
            parts.append(f'{s}={fingerprint(getattr(obj, s), depth + 1, seen)}')
    if hasattr(obj, '__dict__'):
        for k in sorted(vars(obj)):
            parts.append(f'{k}={fingerprint(vars(obj)[k], depth + 1, seen)}')
    if len(parts) == 1:
        parts.append(repr(obj)[:80])
    return '<' + ';'.join(parts) + '>'


def freeze(a):
    """Make an array read-only (the flag propagates to every np.asarray view)."""
    a = np.array(a, copy=True)
    a.flags.writeable = False
    return a


# ---------------------------------------------------------------------------
# anchor reach (sys.monitoring, PY_START on named code objects)

class _Absent:
    """Stands for an attribute the tree under test does not have (a refactor may remove a private helper)."""
    def __init__(self, path):
        self.path = path

    def __getattr__(self, name):
        return _Absent(self.path + '.' + name)


class Lenient:
    """Attribute proxy used while a monitor lists its anchors: a missing attribute yields an _Absent marker instead of
    raising, so that a tree in which a private helper was renamed or removed is still decided by the oracles (the anchor
    is reported as absent, not as 'never reached')."""
    def __init__(self, obj, path='lentil'):
        object.__setattr__(self, '_obj', obj)
        object.__setattr__(self, '_path', path)

    def __getattr__(self, name):
        obj = object.__getattribute__(self, '_obj')
        path = object.__getattribute__(self, '_path') + '.' + name
        try:
            v = getattr(obj, name)
        except AttributeError:
            return _Absent(path)
        if isinstance(v, type) or type(v).__name__ == 'module':
            return Lenient(v, path)
        return v


class Anchors:
    TOOL = 3

    def __init__(self, ctx):
        self.ctx = ctx
        self.codes = {}
        self.active = False

    def add(self, label, func):
        if isinstance(func, _Absent):
            self.ctx.notes.setdefault('anchors_absent', [])
            if label not in self.ctx.notes['anchors_absent']:
                self.ctx.notes['anchors_absent'].append(label)
            return
        if isinstance(func, Lenient):
            func = object.__getattribute__(func, '_obj')
        f = func
        while hasattr(f, '__wrapped_original__'):
            f = f.__wrapped_original__
        f = getattr(f, '__func__', f)
        f = getattr(f, '__wrapped__', f)  # lru_cache etc.
        code = getattr(f, '__code__', None)
        if code is not None:
            self.codes[code] = label
            self.ctx.anchors.setdefault('anchor:' + label, 0)

    def start(self):
        mon = getattr(sys, 'monitoring', None)
        if mon is None or not self.codes:
            return
        try:
            mon.use_tool_id(self.TOOL, 'vp-anchors')
        except ValueError:
            return
        ev = mon.events.PY_START

        def cb(code, offset):
            lab = self.codes.get(code)
            if lab is not None:
                self.ctx.anchors['anchor:' + lab] += 1

        mon.register_callback(self.TOOL, ev, cb)
        for code in self.codes:
            mon.set_local_events(self.TOOL, code, ev)
        self.active = True

    def stop(self):
        if not self.active:
            return
        mon = sys.monitoring
        for code in self.codes:
            mon.set_local_events(self.TOOL, code, 0)
        mon.register_callback(self.TOOL, mon.events.PY_START, None)
        mon.free_tool_id(self.TOOL)
        self.active = False
