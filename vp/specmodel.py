"""Independent radiometry reference: unit factors, Planck's law (CODATA constants), piecewise-linear
interpolation and exact integrals of piecewise-linear functions."""
import numpy as np

# CODATA 2018
H = 6.62607015e-34
C = 299792458.0
KB = 1.380649e-23
SIGMA = 5.670374419e-8
WIEN_B = 2.897771955e-3          # peak of the energy form B_lambda
WIEN_B_PHOTON = 3.669703085e-3   # peak of the photon form B_lambda * lambda/(hc)

WAVE_M = {'m': 1.0, 'meter': 1.0, 'um': 1e-6, 'micron': 1e-6, 'nm': 1e-9, 'nanometer': 1e-9, 'angstrom': 1e-10}
WAVE_CANON = ['m', 'um', 'nm', 'angstrom']
FLUX = ['photlam', 'flam', 'wlam']


def wave_factor(a, b):
    """Multiply a wavelength expressed in unit a by this to express it in unit b."""
    return WAVE_M[a.lower()] / WAVE_M[b.lower()]


def flux_to_wlam_si(flux, unit, wave_m, hc=None):
    """Convert a flux given per metre of wavelength in `unit` to W m^-2 m^-1."""
    unit = unit.lower()
    if unit == 'wlam':
        return flux
    if unit == 'flam':               # erg s^-1 cm^-2  ->  W m^-2 : 1e-7 J/erg * 1e4 cm^2/m^2
        return flux * 1e-7 * 1e4
    if unit == 'photlam':            # photons s^-1 m^-2 -> W m^-2
        return flux * (H * C if hc is None else hc) / wave_m
    raise ValueError(unit)


def planck_radiance_si(wave_m, T):
    """W m^-2 sr^-1 m^-1"""
    wave_m = np.asarray(wave_m, dtype=np.longdouble)
    x = np.longdouble(H * C / KB) / (wave_m * np.longdouble(T))
    return (2 * np.longdouble(H) * np.longdouble(C) ** 2 / wave_m ** 5 / np.expm1(x)).astype(float)


NOMINAL = 2e-15     # two numbers closer than this (relative) are the same wavelength written in two units


def interp_linear(x, xs, ys, fill):
    """Piecewise-linear interpolation with `fill` outside [xs[0], xs[-1]] (own implementation)."""
    x = np.asarray(x, float)
    xs = np.asarray(xs, float)
    ys = np.asarray(ys, float)
    if np.ndim(fill) > 0:
        # the documented two-element form: (value below the first sample, value above the last one)
        below, above = (float(v) for v in fill)
        out = np.where(x < xs[0], below, above).astype(float)
    else:
        out = np.full(x.shape, float(fill))
    # a wavelength that agrees with the first / last sample to a few ulp IS that sample (unit conversions are exact only to
    # rounding): it belongs to the range
    x = np.where(np.abs(x - xs[0]) <= NOMINAL * abs(xs[0]), xs[0], x)
    x = np.where(np.abs(x - xs[-1]) <= NOMINAL * abs(xs[-1]), xs[-1], x)
    inside = (x >= xs[0]) & (x <= xs[-1])
    k = np.clip(np.searchsorted(xs, x, side='right') - 1, 0, len(xs) - 2) if len(xs) > 1 else np.zeros(x.shape, int)
    if len(xs) > 1:
        t = (x - xs[k]) / (xs[k + 1] - xs[k])
        val = ys[k] + t * (ys[k + 1] - ys[k])
    else:
        val = np.full(x.shape, ys[0])
    out[inside] = val[inside]
    return out


def integral_pl(xs, ys, a, b):
    """Exact integral over [a, b] of the piecewise-linear interpolant through (xs, ys), zero outside."""
    xs = np.asarray(xs, float)
    ys = np.asarray(ys, float)
    a = max(a, xs[0])
    b = min(b, xs[-1])
    if b <= a:
        return 0.0
    pts = np.unique(np.concatenate([[a, b], xs[(xs > a) & (xs < b)]]))
    vals = interp_linear(pts, xs, ys, 0.0)
    return float(np.sum(0.5 * (vals[1:] + vals[:-1]) * np.diff(pts)))
