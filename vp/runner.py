"""Shard scheduler, merger, findings classifier, evidence writer."""
import concurrent.futures as cf
import fnmatch
import importlib
import json
import os
import subprocess
import sys
import tempfile
import time
from collections import Counter

from vp import core

PY = os.environ.get('VERIF_PYTHON', '/venv/bin/python')
KNOWN_FILE = os.path.join(core.VERIF_DIR, 'known_findings.txt')


def load_known():
    """known_findings.txt lines:
         known: property=<id> key=<fnmatch pattern> :: <what fails>
         fixed: property=<id> <commit> <what failed>
    Only `known:` lines suppress anything.  Never written at run time."""
    known = []
    if os.path.exists(KNOWN_FILE):
        for line in open(KNOWN_FILE):
            line = line.strip()
            if not line.startswith('known:'):
                continue
            body = line[len('known:'):].strip()
            head, _, what = body.partition('::')
            fields = dict(tok.split('=', 1) for tok in head.split() if '=' in tok)
            known.append({'property': fields.get('property'), 'key': fields.get('key'),
                          'what': what.strip()})
    return known


def run_shard(prop, tier, seed, shard, nshards, kind, timeout, workdir):
    out = os.path.join(workdir, f'{prop}.{kind}.{shard}.json')
    env = dict(os.environ)
    env.update({'PYTHONHASHSEED': '0', 'PYTHONDONTWRITEBYTECODE': '1',
                'OMP_NUM_THREADS': '1', 'OPENBLAS_NUM_THREADS': '1', 'MKL_NUM_THREADS': '1',
                'PYTHONPATH': core.VERIF_DIR})
    cmd = [PY, '-m', 'vp.shard', prop, tier, str(seed), str(shard), str(nshards), kind, out]
    t0 = time.time()
    try:
        p = subprocess.run(cmd, cwd=core.VERIF_DIR, env=env, timeout=timeout,
                           stdout=subprocess.PIPE, stderr=subprocess.STDOUT)
    except subprocess.TimeoutExpired:
        return {'status': 'timeout', 'kind': kind, 'shard': shard, 'wall_s': time.time() - t0}
    if not os.path.exists(out):
        return {'status': 'crash', 'kind': kind, 'shard': shard,
                'error': p.stdout.decode(errors='replace')[-3000:], 'wall_s': time.time() - t0}
    with open(out) as f:
        res = json.load(f)
    os.unlink(out)
    res['stdout_tail'] = p.stdout.decode(errors='replace')[-500:]
    return res


def plan_for(mon, tier):
    plan = getattr(mon, 'PLAN', {})
    return plan.get(tier, {'gen': 4})


def run_property(prop, tier, seed, only=None, jobs=16, replay_key=None):
    t0 = time.time()
    mon = importlib.import_module(f'vp.monitors.{prop}')
    plan = plan_for(mon, tier)
    timeout = {'quick': 420, 'thorough': 5400}[tier]
    tasks = []
    for kind in ('gen', 'tests', 'docs'):
        n = plan.get(kind, 0)
        for i in range(n):
            tasks.append((kind, i, n))
    if only is not None:
        tasks = [t for t in tasks if (t[0], t[1]) == only]
    results = []
    with tempfile.TemporaryDirectory(prefix='vp-') as wd:
        with cf.ThreadPoolExecutor(max_workers=min(jobs, max(1, len(tasks)))) as ex:
            futs = [ex.submit(run_shard, prop, tier, seed, i, n, kind, timeout, wd)
                    for kind, i, n in tasks]
            for f in futs:
                results.append(f.result())
    return merge(prop, tier, seed, mon, results, time.time() - t0, partial=only is not None)


def merge(prop, tier, seed, mon, results, wall, partial=False):
    inconclusive = []
    evaluations = 0
    distinct = set()
    samples = []
    buckets = Counter()
    oracle_evals = Counter()
    workload_evals = Counter()
    anchors = Counter()
    skipped = Counter()
    residuals = {}
    violations = {}
    notes = {}
    for r in results:
        st = r.get('status')
        if st != 'ok':
            inconclusive.append(f"shard {r.get('kind')}/{r.get('shard')} {st}: "
                                f"{(r.get('error') or '')[-600:]}")
            if st in ('timeout',) or 'evaluations' not in r:
                continue
        evaluations += r['evaluations']
        distinct.update(r['distinct'])
        for s in r['samples']:
            if len(samples) < 6:
                samples.append(s)
        buckets.update(r['buckets'])
        oracle_evals.update(r['oracle_evals'])
        workload_evals.update(r['workload_evals'])
        anchors.update(r['anchors'])
        skipped.update(r['skipped'])
        for k, v in r['residuals'].items():
            if k not in residuals or v[0] > residuals[k][0]:
                residuals[k] = v
        for v in r['violations']:
            cur = violations.get(v['key'])
            if cur is None:
                violations[v['key']] = dict(v)
            else:
                cur['count'] += v['count']
        for k, v in (r.get('notes') or {}).items():
            if k in ('oracle_errors', 'harness_errors'):
                inconclusive.append(f"{k} in shard {r.get('kind')}/{r.get('shard')}: {v[0][-600:]}")
            notes.setdefault(k, v)

    if not partial:
        for b in getattr(mon, 'REQUIRED_BUCKETS', []):
            if buckets.get(b, 0) == 0:
                inconclusive.append(f'coverage bucket never hit: {b}')
        absent = set('anchor:' + x for x in (notes.get('anchors_absent') or []))
        for a in getattr(mon, 'REQUIRED_ANCHORS', []):
            if a in absent:
                continue        # the function does not exist in the tree under test (reported in the evidence notes)
            if anchors.get(a, 0) == 0:
                inconclusive.append(f'deciding anchor/probe never reached: {a}')
        for o in getattr(mon, 'REQUIRED_ORACLES', []):
            if oracle_evals.get(o, 0) == 0:
                inconclusive.append(f'oracle never evaluated: {o}')
        if sum(oracle_evals.values()) == 0:
            inconclusive.append('no oracle evaluated anything')

    known = [k for k in load_known() if k['property'] == prop]
    lines = []
    new_violations = []
    known_seen = []
    for key, v in sorted(violations.items()):
        match = next((k for k in known if fnmatch.fnmatchcase(key, k['key'])), None)
        if match is not None:
            known_seen.append({'key': key, 'pattern': match['key'], 'count': v['count'],
                               'what': match['what']})
        else:
            new_violations.append(v)
    # one KNOWN-FINDING line per listed finding that was observed
    for pat in sorted({k['pattern'] for k in known_seen}):
        what = next(k['what'] for k in known_seen if k['pattern'] == pat)
        lines.append(f'KNOWN-FINDING: property={prop} {what}')
    rdir = os.path.join(core.VERIF_DIR, 'replays', prop)
    if not partial and os.path.isdir(rdir):
        for fn in os.listdir(rdir):
            os.unlink(os.path.join(rdir, fn))
    for v in new_violations:
        os.makedirs(rdir, exist_ok=True)
        path = os.path.join(rdir, core.digest(v['key']) + '.json')
        w = v['witness']
        with open(path, 'w') as f:
            json.dump({'property': prop, 'key': v['key'], 'what': v['what'], 'count': v['count'],
                       'tier': tier, 'seed': seed, 'kind': {'generator': 'gen', 'testsuite': 'tests',
                                                              'docs': 'docs'}.get(w.get('workload'), 'gen'),
                       'shard': w.get('shard'), 'witness': w,
                       'rerun': f'./check {prop} --replay {path}'}, f, indent=1)
        lines.append(f'VIOLATION property={prop} replay={path}')
        lines.append(f'  key={v["key"]} count={v["count"]} :: {v["what"]}')

    verdict = 'violated' if new_violations else ('inconclusive' if inconclusive else 'held')
    evidence = {
        'property_id': prop,
        'tier': tier,
        'seed': int(seed),
        'level': 'exploration',
        'coverage': {
            'evaluations': int(evaluations),
            'distinct_nontrivial': int(len(distinct)),
            'rule': getattr(mon, 'RULE', ''),
            'samples': samples,
            'exhaustive': bool(getattr(mon, 'EXHAUSTIVE', False)),
            'buckets': dict(sorted(buckets.items())),
            'oracle_evaluations': dict(sorted(oracle_evals.items())),
            'oracle_evaluations_by_workload': dict(workload_evals),
            'anchor_and_probe_calls': dict(sorted(anchors.items())),
            'worst_residual_over_tolerance': {k: {'ratio': v[0], 'residual': v[1], 'allowed': v[2]}
                                              for k, v in sorted(residuals.items())},
            'skipped': dict(skipped),
            'shards': len(results),
            'notes': notes,
        },
        'assumptions': getattr(mon, 'ASSUMPTIONS', []),
        'wall_s': round(wall, 2),
        'violations': len(new_violations),
        'verdict': verdict,
        'known_findings_seen': known_seen,
        'inconclusive_reasons': inconclusive,
        'repo': core.repo_dir(),
    }
    return evidence, lines, verdict, inconclusive


def write_evidence(prop, evidence):
    d = os.path.join(core.VERIF_DIR, 'evidence')
    os.makedirs(d, exist_ok=True)
    path = os.path.join(d, f'{prop}.json')
    tmp = path + '.tmp'
    with open(tmp, 'w') as f:
        json.dump(evidence, f, indent=1, sort_keys=False)
    os.replace(tmp, path)
    return path


def main(argv=None):
    import argparse
    ap = argparse.ArgumentParser()
    ap.add_argument('prop')
    ap.add_argument('--tier', default=os.environ.get('VERIF_TIER', 'quick'))
    ap.add_argument('--seed', type=int, default=int(os.environ.get('VERIF_SEED', '0')))
    ap.add_argument('--replay')
    ap.add_argument('--jobs', type=int, default=int(os.environ.get('VERIF_JOBS', '16')))
    ap.add_argument('--no-evidence', action='store_true')
    a = ap.parse_args(argv)
    if a.tier not in ('quick', 'thorough'):
        a.tier = 'quick'
    only = None
    want_key = None
    if a.replay:
        rp = json.load(open(a.replay))
        a.tier, a.seed = rp['tier'], rp['seed']
        only = (rp['kind'], rp['shard'])
        want_key = rp['key']
    evidence, lines, verdict, inconclusive = run_property(a.prop, a.tier, a.seed, only=only,
                                                          jobs=a.jobs)
    if a.replay:
        again = any(want_key in l for l in lines)
        for l in lines:
            print(l)
        print(f'REPLAY property={a.prop} key={want_key} reproduced={again}')
        return 1 if again else 0
    if not a.no_evidence:
        write_evidence(a.prop, evidence)
    for l in lines:
        print(l)
    c = evidence['coverage']
    print(f'{a.prop} tier={a.tier} seed={a.seed} verdict={verdict} evaluations={c["evaluations"]} '
          f'distinct={c["distinct_nontrivial"]} oracle_evals={sum(c["oracle_evaluations"].values())} '
          f'wall={evidence["wall_s"]}s')
    if verdict == 'violated':
        return 1
    if verdict == 'inconclusive':
        for r in inconclusive[:5]:
            r1 = ' '.join(str(r).split())
            print(f'INCONCLUSIVE property={a.prop} reason={r1[:400]}')
        return 2
    return 0


if __name__ == '__main__':
    sys.exit(main())
