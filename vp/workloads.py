"""Realistic workloads that run under the probes of a monitor: the repository's own test-suite
(in-process pytest) and the documentation examples (matplotlib stubbed)."""
import glob
import os
import runpy
import sys
import types
import warnings

from vp import core


def run_testsuite(ctx, shard=0, nshards=1):
    import pytest
    repo = core.repo_dir()
    tests = os.path.join(repo, 'tests')

    class Counter:
        def __init__(self):
            self.passed = self.failed = self.skipped = 0

        def pytest_runtest_logreport(self, report):
            if report.when == 'call':
                if report.passed:
                    self.passed += 1
                elif report.failed:
                    self.failed += 1
            elif report.skipped:
                self.skipped += 1

    c = Counter()
    cwd = os.getcwd()
    os.chdir(repo)
    try:
        rc = pytest.main([tests, '-q', '-p', 'no:cacheprovider', '-p', 'no:randomly', '--no-header', '-x' if False else '-q',
                          '-W', 'ignore'], plugins=[c])
    finally:
        os.chdir(cwd)
    ctx.notes['testsuite'] = {'exit': int(rc), 'passed': c.passed, 'failed': c.failed, 'skipped': c.skipped}
    ctx.case({'workload': 'testsuite', 'passed': c.passed, 'failed': c.failed}, ['workload:testsuite'], nontrivial=c.passed > 0)
    if c.passed == 0:
        raise RuntimeError('the repository test-suite did not run under the probes')


class _Anything:
    """Stub object: every attribute/call/index returns another stub (enough for plotting code)."""
    def __getattr__(self, name):
        return _Anything()

    def __call__(self, *a, **k):
        return _Anything()

    def __getitem__(self, k):
        return _Anything()

    def __iter__(self):
        return iter([_Anything(), _Anything()])

    def __setitem__(self, k, v):
        pass


def _stub_matplotlib():
    for name in ('matplotlib', 'matplotlib.pyplot', 'matplotlib.colors', 'matplotlib.patches', 'matplotlib.cm',
                 'matplotlib.gridspec', 'mpl_toolkits', 'mpl_toolkits.axes_grid1'):
        if name not in sys.modules:
            m = types.ModuleType(name)
            m.__getattr__ = lambda attr, _n=name: _Anything()
            sys.modules[name] = m
    sys.modules['matplotlib'].pyplot = sys.modules['matplotlib.pyplot']

    def subplots(nrows=1, ncols=1, *a, **k):
        import numpy as np
        ax = np.empty((nrows, ncols), dtype=object)
        for i in range(nrows):
            for j in range(ncols):
                ax[i, j] = _Anything()
        ax = ax.squeeze() if k.get('squeeze', True) else ax
        return _Anything(), (ax.item() if getattr(ax, 'ndim', 1) == 0 else ax)
    sys.modules['matplotlib.pyplot'].subplots = subplots


def run_docs(ctx):
    repo = core.repo_dir()
    _stub_matplotlib()
    scripts = sorted(glob.glob(os.path.join(repo, 'docs', '_img', 'python', '*.py')) +
                     glob.glob(os.path.join(repo, 'docs', 'user', 'fundamentals', 'plots', '*.py')))
    ran, failed = [], []
    cwd = os.getcwd()
    for s in scripts:
        os.chdir(os.path.dirname(s))
        try:
            with warnings.catch_warnings():
                warnings.simplefilter('ignore')
                runpy.run_path(s, run_name='__main__')
            ran.append(os.path.basename(s))
        except BaseException as e:   # noqa  (examples may call sys.exit or need data files)
            failed.append([os.path.basename(s), f'{type(e).__name__}: {str(e)[:100]}'])
        finally:
            os.chdir(cwd)
        ctx.case({'workload': 'docs', 'script': os.path.basename(s)}, ['workload:docs'])
    ctx.notes['docs'] = {'ran': ran, 'failed': failed}
    if not ran:
        raise RuntimeError('no documentation example ran under the probes')
