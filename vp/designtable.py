"""Regenerate the defect table of DESIGN.md section 7 from known_findings.txt (the single source of truth).

  python -m vp.designtable            # rewrites the table in place
"""
import os
import re

from vp import core


def rows():
    out = []
    for line in open(os.path.join(core.VERIF_DIR, 'known_findings.txt')):
        line = line.rstrip('\n')
        if line.startswith('fixed:'):
            m = re.match(r'fixed: property=(\S+) (\S+) (.*)', line)
            out.append(f'| {m.group(1)} | `{m.group(2)}` | fixed | {m.group(3).replace("|", "&#124;")} |')
        elif line.startswith('known:'):
            m = re.match(r'known: property=(\S+) key=(.*?) :: (.*)', line)
            out.append(f'| {m.group(1)} | — | known finding, key `{m.group(2)}` | {m.group(3).replace("|", "&#124;")} |')
    return out


def main():
    p = os.path.join(core.VERIF_DIR, 'DESIGN.md')
    s = open(p).read()
    head = '| Property | Commit | Disposition | What failed |\n|---|---|---|---|\n'
    i = s.index(head) + len(head)
    j = s.index('\n\n', i)
    s = s[:i] + '\n'.join(rows()) + s[j:]
    open(p, 'w').write(s)
    print(len(rows()), 'rows')


if __name__ == '__main__':
    main()
