"""Evaluate a seeded change (patch.diff + demo.py) against the checks.

  python -m vp.seedcheck <seed dir> [--props C01,C07] [--tier quick] [--keep]

Steps, all in a scratch worktree of /repo HEAD under $TMPDIR that is removed afterwards:
  1. the demo passes on the clean tree;  2. the patch applies;  3. the repository test-suite still passes;
  4. the demo fails with the change;      5. the named checks are run with VERIF_REPO pointing at the scratch tree.
Writes <seed dir>/meta.json (merging with an existing one) and prints a one-line summary.
"""
import argparse
import json
import os
import shutil
import subprocess
import sys
import tempfile

from vp import core

PY = '/venv/bin/python'


def sh(cmd, cwd=None, env=None, timeout=1800):
    p = subprocess.run(cmd, cwd=cwd, env=env, stdout=subprocess.PIPE, stderr=subprocess.STDOUT, timeout=timeout)
    return p.returncode, p.stdout.decode(errors='replace')


def main():
    ap = argparse.ArgumentParser()
    ap.add_argument('seed')
    ap.add_argument('--props', default=None)
    ap.add_argument('--tier', default='quick')
    ap.add_argument('--seeds', default='0')
    a = ap.parse_args()
    seed = os.path.abspath(a.seed)
    meta_path = os.path.join(seed, 'meta.json')
    meta = json.load(open(meta_path)) if os.path.exists(meta_path) else {}
    props = a.props.split(',') if a.props else meta.get('checks_expected', [meta.get('property')])
    tmp = tempfile.mkdtemp(prefix='vpseed-')
    wt = os.path.join(tmp, 'repo')
    out = {'ran': {}}
    try:
        rc, o = sh(['git', '-C', '/repo', 'worktree', 'add', '--detach', '-q', wt, 'HEAD'])
        assert rc == 0, o
        env = dict(os.environ, PYTHONPATH=wt, PYTHONDONTWRITEBYTECODE='1')
        demo = os.path.join(seed, 'demo.py')
        rc, o = sh([PY, demo], cwd=wt, env=env)
        out['demo_clean_exit'] = rc
        rc, o = sh(['git', '-C', wt, 'apply', os.path.join(seed, 'patch.diff')])
        out['patch_applies'] = rc == 0
        if rc != 0:
            out['apply_error'] = o[-400:]
        else:
            # the suite has two unseeded random tests that fail about once in fifty runs on the clean tree: retry
            for attempt in range(3):
                rc, o = sh([PY, '-m', 'pytest', '-q', '-p', 'no:cacheprovider', 'tests'], cwd=wt, env=env)
                if rc == 0:
                    break
            out['tests_pass_with_change'] = rc == 0
            out['test_attempts'] = attempt + 1
            out['tests_tail'] = o.strip().splitlines()[-1] if o.strip() else ''
            rc, o = sh([PY, demo], cwd=wt, env=env)
            out['demo_changed_exit'] = rc
            cenv = dict(os.environ, VERIF_REPO=wt)
            for p in props:
                for s in a.seeds.split(','):
                    rc, o = sh([os.path.join(core.VERIF_DIR, 'check'), p, '--tier', a.tier, '--seed', s, '--no-evidence'],
                               cwd=core.VERIF_DIR, env=cenv, timeout=7200)
                    keys = [l.strip() for l in o.splitlines() if l.strip().startswith('key=')]
                    out['ran'][f'{p}@{a.tier}/seed{s}'] = {'exit': rc, 'violation_line': 'VIOLATION property=' + p in o,
                                                         'keys': [k[:200] for k in keys][:8],
                                                         'tail': o.strip().splitlines()[-1][:200] if o.strip() else ''}
    finally:
        sh(['git', '-C', '/repo', 'worktree', 'remove', '--force', wt])
        shutil.rmtree(tmp, ignore_errors=True)
    # detected = the check reported a violation (exit 1 AND a VIOLATION line): a crashed check does not count
    detected = [k for k, v in out['ran'].items() if v['exit'] == 1 and v.get('violation_line')]
    out['detected_by'] = detected
    out['valid_seed'] = bool(out.get('demo_clean_exit') == 0 and out.get('patch_applies') and out.get('tests_pass_with_change')
                             and out.get('demo_changed_exit', 0) != 0)
    meta.setdefault('evaluations', []).append(out)
    meta['last'] = out
    with open(meta_path, 'w') as f:
        json.dump(meta, f, indent=1)
    print(f"{os.path.basename(os.path.dirname(seed))}/{os.path.basename(seed)} valid={out['valid_seed']} "
          f"detected_by={detected} all={ {k: v['exit'] for k, v in out['ran'].items()} }")
    return 0


if __name__ == '__main__':
    sys.exit(main())
