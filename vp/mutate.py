"""Systematic operator mutation of the anchored source files as a yardstick for the monitors' reach.

  python -m vp.mutate C07 [--n 60] [--seed 1] [--jobs 8] [--out /tmp/mutate]

For the property's anchored files (properties.jsonl) every mutation site is enumerated on the AST (comparison, arithmetic and
boolean operators, small integer constants, unary minus, a few function swaps such as floor/ceil, min/max, zeros/ones, any/all);
`--n` of them are drawn at random.  Each mutant is written into a scratch worktree of /repo HEAD (one per worker, under $TMPDIR,
removed at the end), the repository's own test-suite is run on it, and - only if the tests still pass, i.e. the change is one the
tests cannot see - the property's quick check is run against it with VERIF_REPO.  A mutant that passes the tests AND the check is
a survivor: it is either equivalent (dead code, an error message, a tolerance) or a gap in the monitor; survivors are listed for
review, nothing is decided automatically.  Results: <out>/<prop>.jsonl, one record per mutant.
"""
import argparse
import ast
import copy
import json
import os
import random
import shutil
import subprocess
import sys
import tempfile
from concurrent.futures import ThreadPoolExecutor

from vp import core

PY = '/venv/bin/python'
CMP = {ast.Lt: ast.LtE, ast.LtE: ast.Lt, ast.Gt: ast.GtE, ast.GtE: ast.Gt, ast.Eq: ast.NotEq, ast.NotEq: ast.Eq}
BIN = {ast.Add: ast.Sub, ast.Sub: ast.Add, ast.Mult: ast.Div, ast.Div: ast.Mult}
CALLS = {'floor': 'ceil', 'ceil': 'floor', 'min': 'max', 'max': 'min', 'zeros': 'ones', 'ones': 'zeros', 'any': 'all', 'all': 'any',
         'argmin': 'argmax', 'argmax': 'argmin', 'sin': 'cos', 'cos': 'sin', 'real': 'imag', 'imag': 'real', 'rint': 'floor',
         'round': 'floor', 'fftshift': 'ifftshift', 'ifftshift': 'fftshift'}


# the functions each property is anchored in (file -> qualified names, '*' = the whole file); positions in properties.jsonl refer to
# the pinned commit, names survive the repairs
SCOPE = {
    'C01': {'lentil/fourier.py': ['*']},
    'C02': {'lentil/propagate.py': ['propagate_dft', '_dft_alpha', '_mask_shape', '_mask_shift', '_whole'], 'lentil/fourier.py': ['dft2', '_dft2_coords'],
            'lentil/wavefront.py': ['*']},
    'C03': {'lentil/plane.py': ['Plane.multiply', '_plane_slice', 'Plane.__init__', 'Plane.mask', 'Plane.global_mask', 'Plane.fit_tilt', 'Plane.ptt_vector'],
            'lentil/field.py': ['*'], 'lentil/propagate.py': ['propagate_dft']},
    'C04': {'lentil/plane.py': ['Plane.fit_tilt', 'Plane.ptt_vector', 'Tilt.shift', 'Tilt.__init__', 'TiltInterface.multiply', 'DispersiveTilt.shift',
                                'DispersiveTilt._arc_length', 'DispersiveTilt._dispersion', 'DispersiveTilt.__init__'],
            'lentil/field.py': ['Field.shift'], 'lentil/propagate.py': ['propagate_dft']},
    'C05': {'lentil/propagate.py': ['*'], 'lentil/util.py': ['normalize_power'], 'lentil/fourier.py': ['dft2']},
    'C06': {'lentil/field.py': ['*'], 'lentil/extent.py': ['*']},
    'C07': {'lentil/wavefront.py': ['*'], 'lentil/plane.py': ['Plane.multiply', 'Pupil.multiply', 'Image.multiply', '_mul_pixelscale', 'Plane.shape']},
    'C08': {'lentil/plane.py': ['_can_mul_ptype', '_mul_result_ptype', 'Plane.multiply', 'Pupil.multiply', 'Image.multiply', 'TiltInterface.multiply',
                                'Plane.__init__', 'Pupil.__init__', 'Image.__init__', 'Tilt.__init__'], 'lentil/ptype.py': ['*'],
            'lentil/propagate.py': ['_propagate_ptype']},
    'C09': {'lentil/propagate.py': ['propagate_fft', '_fft_shape', '_fft2', 'scratch_shape', '_has_tilt', '_whole', '_dft_alpha']},
    'C11': {'lentil/zernike.py': ['zernike', 'zernike_index', 'R', 'zernike_coordinates', 'zernike_basis']},
    'C12': {'lentil/zernike.py': ['zernike_fit', 'zernike_remove', 'zernike_compose', 'zernike_basis']},
    'C13': {'lentil/radiometry.py': ['Spectrum._ufunc', 'Spectrum.add', 'Spectrum.subtract', 'Spectrum.multiply', 'Spectrum.divide', 'Spectrum.power',
                                     'Spectrum.__rsub__', 'Spectrum.__rtruediv__', 'Spectrum.__rpow__', '_interp_common', '_sampling', '_intersect',
                                     'Spectrum.sample', 'Spectrum.value', 'Spectrum.wave']},
    'C14': {'lentil/radiometry.py': ['Spectrum.to', 'planck_radiance', 'planck_exitance', 'vegaflux', 'Unit.to', 'Meter.to', 'Micron.to', 'Nanometer.to',
                                     'Angstrom.to', 'Photlam.to', 'Wlam.to', 'Flam.to', 'Blackbody.__init__', 'Blackbody.vegamag', 'Blackbody.sample']},
    'C15': {'lentil/radiometry.py': ['Spectrum.integrate', 'Spectrum.bin', 'Spectrum.crop', 'Spectrum.trim', 'Spectrum.pad', 'Spectrum.append',
                                     'Spectrum.resample', 'Spectrum.ends', 'Spectrum.sample', '_interp_at', 'Spectrum.wave', 'Spectrum.value']},
    'C16': {'lentil/detector.py': ['collect_charge', 'collect_charge_bayer', 'qe_asarray', 'adc', 'format_bayer_string', 'bayer_mask']},
    'C17': {'lentil/plane.py': ['Plane.rescale', 'Plane.resample', '_plane_slice'], 'lentil/util.py': ['rescale']},
    'C18': {'lentil/detector.py': ['shot_noise', 'read_noise', 'dark_current', 'rule07_dark_current', 'cosmic_rays', '_nrays', '_cosmic_ray', '_propagate_ray',
                                   '_cubeplane_ray_intersection', '_process_cube_intersections'], 'lentil/wfe.py': ['*']},
    'C19': {'lentil/detector.py': ['pixel', 'pixelate'], 'lentil/convolvable.py': ['*']},
    'C20': {'lentil/util.py': ['pad', 'window', 'subarray', 'boundary', 'rebin', 'centroid', '_sum_dtype'], 'lentil/helper.py': ['mesh', 'boundary_slice', 'slice_offset'],
            'lentil/shape.py': ['*'], 'lentil/segmented.py': ['*']},
}


def annotate(tree):
    """Give every node the qualified name of the function / method it sits in (attribute _q)."""
    def visit(node, q):
        for child in ast.iter_child_nodes(node):
            cq = q
            if isinstance(child, (ast.FunctionDef, ast.ClassDef)):
                cq = (q + '.' if q else '') + child.name
            child._q = cq
            visit(child, cq)
    tree._q = ''
    visit(tree, '')


def in_scope(q, names):
    if '*' in names:
        return True
    return any(q == n or q.startswith(n + '.') for n in names)


def sites(tree, names=('*',)):
    """All mutation sites as (node, kind).  The tree is walked in a fixed order so that an index identifies a site."""
    annotate(tree)
    out = []
    for node in ast.walk(tree):
        if not in_scope(getattr(node, '_q', ''), names):
            continue
        if isinstance(node, ast.Compare) and len(node.ops) == 1 and type(node.ops[0]) in CMP:
            out.append((node, 'cmp'))
        elif isinstance(node, ast.BinOp) and type(node.op) in BIN:
            # (string concatenation / formatting is not arithmetic)
            if not any(isinstance(x, ast.Constant) and isinstance(x.value, str) for x in (node.left, node.right)):
                out.append((node, 'bin'))
        elif isinstance(node, ast.BoolOp):
            out.append((node, 'bool'))
        elif isinstance(node, ast.UnaryOp) and isinstance(node.op, ast.USub) and not isinstance(node.operand, ast.Constant):
            out.append((node, 'neg'))
        elif isinstance(node, ast.UnaryOp) and isinstance(node.op, ast.Not):
            out.append((node, 'not'))
        elif isinstance(node, ast.Constant) and type(node.value) is int and 0 <= node.value <= 3:
            out.append((node, 'int'))
        elif isinstance(node, ast.Call):
            f = node.func
            name = f.attr if isinstance(f, ast.Attribute) else f.id if isinstance(f, ast.Name) else None
            if name in CALLS:
                out.append((node, 'call'))
    return out


def apply(node, kind, rnd):
    if kind == 'cmp':
        before = type(node.ops[0]).__name__
        node.ops[0] = CMP[type(node.ops[0])]()
        return f'{before}->{type(node.ops[0]).__name__}'
    if kind == 'bin':
        before = type(node.op).__name__
        node.op = BIN[type(node.op)]()
        return f'{before}->{type(node.op).__name__}'
    if kind == 'bool':
        before = type(node.op).__name__
        node.op = ast.Or() if isinstance(node.op, ast.And) else ast.And()
        return f'{before}->{type(node.op).__name__}'
    if kind == 'neg':
        node.op = ast.UAdd()
        return '-x->+x'
    if kind == 'not':
        node.op = ast.UAdd()        # (+x keeps truthiness: the negation is dropped)
        return 'not x->x'
    if kind == 'int':
        before = node.value
        node.value = before + 1 if before != 1 or rnd.random() < 0.5 else 0
        return f'{before}->{node.value}'
    if kind == 'call':
        f = node.func
        if isinstance(f, ast.Attribute):
            before = f.attr
            f.attr = CALLS[before]
        else:
            before = f.id
            f.id = CALLS[before]
        return f'{before}->{CALLS[before]}'
    raise ValueError(kind)


def docstring_nodes(tree):
    skip = set()
    for node in ast.walk(tree):
        if isinstance(node, (ast.FunctionDef, ast.ClassDef, ast.Module)) and node.body and isinstance(node.body[0], ast.Expr) \
                and isinstance(getattr(node.body[0], 'value', None), ast.Constant):
            skip.add(id(node.body[0].value))
    return skip


def sh(cmd, cwd=None, env=None, timeout=1800):
    try:
        p = subprocess.run(cmd, cwd=cwd, env=env, stdout=subprocess.PIPE, stderr=subprocess.STDOUT, timeout=timeout)
        return p.returncode, p.stdout.decode(errors='replace')
    except subprocess.TimeoutExpired:
        return 124, 'timeout'


def recheck(a):
    """Second pass: every survivor of <prop> is tried against the checks of the OTHER properties anchored in the same file (a change of
    the output pixel scale is C02's business, not C05's).  Adds 'others' to the records and rewrites the files."""
    import glob
    props = {json.loads(l)['id']: json.loads(l) for l in open(os.path.join(core.VERIF_DIR, 'properties.jsonl'))}
    todo = []
    for path in sorted(glob.glob(os.path.join(a.out, 'C??.jsonl'))):
        prop = os.path.basename(path)[:3]
        recs = [json.loads(l) for l in open(path)]
        scope = SCOPE.get(prop) or {f: ['*'] for f in props[prop]['anchors']['files']}
        rnd = random.Random(a.seed * 1000 + int(prop[1:]))
        cands = []
        for fn, names in scope.items():
            tree = ast.parse(open(os.path.join('/repo', fn)).read())
            for k, (node, kind) in enumerate(sites(tree, names)):
                cands.append((fn, k, kind, getattr(node, 'lineno', 0)))
        rnd.shuffle(cands)
        picked = cands[:len(recs)]
        jobs = list(enumerate(picked))
        nj = a.orig_jobs
        order = [j for w in range(nj) for j in jobs if j[0] % nj == w]
        assert len(order) == len(recs)
        for (idx, (fn, k, kind, lineno)), r in zip(order, recs):
            assert r['file'] == fn and r['line'] == lineno and r['kind'] == kind, (prop, r, fn, lineno, kind)
            r['k'], r['idx'] = k, idx
            if r.get('check') == 'missed' and 'others' not in r:
                todo.append((path, prop, r, scope[fn]))
        json.dump(recs, open(path + '.tmp', 'w'))
    print(f'{len(todo)} survivors to re-check')
    tmp = tempfile.mkdtemp(prefix='vpmut-')
    workers = []
    for w in range(a.jobs):
        wt = os.path.join(tmp, f'w{w}')
        rc, o = sh(['git', '-C', '/repo', 'worktree', 'add', '--detach', '-q', wt, 'HEAD'])
        assert rc == 0, o
        workers.append(wt)

    def one(job):
        w, (path, prop, r, names) = job
        wt = workers[w]
        fn = r['file']
        tree = ast.parse(open(os.path.join('/repo', fn)).read())
        node, kind = sites(tree, names)[r['k']]
        apply(node, kind, random.Random(r['idx']))
        with open(os.path.join(wt, fn), 'w') as f:
            f.write(ast.unparse(tree) + '\n')
        others = {}
        try:
            for q in sorted(SCOPE):
                if q == prop or fn not in SCOPE[q]:
                    continue
                rc2, o2 = sh([os.path.join(core.VERIF_DIR, 'check'), q, '--no-evidence'], cwd=core.VERIF_DIR, env=dict(os.environ, VERIF_REPO=wt), timeout=1500)
                others[q] = 'detected' if rc2 == 1 and f'VIOLATION property={q}' in o2 else ('missed' if rc2 == 0 else 'inconclusive')
                if others[q] == 'detected':
                    break
        finally:
            sh(['git', '-C', wt, 'checkout', '-q', '--', '.'])
        r['others'] = others
        return r

    chunks = [[(w, t) for i, t in enumerate(todo) if i % a.jobs == w] for w in range(a.jobs)]
    try:
        with ThreadPoolExecutor(max_workers=a.jobs) as ex:
            list(ex.map(lambda ch: [one(j) for j in ch], chunks))
    finally:
        for wt in workers:
            sh(['git', '-C', '/repo', 'worktree', 'remove', '--force', wt])
        shutil.rmtree(tmp, ignore_errors=True)
    # merge back
    by_path = {}
    for path, prop, r, names in todo:
        by_path.setdefault(path, {})[r['idx']] = r
    for path in sorted(glob.glob(os.path.join(a.out, 'C??.jsonl'))):
        recs = json.load(open(path + '.tmp'))
        for r in recs:
            if r['idx'] in by_path.get(path, {}):
                r.update(by_path[path][r['idx']])
        with open(path, 'w') as f:
            for r in recs:
                f.write(json.dumps(r) + '\n')
        os.remove(path + '.tmp')
        left = [r for r in recs if r.get('check') == 'missed' and 'detected' not in (r.get('others') or {}).values()]
        print(f'{os.path.basename(path)[:3]}: {len(left)} survivors after the second pass')
        for r in left:
            print(f"  {r['file']}:{r['line']} {r['kind']} {r['what']} :: {r['src']}")
    return 0


def main():
    if '--recheck' in sys.argv:
        ap = argparse.ArgumentParser()
        ap.add_argument('--recheck', action='store_true')
        ap.add_argument('--seed', type=int, default=1)
        ap.add_argument('--jobs', type=int, default=6)
        ap.add_argument('--orig-jobs', dest='orig_jobs', type=int, default=4)
        ap.add_argument('--out', default='/tmp/mutate')
        return recheck(ap.parse_args())
    ap = argparse.ArgumentParser()
    ap.add_argument('prop')
    ap.add_argument('--n', type=int, default=60)
    ap.add_argument('--seed', type=int, default=1)
    ap.add_argument('--jobs', type=int, default=6)
    ap.add_argument('--out', default='/tmp/mutate')
    ap.add_argument('--files', default=None, help='comma separated override of the anchored files')
    a = ap.parse_args()
    props = {json.loads(l)['id']: json.loads(l) for l in open(os.path.join(core.VERIF_DIR, 'properties.jsonl'))}
    scope = {f: ['*'] for f in a.files.split(',')} if a.files else SCOPE.get(a.prop) or {f: ['*'] for f in props[a.prop]['anchors']['files']}
    rnd = random.Random(a.seed * 1000 + int(a.prop[1:]))
    cands = []
    for fn, names in scope.items():
        src = open(os.path.join('/repo', fn)).read()
        tree = ast.parse(src)
        for k, (node, kind) in enumerate(sites(tree, names)):
            cands.append((fn, k, kind, getattr(node, 'lineno', 0)))
    rnd.shuffle(cands)
    picked = cands[:a.n]
    os.makedirs(a.out, exist_ok=True)
    outp = os.path.join(a.out, f'{a.prop}.jsonl')
    tmp = tempfile.mkdtemp(prefix='vpmut-')
    workers = []
    for w in range(a.jobs):
        wt = os.path.join(tmp, f'w{w}')
        rc, o = sh(['git', '-C', '/repo', 'worktree', 'add', '--detach', '-q', wt, 'HEAD'])
        assert rc == 0, o
        workers.append(wt)

    def one(job):
        idx, (fn, k, kind, lineno) = job
        wt = workers[idx % a.jobs]
        # (jobs for one worker are serialised by the chunking below)
        src = open(os.path.join('/repo', fn)).read()
        tree = ast.parse(src)
        node, kind2 = sites(tree, scope[fn])[k]
        line_before = src.splitlines()[lineno - 1].strip() if lineno else ''
        what = apply(node, kind2, random.Random(idx))
        try:
            new = ast.unparse(tree)
        except Exception as e:
            return {'file': fn, 'line': lineno, 'kind': kind, 'what': what, 'status': 'unparse-failed', 'err': str(e)}
        with open(os.path.join(wt, fn), 'w') as f:
            f.write(new + '\n')
        rec = {'file': fn, 'line': lineno, 'kind': kind, 'what': what, 'src': line_before[:160]}
        try:
            env = dict(os.environ, PYTHONPATH=wt, PYTHONDONTWRITEBYTECODE='1')
            rc, o = sh([PY, '-m', 'pytest', '-q', '-x', '-p', 'no:cacheprovider', 'tests'], cwd=wt, env=env, timeout=600)
            rec['tests'] = 'pass' if rc == 0 else 'fail'
            if rc == 0:
                env2 = dict(os.environ, VERIF_REPO=wt)
                rc2, o2 = sh([os.path.join(core.VERIF_DIR, 'check'), a.prop, '--no-evidence'], cwd=core.VERIF_DIR, env=env2, timeout=1500)
                keys = [l.strip()[4:90] for l in o2.splitlines() if l.strip().startswith('key=')]
                rec['check'] = 'detected' if rc2 == 1 and f'VIOLATION property={a.prop}' in o2 else ('missed' if rc2 == 0 else 'inconclusive')
                rec['keys'] = keys[:3]
        finally:
            sh(['git', '-C', wt, 'checkout', '-q', '--', '.'])
        return rec

    # one thread per worker, each with its own slice of the jobs
    jobs = list(enumerate(picked))
    chunks = [[j for j in jobs if j[0] % a.jobs == w] for w in range(a.jobs)]

    def run_chunk(ch):
        return [one(j) for j in ch]

    try:
        with ThreadPoolExecutor(max_workers=a.jobs) as ex:
            res = [r for ch in ex.map(run_chunk, chunks) for r in ch]
    finally:
        for wt in workers:
            sh(['git', '-C', '/repo', 'worktree', 'remove', '--force', wt])
        shutil.rmtree(tmp, ignore_errors=True)
    with open(outp, 'w') as f:
        for r in res:
            f.write(json.dumps(r) + '\n')
    n_t = sum(1 for r in res if r.get('tests') == 'fail')
    n_d = sum(1 for r in res if r.get('check') == 'detected')
    n_m = sum(1 for r in res if r.get('check') == 'missed')
    n_i = sum(1 for r in res if r.get('check') == 'inconclusive')
    print(f'{a.prop}: {len(res)} mutants of {len(cands)} sites; killed by the tests {n_t}; pass the tests {len(res) - n_t}: detected {n_d}, '
          f'survived {n_m}, inconclusive {n_i}')
    for r in res:
        if r.get('check') in ('missed', 'inconclusive'):
            print(f"  {r['check']:12s} {r['file']}:{r['line']} {r['kind']} {r['what']} :: {r['src']}")
    return 0


if __name__ == '__main__':
    sys.exit(main())
