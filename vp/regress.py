"""For every `fixed:` entry of known_findings.txt: re-introduce the defect (reverse-apply the fix commit) in a scratch
worktree of /repo HEAD and confirm the property's check reports it again (a fixed entry suppresses nothing).

  python -m vp.regress [--tier quick] [--only C07]
"""
import argparse
import os
import shutil
import subprocess
import sys
import tempfile

from vp import core


def sh(cmd, cwd=None, env=None, inp=None):
    p = subprocess.run(cmd, cwd=cwd, env=env, input=inp, stdout=subprocess.PIPE, stderr=subprocess.STDOUT)
    return p.returncode, p.stdout.decode(errors='replace')


def main():
    ap = argparse.ArgumentParser()
    ap.add_argument('--tier', default='quick')
    ap.add_argument('--only')
    a = ap.parse_args()
    entries = []
    for line in open(os.path.join(core.VERIF_DIR, 'known_findings.txt')):
        if line.startswith('fixed:'):
            toks = line.split()
            prop = toks[1].split('=')[1]
            entries.append((prop, toks[2], ' '.join(toks[3:])[:90]))
    bad = 0
    for prop, commit, what in entries:
        if a.only and a.only != prop:
            continue
        tmp = tempfile.mkdtemp(prefix='vpreg-')
        wt = os.path.join(tmp, 'repo')
        try:
            rc, o = sh(['git', '-C', '/repo', 'worktree', 'add', '--detach', '-q', wt, 'HEAD'])
            assert rc == 0, o
            manual = os.path.join(core.VERIF_DIR, 'selftest', f'revert-{commit}.diff')
            if os.path.exists(manual):      # later commits touched the same lines: hand-written re-introduction of the defect
                p = subprocess.run(['git', '-C', wt, 'apply', manual], stdout=subprocess.PIPE, stderr=subprocess.STDOUT)
            else:
                rc, diff = sh(['git', '-C', '/repo', 'diff', f'{commit}^', commit])
                p = subprocess.run(['git', '-C', wt, 'apply', '-R'], input=diff.encode(), stdout=subprocess.PIPE,
                                   stderr=subprocess.STDOUT)
            if p.returncode != 0:
                print(f'{prop} {commit} SKIP (fix no longer reverse-applies cleanly: {p.stdout.decode()[-120:].strip()})')
                bad += 1        # write selftest/revert-<commit>.diff by hand: an unexercised fix is not a passed self-test
                continue
            env = dict(os.environ, VERIF_REPO=wt)
            rc, o = sh([os.path.join(core.VERIF_DIR, 'check'), prop, '--tier', a.tier, '--no-evidence'], cwd=core.VERIF_DIR, env=env)
            keys = [l.strip()[4:60] for l in o.splitlines() if l.strip().startswith('key=')]
            found = rc == 1 and f'VIOLATION property={prop}' in o
            status = 'DETECTED' if found else f'MISSED(exit {rc})'
            if not found:
                bad += 1
            print(f'{prop} {commit} {status} {keys[:3]} :: {what}')
        finally:
            sh(['git', '-C', '/repo', 'worktree', 'remove', '--force', wt])
            shutil.rmtree(tmp, ignore_errors=True)
    return 1 if bad else 0


if __name__ == '__main__':
    sys.exit(main())
