"""The container an argument arrives in is not part of the call (round 8): the same numbers handed over as a read-only array, a view
with negative or non-unit strides, a Fortran-ordered or big-endian array, an object that only offers `__array__`, a nested list, or
- for scalars - a NumPy scalar, a 0-d array or a single-precision number that holds the same value exactly, give what the plain
contiguous float64 array / Python number gives, and what was handed over is left as it was.  Small deterministic calls per property,
evaluated once per run (shard 0) like `vp.defaults` and `vp.reuse`; bucket `forms`.

The reference of every comparison is the same call on plain inputs, so this table decides nothing about the value itself (the
property's own oracle does that on plain inputs); it carries that verdict over to the other containers.
"""
import warnings

import numpy as np


class _Offers:
    """Only `__array__` (what a pandas / xarray / unit-carrying object looks like to NumPy)."""

    def __init__(self, a):
        self._a = a

    def __array__(self, dtype=None, copy=None):
        return self._a if dtype is None else self._a.astype(dtype)

    def __len__(self):
        return len(self._a)

    def __getitem__(self, k):
        return self._a[k]

    def __iter__(self):
        return iter(self._a)


def _readonly(a):
    a = a.copy()
    a.setflags(write=False)
    return a


def _reversed(a):
    sl = (slice(None, None, -1),) * a.ndim
    return np.ascontiguousarray(a[sl])[sl]


def _strided(a):
    if a.ndim == 0:
        return a.copy()
    buf = np.full(a.shape[:-1] + (2 * a.shape[-1],), 7, dtype=a.dtype)
    buf[..., ::2] = a
    return buf[..., ::2]


def _bigendian(a):
    return a.astype(a.dtype.newbyteorder('>')) if a.dtype.kind in 'fciu' and a.dtype.itemsize > 1 else a.copy()


ARRAY_FORMS = {
    'read-only': _readonly,
    'negative strides': _reversed,
    'every other element of a wider buffer': _strided,
    'Fortran order': lambda a: np.asfortranarray(a.copy()),
    'big-endian': _bigendian,
    'object offering __array__': lambda a: _Offers(a.copy()),
    'nested list': lambda a: a.tolist(),
}

SCALAR_FORMS = {
    'numpy scalar': lambda x: (np.int64(x) if isinstance(x, (int, np.integer)) and not isinstance(x, bool) else np.float64(x)),
    '0-d array': lambda x: np.array(x),
    'narrow scalar holding the same value': lambda x: (np.int16(x) if isinstance(x, (int, np.integer)) and abs(int(x)) < 2 ** 15
                                                          else (np.float32(x) if not isinstance(x, (int, np.integer)) and float(np.float32(x)) == float(x) else x)),
}


def _flat(res):
    if isinstance(res, (tuple, list)):
        out = []
        for r in res:
            out.extend(_flat(r))
        return out
    if isinstance(res, slice):
        return [np.array([-1 if v is None else v for v in (res.start, res.stop, res.step)], dtype=float)]
    return [np.asarray(res)]


def _same(a, b, rtol):
    fa, fb = _flat(a), _flat(b)
    if len(fa) != len(fb):
        return False, 'number of results'
    for x, y in zip(fa, fb):
        if x.shape != y.shape:
            return False, f'shape {x.shape} vs {y.shape}'
        if x.dtype.kind in 'OSU' or y.dtype.kind in 'OSU':
            if not np.array_equal(x, y):
                return False, 'labels'
            continue
        x = x.astype(complex if (x.dtype.kind == 'c' or y.dtype.kind == 'c') else float)
        y = y.astype(x.dtype)
        fin = np.isfinite(y)
        if not np.array_equal(np.isfinite(x), fin):
            return False, 'finite pattern'
        if not fin.any():
            continue
        sc = max(float(np.max(np.abs(y[fin]))), 1e-300)
        err = float(np.max(np.abs(x[fin] - y[fin]))) / sc
        if not err <= rtol:
            return False, f'relative difference {err:.3g}'
    return True, ''


def calls(prop, lentil, rng):
    """-> list of (name, fn(A, S), rtol).  A(array, listable=True) and S(scalar) wrap the inputs whose container is varied."""
    R, D, U, Fd, H = lentil.radiometry, lentil.detector, lentil.util, lentil.field, lentil.helper
    Z = __import__('sys').modules['lentil.zernike']
    out = []
    add = lambda name, fn, rtol=1e-10: out.append((name, fn, rtol))
    n = 32
    r, c = H.mesh((n, n))
    circ = (r ** 2 + c ** 2 <= 13 ** 2)
    amp = circ * (1.0 + 0.1 * np.cos(0.3 * r))
    opd = circ * 1e-8 * (0.5 * r - 0.2 * c + 0.03 * r * c)
    segm = np.array([circ & (c < 0), circ & (c >= 0)]).astype(int)
    img = np.abs(rng.normal(size=(12, 18))) * 100 + 5
    cube = np.abs(rng.normal(size=(3, 12, 18))) * 100 + 5

    if prop == 'C01':
        f = rng.normal(size=(9, 14)) + 1j * rng.normal(size=(9, 14))
        add('dft2(f, alpha, shape, shift, offset)', lambda A, S: lentil.fourier.dft2(A(f), (S(1 / 17.5), S(1 / 23.0)), shape=(S(11), S(8)),
                                                                               shift=(S(0.25), S(-1.5)), offset=(S(2), S(-3))))
        add('idft2(F, alpha, shape, shift)', lambda A, S: lentil.fourier.idft2(A(f), A(np.array([1 / 17.5, 1 / 23.0])), shape=A(np.array([11, 8])),
                                                                         shift=A(np.array([0.25, -1.5]))))
        add('dft2(real f, scalar alpha)', lambda A, S: lentil.fourier.dft2(A(f.real), S(0.0625), shape=S(12), unitary=False))

    def pupil(A, S, mask=None, **kw):
        return lentil.Pupil(amplitude=A(amp), opd=A(opd), mask=(A(mask) if mask is not None else None), pixelscale=S(0.5e-3),
                            focal_length=S(8.0), **kw)

    if prop in ('C02', 'C05', 'C07', 'C10'):
        add('propagate_dft(Wavefront(wl) * Pupil(amplitude, opd, pixelscale, focal_length), pixelscale, shape, oversample).field',
            lambda A, S: lentil.propagate_dft(lentil.Wavefront(S(650e-9)) * pupil(A, S), pixelscale=S(5e-6), shape=(S(24), S(20)),
                                              oversample=S(2)).field)
        add('propagate_dft(..., pixelscale=(du_r, du_c), prop_shape, mask).intensity',
            lambda A, S: lentil.propagate_dft(lentil.Wavefront(S(0.5e-6)) * pupil(A, S, mask=circ.astype(int)), pixelscale=A(np.array([4e-6, 5e-6])),
                                              shape=A(np.array([24, 24])), prop_shape=S(16), oversample=S(3)).intensity)
    if prop in ('C03', 'C04'):
        def seg(A, S):
            p = pupil(A, S, mask=segm).fit_tilt()
            return lentil.propagate_dft(lentil.Wavefront(S(650e-9)) * p, pixelscale=S(5e-6), shape=S(32), prop_shape=S(24), oversample=S(2)).field
        add('propagate_dft(Wavefront * Pupil(mask=segments).fit_tilt()).field', seg, 1e-9)
        add('Wavefront(tilt=[Tilt(x, y)]) * Pupil -> propagate_dft',
            lambda A, S: lentil.propagate_dft((lentil.Wavefront(S(650e-9)) * pupil(A, S)) * lentil.Tilt(x=S(2e-6), y=S(-3.5e-6)),
                                              pixelscale=S(5e-6), shape=S(32), oversample=S(2)).field, 1e-9)
    if prop in ('C06', 'C10'):
        d1 = rng.normal(size=(5, 7)) + 1j * rng.normal(size=(5, 7))
        d2 = rng.normal(size=(6, 4)) + 1j * rng.normal(size=(6, 4))

        def fld(A, S):
            a = Fd.Field(data=A(d1), pixelscale=S(1e-3), offset=A(np.array([2, -1])))
            b = Fd.Field(data=A(d2), pixelscale=S(1e-3), offset=A(np.array([1, 1])))
            m = a * b
            o = np.zeros((16, 16), dtype=complex)
            o = Fd.insert(a, o, weight=S(0.5))
            return (np.asarray(m.data), np.asarray(m.extent), np.asarray(m.offset), o, np.asarray(Fd.boundary([a, b])),
                    np.asarray(lentil.extent.array_extent(A(np.array([5, 7])), A(np.array([2, -1])))))
        add('Field(data, pixelscale, offset) * Field; insert(weight); boundary; extent', fld)
    if prop == 'C07':
        def views(A, S):
            w = lentil.Wavefront(S(650e-9)) * pupil(A, S, mask=segm)
            o = np.zeros((n, n))
            return w.field, w.intensity, w.insert(o, weight=S(2))
        add('Wavefront * Pupil: field, intensity, insert(out, weight)', views)
    if prop == 'C08':
        def types(A, S):
            w0 = lentil.Wavefront(S(650e-9)) * lentil.Plane(amplitude=A(amp), opd=A(opd), pixelscale=S(0.5e-3))
            w = w0
            w2 = w0 * pupil(A, S)
            w3 = lentil.propagate_dft(w2, pixelscale=S(5e-6), shape=S(16), oversample=S(1))
            w4 = w3 * lentil.Image(amplitude=A(np.ones((16, 16))), pixelscale=S(5e-6))
            return (np.array([str(x.ptype) for x in (w, w2, w3, w4)]), w4.field)
        add('pupil -> plane -> image products keep the documented types', types)
    if prop in ('C09', 'C10'):
        def fft(A, S):
            w = lentil.Wavefront(S(650e-9)) * lentil.Pupil(amplitude=A(amp), opd=A(opd), pixelscale=S(1e-3), focal_length=S(10.0))
            return lentil.propagate_fft(w, pixelscale=S(6.5e-6 / 2), shape=S(24), oversample=S(2)).field
        add('propagate_fft(Wavefront * Pupil, pixelscale, shape, oversample).field', fft, 1e-9)
    if prop == 'C11':
        add('zernike(mask, index, rho, theta)', lambda A, S: (Z.zernike(A(circ.astype(int)), S(8)), Z.zernike(A(circ), index=S(5), normalize=False),
                                                              Z.zernike(A(circ.astype(float)), S(11), rho=A(np.hypot(r, c) / 13), theta=A(np.arctan2(r, c)))))
        add('zernike_basis(mask, modes)', lambda A, S: (Z.zernike_basis(A(circ.astype(int)), modes=A(np.array([1, 4, 7, 12]))),
                                                         Z.zernike_basis(A(circ.astype(int)), modes=[S(2), S(3), S(9)], vectorize=True)))
    if prop == 'C12':
        co = np.array([0.0, 3e-8, -2e-8, 5e-8, 1e-8, -4e-8])
        wf = Z.zernike_compose(circ.astype(int), co)
        add('zernike_compose(mask, coeffs); zernike_fit(opd, mask, modes); zernike_remove',
            lambda A, S: (Z.zernike_compose(A(circ.astype(int)), A(co)), Z.zernike_fit(A(wf), A(circ.astype(int)), A(np.arange(1, 7))),
                          Z.zernike_remove(A(wf), A(circ.astype(int)), [S(2), S(3), S(4)]),
                          Z.zernike_fit(A(wf), A(circ), S(4))), 1e-9)
    if prop in ('C13', 'C14', 'C15'):
        w1 = np.linspace(400, 700, 31)
        v1 = 1 + 0.5 * np.sin(w1 / 40)
        w2 = np.linspace(0.45, 0.8, 15)
        v2 = 2 + np.cos(w2 * 9)
    if prop == 'C13':
        def arith(A, S):
            a = R.Spectrum(A(w1), A(v1))
            b = R.Spectrum(A(w2), A(v2), waveunit='um')
            res = []
            for s in (a + b, a * b, b - a, a / (b + S(3)), a * S(2), S(0.5) + a, a ** S(2), a.multiply(b, sampling=7.0), A(v1, listable=False) * a):
                res += [np.asarray(s.wave), np.asarray(s.value)]
            return res
        add('Spectrum(wave, value) + - * / ** with spectra, scalars and arrays', arith)
    if prop == 'C14':
        def conv(A, S):
            a = R.Spectrum(A(w1), A(v1), valueunit='photlam')
            bb = R.Blackbody(A(w1), S(5000.0))
            res = []
            for s, units in ((a.copy(), ('um',)), (a.copy(), ('flam',)), (a.copy(), ('angstrom', 'wlam')), (bb, ('wlam',))):
                s.to(*units)
                res += [np.asarray(s.wave), np.asarray(s.value)]
            res += [R.planck_exitance(A(w1), S(3000.0)), R.planck_radiance(A(w2), S(4500.0), waveunit='um', valueunit='photlam'),
                    bb.sample(A(np.array([455.5, 610.25])))]
            return res
        add('to() between units; Blackbody(wave, temp); planck_*(wave, temp)', conv)
    if prop == 'C15':
        def shape_ops(A, S):
            a = R.Spectrum(A(w1), A(v1))
            res = [a.integrate(), a.integrate(S(450.0), S(650.5)), a.integrate(method='trapz'), a.sample(A(np.array([410.2, 555.0, 699.0]))),
                   a.sample(S(500.5)), a.bin(A(np.linspace(420, 680, 6))), a.bin(A(np.array([0.45, 0.5, 0.55, 0.6])), waveunit='um', preserve_power=False)]
            for op in (lambda s: s.resample(A(np.linspace(405, 695, 9))), lambda s: s.crop(S(450.0), S(600.0)), lambda s: s.pad((S(350.0), S(760.0))),
                       lambda s: s.trim()):
                s = a.copy()
                op(s)
                res += [np.asarray(s.wave), np.asarray(s.value)]
            return res
        add('integrate / sample / bin / resample / crop / pad / trim', shape_ops)
    if prop == 'C16':
        wv = np.array([450.0, 550.0, 650.0])
        qe = R.Spectrum(np.linspace(400, 700, 7), np.array([0.2, 0.4, 0.6, 0.7, 0.65, 0.5, 0.3]))
        e = np.abs(rng.normal(size=(12, 18))) * 300

        def chain(A, S):
            return (D.collect_charge(A(cube), A(wv), A(np.array([0.5, 0.6, 0.7]))), D.collect_charge(A(cube), A(wv), S(0.5)),
                    D.collect_charge(A(cube), A(wv), qe),
                    D.collect_charge_bayer(A(cube), A(wv), S(0.3), qe, A(np.array([0.1, 0.2, 0.3])), 'RGGB'),
                    D.pixelate(A(img), S(2)), D.adc(A(e), S(0.25), S(180.0)), D.adc(A(e), gain=A(np.full(e.shape, 0.5)), dtype=np.uint16))
        add('collect_charge(img, wave, qe) / collect_charge_bayer / pixelate / adc(img, gain, saturation_capacity)', chain)
    if prop == 'C17':
        g = np.exp(-(r ** 2 + c ** 2) / (2 * 5.0 ** 2))

        def resc(A, S):
            p = lentil.Pupil(amplitude=A(g), opd=A(g * 1e-8), mask=A((g > 1e-3).astype(int)), pixelscale=S(1e-3), focal_length=S(5.0))
            q = p.rescale(S(1.5))
            q2 = p.resample(S(0.5e-3))
            return (U.rescale(A(g), S(2.0)), U.rescale(A(g), scale=S(0.5), shape=(S(20), S(20)), unitary=False), q.amplitude, q.opd, q.mask,
                    np.asarray(q.pixelscale), q2.amplitude, np.asarray(q2.pixelscale))
        add('rescale(img, scale, shape); Plane.rescale(scale); Plane.resample(pixelscale)', resc)
    if prop == 'C18':
        def noise(A, S):
            return (D.shot_noise(A(img), seed=S(12345, seed=True)), D.shot_noise(A(img), method='gaussian', seed=S(7, seed=True)), D.read_noise(A(img), S(4.0), seed=S(3, seed=True)),
                    D.dark_current(S(25.0), shape=(S(6), S(5)), fpn_factor=S(0.1), seed=S(99, seed=True)), D.dark_current(A(img), seed=S(5, seed=True)),
                    D.rule07_dark_current(S(80.0), S(5.0), S(18e-6), shape=(S(6), S(4)), seed=S(11, seed=True)),
                    lentil.power_spectrum(A(circ.astype(int)), pixelscale=S(1e-3), rms=S(5e-8), half_power_freq=S(8.0), exp=S(3.0), seed=S(21, seed=True)))
        add('shot_noise / read_noise / dark_current / rule07_dark_current / power_spectrum with a seed', noise)
    if prop == 'C19':
        add('pixel / jitter / smear / charge_diffusion',
            lambda A, S: (D.pixel(A(img), S(2)), lentil.jitter(A(img), S(1.5), pixelscale=S(1.0), oversample=S(2)),
                          lentil.smear(A(img), S(3.0), angle=S(30.0), pixelscale=S(1.0), oversample=S(1)), D.charge_diffusion(A(img), S(0.5), oversample=S(2))))
    if prop == 'C20':
        blob = np.zeros((14, 17))
        blob[3:9, 5:12] = rng.uniform(1, 2, size=(6, 7))

        def geom(A, S):
            return (lentil.circle((S(21), S(24)), S(7.5), shift=(S(1.5), S(-2.0))), lentil.circle(A(np.array([21, 24])), S(7.5), shift=A(np.array([1.5, -2.0])), antialias=False),
                    lentil.rectangle((S(20), S(20)), S(6), S(9), shift=(S(1), S(-2))), lentil.hexagon((S(30), S(30)), S(9.0)),
                    H.mesh((S(7), S(8)), shift=(S(0.5), S(1.0))), lentil.centroid(A(blob)), lentil.boundary(A(blob)), H.boundary_slice(A(blob, listable=False)),
                    lentil.pad(A(blob), (S(20), S(21))), lentil.subarray(A(blob), (S(6), S(7)), shift=(S(1), S(-1))), lentil.window(A(blob), shape=(S(8), S(9))),
                    lentil.rebin(A(img), S(2)), lentil.rebin(A(cube), S(3)), np.asarray(lentil.extent.array_extent(A(np.array([14, 17])), A(np.array([3, -2])))),
                    np.asarray(H.slice_offset((slice(3, 9), slice(5, 12)), A(np.array([14, 17])))))
        add('circle / rectangle / hexagon / mesh / centroid / boundary / pad / subarray / window / rebin / extent / slice_offset', geom)
    return out


def run(ctx, lentil, prop, oracle):
    if ctx.shard != 0:
        return
    rng0 = [ctx.seed, 93, int(prop[1:])]
    for idx, (name, fn, rtol) in enumerate(calls(prop, lentil, np.random.default_rng(rng0))):
        ident_a = lambda a, listable=True: a.copy()
        ident_s = lambda x, seed=False: x
        try:
            with warnings.catch_warnings():
                warnings.simplefilter('ignore')
                with np.errstate(all='ignore'):
                    ref = fn(ident_a, ident_s)
        except Exception as e:
            ctx.check(False, oracle, f'forms|{name[:60]}|plain|raises={type(e).__name__}', str(e)[:300], {'call': name})
            continue
        variants = [('array', k, v) for k, v in ARRAY_FORMS.items()] + [('scalar', k, v) for k, v in SCALAR_FORMS.items()]
        for kind, label, conv in variants:
            ctx.case({'forms': name, 'container': label}, ['forms'])
            handed = []

            def A(a, listable=True, _kind=kind, _conv=conv, _label=label):
                if _kind != 'array' or (_label in ('nested list', 'object offering __array__') and not listable):
                    return a.copy()
                obj = _conv(a)
                handed.append((obj, np.array(a, copy=True)))
                return obj

            def S(x, seed=False, _kind=kind, _conv=conv, _label=label):
                if _kind != 'scalar' or (seed and _label == '0-d array'):      # (numpy's own generators refuse a 0-d array as a seed)
                    return x
                return _conv(x)
            try:
                with warnings.catch_warnings():
                    warnings.simplefilter('ignore')
                    with np.errstate(all='ignore'):
                        got = fn(A, S)
                ok, why = _same(got, ref, rtol)
                ctx.check(ok, oracle, f'forms|{name[:60]}|{label}', 'the same numbers handed over in another container give another result: ' + why,
                          {'call': name, 'container': label, 'difference': why})
                kept = all(np.array_equal(np.asarray(o._a if isinstance(o, _Offers) else o), snap) for o, snap in handed)
                ctx.check(kept, oracle, f'forms|{name[:60]}|{label}|input-changed', 'a call changed what it was handed', {'call': name, 'container': label})
            except Exception as e:
                ctx.check(False, oracle, f'forms|{name[:60]}|{label}|raises={type(e).__name__}', str(e)[:300], {'call': name, 'container': label})
