"""Objects that are used more than once, copies of objects, results that share arrays with their operands, and the other argument
forms of round 7 (ndarray sub-classes, unsorted requests, positional calls): small deterministic scenarios per property, evaluated
once per run (shard 0) like `vp.defaults`.  Each scenario states its own expectation - the second use of an object gives what a
fresh object gives; what a call was handed is left as it was; a copy behaves like the original.
"""
import copy
import pickle
import warnings

import numpy as np


def _close(a, b, rtol=1e-12):
    a, b = np.asarray(a), np.asarray(b)
    if a.shape != b.shape:
        return False
    sc = max(float(np.max(np.abs(b))) if b.size else 0.0, 1e-300)
    return bool(np.all(np.abs(a - b) <= rtol * sc))


def scenarios(prop, lentil, rng):
    """-> list of (name, thunk) where thunk() returns (ok, detail)."""
    R, D, U, F = lentil.radiometry, lentil.detector, lentil.util, lentil.field
    Z = __import__('sys').modules['lentil.zernike']
    out = []
    add = lambda name, fn: out.append((name, fn))

    if prop in ('C03', 'C04'):
        def _three_segments(n=64):
            r, c = lentil.helper.mesh((n, n))
            circ = (r ** 2 + c ** 2 <= 28 ** 2)
            masks = np.array([circ & (c < -3), circ & (c >= -3) & (r < 5), circ & (c >= -3) & (r >= 5)]).astype(int)
            return r, c, circ, masks

        def refit_twice():
            r, c, circ, masks = _three_segments()
            dx = 1e-3
            opd1 = sum(m * (a * c * dx - b * r * dx) for m, (a, b) in zip(masks, [(3e-6, -1e-6), (-2e-6, 4e-6), (1e-6, 2.5e-6)]))
            opd2 = sum(m * (a * c * dx - b * r * dx) for m, (a, b) in zip(masks, [(-1e-6, 2e-6), (2e-6, 1e-6), (-3e-6, -1.5e-6)]))
            kw = dict(pixelscale=5e-6, shape=96, oversample=2)
            p = lentil.Pupil(amplitude=circ.astype(float), opd=opd1.copy(), mask=masks, pixelscale=dx, focal_length=10.0)
            p.fit_tilt(inplace=True)
            p.opd = p.opd + opd2
            p.fit_tilt(inplace=True)
            got = lentil.propagate_dft(lentil.Wavefront(650e-9) * p, **kw).field
            ref = lentil.propagate_dft(lentil.Wavefront(650e-9) * lentil.Pupil(amplitude=circ.astype(float), opd=opd1 + opd2, mask=circ.astype(int),
                                                                              pixelscale=dx, focal_length=10.0), **kw).field
            core = np.s_[40:-40, 40:-40]
            err = float(np.abs(got - ref)[core].max() / np.abs(ref).max())
            return err < 1e-8, {'field error': err}
        add('a segmented plane fitted, given more OPD, fitted again - against the global mask with the whole OPD', refit_twice)

        def nearly_equal_segment_tilts():
            r, c, circ, masks = _three_segments()
            dx = 1e-3
            worst = {}
            for label, tilts in (('different integer parts', [(11.8, 5.2), (12.3, 5.4), (12.1, 4.8)]),
                                 ('a few 1e-4 samples apart', [(3.3137, -1.2521), (3.3141, -1.2524), (3.3134, -1.2517)]),
                                 ('same nearest integer', [(7.45, 2.55), (7.55, 2.45), (7.51, 2.49)])):
                opd = sum(m * pst for m, pst in zip(masks, [0.0, 120e-9, -75e-9])) + \
                    sum(m * (a / 4e6 * c * dx - b / 4e6 * r * dx) for m, (a, b) in zip(masks, tilts))
                kw = dict(pixelscale=5e-6, shape=128, prop_shape=64, oversample=2)
                ref = lentil.propagate_dft(lentil.Wavefront(650e-9) * lentil.Pupil(amplitude=circ.astype(float), opd=opd, mask=circ.astype(int),
                                                                                  pixelscale=dx, focal_length=10.0), **kw)
                ps = lentil.Pupil(amplitude=circ.astype(float), opd=opd, mask=masks, pixelscale=dx, focal_length=10.0).fit_tilt()
                ws = lentil.propagate_dft(lentil.Wavefront(650e-9) * ps, **kw)
                core = np.s_[128 - 44:128 + 44, 128 - 44:128 + 44]
                fs, fr = ws.field, ref.field
                worst[label] = max(float(np.abs(fs - fr)[core].max() / np.abs(fr).max()),
                                   float(np.abs(ws.intensity - np.abs(fs) ** 2).max() / np.abs(fr).max() ** 2))
            return max(worst.values()) < 1e-8, worst
        add('segments with a common pointing offset and small tilts of their own (fitted), against the global mask', nearly_equal_segment_tilts)

    if prop in ('C01', 'C02'):
        def long_axis_transform():
            Fm = lentil.fourier
            m, M = 1030, 1040                     # (kernels of more than 2**20 elements on the long axis)
            f = rng.normal(size=(m, 3)) + 1j * rng.normal(size=(m, 3))
            al = (1 / 1100.3, 1 / 5.0)
            got = np.asarray(Fm.dft2(f, al, shape=(M, 3), unitary=False))
            LD = np.longdouble
            x = np.arange(m, dtype=LD) - m // 2
            y = np.arange(3, dtype=LD) - 1
            worst = 0.0
            for u_, v_ in ((0, 0), (M - 1, 2), (M // 2, 1), (17, 0), (M // 2 + 301, 2)):
                ph = LD(al[0]) * x[:, None] * LD(u_ - M // 2) + LD(al[1]) * y[None, :] * LD(v_ - 1)
                ph = ph - np.floor(ph)
                ref = np.sum(f.astype(np.clongdouble) * np.exp(-2j * np.pi * ph))
                worst = max(worst, float(abs(got[u_, v_] - ref)))
            sc = float(np.sum(np.abs(f)))
            return worst <= 1e-11 * sc, {'worst/sum|f|': worst / sc}
        add('a transform with more than a million kernel elements on one axis keeps double precision', long_axis_transform)

    if prop in ('C04', 'C10'):
        def disp_history():
            mk = lambda: lentil.DispersiveTilt(trace=[2.0, 1.0, 0.0], dispersion=[5e-5, 1e-6, 650e-9])
            fresh = [mk().shift(wavelength=w_) for w_ in (700e-9, 655e-9, 720e-9)]
            obj = mk()
            for w_ in (500e-9, 900e-9, 640e-9, 450e-9, 1000e-9, 640e-9):      # (far enough apart to leave the neighbourhood of one root)
                obj.shift(wavelength=w_)
            used = [obj.shift(wavelength=w_) for w_ in (700e-9, 655e-9, 720e-9)]
            return _close(np.asarray(used, float), np.asarray(fresh, float), 1e-7), {'fresh': np.asarray(fresh).tolist(), 'used': np.asarray(used).tolist()}
        add('DispersiveTilt (second-order trace and dispersion) asked for several wavelengths in a row', disp_history)

    if prop in ('C06', 'C07', 'C10'):
        def insert_weight():
            data = (rng.normal(size=(3, 4)) + 1j * rng.normal(size=(3, 4)))
            keep = data.copy()
            f = F.Field(data, offset=[1, -1])
            a = F.insert(f, np.zeros((8, 8), complex), intensity=False, weight=2.5)
            b = F.insert(f, np.zeros((8, 8), complex), intensity=False, weight=2.5)
            c = F.insert(f, np.zeros((8, 8), complex))
            return (np.array_equal(f.data, keep) and np.array_equal(data, keep) and np.array_equal(a, b) and _close(a, 2.5 * c)), {}
        add('field.insert(intensity=False, weight=2.5) twice with the same Field', insert_weight)

        def near_unit_constant():
            arr = rng.normal(size=(4, 5)) + 1j * rng.normal(size=(4, 5))
            worst = 0.0
            for c_ in (1 + 3e-6, 1 - 2e-7j, 0.999999 + 0j, np.exp(2j * np.pi * 1e-7)):
                p1 = F.Field(np.array(c_)) * F.Field(arr.copy(), offset=[2, 1])
                p2 = F.Field(arr.copy(), offset=[2, 1]) * F.Field(np.array(c_))
                worst = max(worst, float(np.abs(p1.data - c_ * arr).max()), float(np.abs(p2.data - c_ * arr).max()))
            return worst <= 1e-14 * float(np.abs(arr).max()), {'worst': worst}
        add('a constant field within 1e-5 of 1 (a ppm transmission, a tiny piston phasor) times an array', near_unit_constant)

    if prop in ('C06', 'C07', 'C10'):
        def ndarray_offset_twice():
            data = rng.normal(size=(3, 4)) + 1j * rng.normal(size=(3, 4))
            ok = True
            for off in ([2, -3], [-5, 1], [0, 6]):
                for shape in ((12, 15), (9, 8)):
                    oarr = np.array(off)
                    f = F.Field(data.copy(), offset=oarr)
                    want = F.insert(F.Field(data.copy(), offset=list(off)), np.zeros(shape, complex))
                    a = F.insert(f, np.zeros(shape, complex))
                    b = F.insert(f, np.zeros(shape, complex))
                    ok = ok and np.array_equal(a, want) and np.array_equal(b, want) and np.array_equal(np.asarray(f.offset), off) and np.array_equal(oarr, off)
            return ok, {}
        add('a Field whose offset is an integer ndarray inserted twice', ndarray_offset_twice)

    if prop in ('C06',):
        def centre_identity():
            E = lentil.extent
            bad = []
            for shape in ((3, 5), (4, 7), (5, 5), (1, 3), (6, 2)):
                for shift in ((1, 3), (-3, 1), (5, -7), (0, 0), (2, -1)):
                    got = tuple(int(v) for v in E.array_center(E.array_extent(shape, shift)))
                    if got != tuple(shift):
                        bad.append([list(shape), list(shift), list(got)])
            return not bad, {'bad': bad[:4]}
        add('array_center(array_extent(shape, shift)) is shift (odd sizes, odd shifts)', centre_identity)

    if prop in ('C07', 'C09'):
        def field_after_edit():
            n = 10
            amp = np.asarray(lentil.circle((n, n), 4, antialias=False), float)
            w = lentil.Wavefront(6e-7) * lentil.Pupil(amplitude=amp, pixelscale=1e-3, focal_length=3.0)
            du = 6e-7 * 3.0 / (1e-3 * 24)
            w.field                                  # (looked at once ...)
            lentil.propagate_fft(w, du, oversample=1)
            for f in w.data:                          # (... then a graded stop is applied to the samples in place)
                f.data *= np.linspace(0.25, 1.0, f.data.shape[1])[None, :]
            a = lentil.propagate_fft(w, du, oversample=1).field
            b = lentil.propagate_fft(w, du, oversample=1, scratch=np.zeros((24, 24), complex)).field
            c = lentil.propagate_dft(w, du, shape=24, oversample=1).field
            fld = w.field
            ref = np.zeros(tuple(int(x) for x in w.shape), complex)
            for f in w.data:
                ref = F.insert(f, ref)
            return (_close(a, b, 1e-12) and _close(a, c, 1e-9) and _close(fld, ref, 1e-12)), {}
        add('a wavefront whose field samples are edited in place between two uses', field_after_edit)

    if prop in ('C09',):
        def tilt_refused_both_directions():
            amp = np.asarray(lentil.circle((16, 16), 6), float)
            w = lentil.Wavefront(5e-7) * lentil.Pupil(amplitude=amp, pixelscale=1 / 32, focal_length=10.0)
            du = 5e-7 * 10.0 * 2 / ((1 / 32) * 40)
            img = lentil.propagate_fft(w, pixelscale=du, shape=8, oversample=2) * lentil.Tilt(x=2e-3, y=-1e-3)
            outcomes = []
            for wt in (img, w * lentil.Tilt(x=1e-6, y=0.0)):
                try:
                    lentil.propagate_fft(wt, pixelscale=1 / 32 if wt is img else du, oversample=1)
                    outcomes.append('accepted')
                except NotImplementedError:
                    outcomes.append('refused')
                except Exception as e:
                    outcomes.append(type(e).__name__)
            return outcomes == ['refused', 'refused'], {'image->pupil, pupil->image': outcomes}
        add('tilt metadata is refused by the FFT propagator in both directions (image to pupil too)', tilt_refused_both_directions)

    if prop in ('C08', 'C07'):
        def reused_operands():
            w = lentil.Wavefront(6e-7)
            before = str(w.ptype)
            r1 = w * lentil.Image()
            ok = str(w.ptype) == before and r1 is not w and str(r1.ptype) == 'image'
            r2 = w * lentil.Pupil(amplitude=np.ones((4, 4)), pixelscale=1e-3, focal_length=2.0)
            ok = ok and str(r2.ptype) == 'pupil' and str((w * lentil.Plane()).ptype) == 'none'
            # the same forbidden pair twice in a row on one plane object: refused both times, operands unchanged
            pl = lentil.Pupil(amplitude=np.ones((4, 4)), pixelscale=1e-3, focal_length=2.0)
            wi = lentil.Wavefront(6e-7, pixelscale=1e-3, focal_length=2.0, ptype=lentil.image)
            outcomes = []
            for _ in range(3):
                try:
                    res = wi * pl
                    outcomes.append(str(res.ptype))
                except TypeError:
                    outcomes.append('TypeError')
                except Exception as e:
                    outcomes.append(type(e).__name__)
            ok = ok and outcomes == ['TypeError'] * 3 and str(wi.ptype) == 'image' and str(pl.ptype) == 'pupil'
            # ... and the plane still works with a wavefront it may act on
            ok = ok and str((lentil.Wavefront(6e-7) * pl).ptype) == 'pupil'
            return ok, {'outcomes': outcomes, 'w': str(w.ptype)}
        add('a none wavefront used for several products; one forbidden pair attempted three times', reused_operands)

        def positional_plane():
            table = {'none': {'none': 'none', 'pupil': 'pupil', 'image': 'image', 'tilt': 'none', 'transform': 'none'},
                     'pupil': {'pupil': 'pupil', 'tilt': 'pupil', 'transform': 'pupil'}, 'image': {'image': 'image', 'tilt': 'image', 'transform': 'image'}}
            bad = []
            for form in ('object', 'string'):
                for start, row in table.items():
                    for pt in ('none', 'pupil', 'image', 'tilt', 'transform'):
                        arg = lentil.ptype(pt) if form == 'object' else pt
                        try:
                            # the documented order: amplitude, opd, mask, pixelscale, diameter, ptype
                            pl = lentil.Plane(1, 0, None, None, None, arg)
                            if str(pl.ptype) != pt or float(pl.amplitude) != 1.0:
                                bad.append([form, pt, 'built as ' + str(pl.ptype)])
                                continue
                            w = lentil.Wavefront(6.5e-7, ptype=start)
                            try:
                                got = str((w * pl).ptype)
                            except TypeError:
                                got = None
                            if got != row.get(pt):
                                bad.append([form, start, pt, got])
                        except Exception as e:
                            bad.append([form, pt, type(e).__name__])
            return not bad, {'bad': bad[:5]}
        add('Plane built with its arguments by position in the documented order (the plane type last)', positional_plane)

    if prop in ('C10', 'C11', 'C12'):
        def basis_memo():
            base = np.zeros((14, 20)); base[3:11, 2:9] = 1
            left, right = base, np.roll(base, 9, axis=1)
            modes = [1, 2, 3, 4, 7]
            ok = True
            seq = [(m_, nz) for nz in (True, False, True) for m_ in (left, right, left[::-1].copy(), right)] + \
                  [(m_, nz) for m_ in (left, right) for nz in (True, False, True, True, False)]
            for m, normalize in seq:
                B = np.asarray(Z.zernike_basis(m, modes, normalize=normalize), float)
                rows = np.array([np.asarray(Z.zernike(m, j, normalize=normalize), float) + np.zeros(m.shape) for j in modes])
                ok = ok and _close(B, rows, 1e-12)
                Bv = np.asarray(Z.zernike_basis(m, modes, True, normalize), float)
                ok = ok and _close(Bv.reshape(B.shape), rows, 1e-12)
            return ok, {}
        add('zernike_basis for translated / flipped masks and both normalisations in a row', basis_memo)

        def coordinates_edited():
            m = np.asarray(lentil.circle((16, 17), 6, antialias=False), float)
            c = [0, 1e-8, -2e-8, 3e-8]
            o0 = np.asarray(Z.zernike_compose(m, c), float)
            f0 = np.asarray(Z.zernike_fit(o0, m, [2, 3, 4]), float)
            rho, theta = Z.zernike_coordinates(m)
            np.divide(rho, 1.25, out=rho)
            np.add(theta, 0.7, out=theta)
            o1 = np.asarray(Z.zernike_compose(m, c), float)
            f1 = np.asarray(Z.zernike_fit(o0, m, [2, 3, 4]), float)
            r1 = np.asarray(Z.zernike_remove(o0, m, [2, 3, 4]), float)
            return (np.array_equal(o0, o1) and np.array_equal(f0, f1) and float(np.abs(r1).max()) <= 1e-12 * float(np.abs(o0).max())), {}
        add('the arrays returned by zernike_coordinates edited in place before the next default-coordinate call', coordinates_edited)

    if prop in ('C11', 'C12'):
        def compose_weighted_mask():
            m = np.asarray(lentil.circle((15, 15), 6, antialias=False), float)
            wts = m * rng.uniform(0.2, 3.0, size=m.shape) * rng.choice([-1, 1], size=m.shape)
            c = [2e-8, 1e-8, -1e-8, 5e-9]
            return _close(Z.zernike_compose(wts, c), Z.zernike_compose(m, c), 1e-12), {}
        add('zernike_compose with a piston term over a weighted / signed mask', compose_weighted_mask)

    if prop in ('C12',):
        def fit_with_zero_samples():
            m = np.asarray(lentil.circle((24, 24), 10, antialias=False), float) != 0
            modes = [1, 2, 3, 4, 5, 6]
            B = np.array([np.asarray(Z.zernike(m.astype(float), j), float) for j in modes])
            c = rng.normal(size=len(modes)) * 1e-8
            opd = np.tensordot(c, B, axes=1) + rng.normal(size=m.shape) * 2e-9 * m
            hole = m & (rng.random(m.shape) < 0.15)
            opd[hole] = 0.0                           # (a dropout filled with zeros: samples like any other)
            res = np.asarray(Z.zernike_remove(opd, m.astype(float), modes), float)
            refit = np.asarray(Z.zernike_fit(res, m.astype(float), modes), float)
            sol = np.linalg.lstsq(B[:, m].T, opd[m], rcond=None)[0]
            ok = float(np.abs(refit).max()) <= 1e-9 * float(np.abs(sol).max()) and _close(np.asarray(Z.zernike_fit(opd, m.astype(float), modes), float), sol, 1e-9)
            res2 = np.asarray(Z.zernike_remove(res, m.astype(float), modes), float)
            return ok and _close(res2, res, 1e-9), {'refit': float(np.abs(refit).max()), 'coeff': float(np.abs(sol).max())}
        add('fit / remove on a map with exact zeros (a zero-filled dropout) inside the mask', fit_with_zero_samples)

        def fit_single_precision_map():
            segs = np.asarray(lentil.hex_segments(rings=2, seg_radius=12, seg_gap=2, flatten=False), float)
            with warnings.catch_warnings():
                warnings.simplefilter('ignore')
                rho, theta = Z.zernike_coordinates(segs.sum(axis=0))
            seg = segs[-1]
            modes = list(range(1, 16))
            B = np.asarray(Z.zernike_basis(seg, modes, rho=rho, theta=theta), float)
            c = rng.normal(size=len(modes)) * 1e-8
            opd32 = (np.tensordot(c, B, axes=1) + rng.normal(size=seg.shape) * 1e-9 * (seg != 0)).astype(np.float32)
            f32 = np.asarray(Z.zernike_fit(opd32, seg, modes, rho=rho, theta=theta), float)
            f64 = np.asarray(Z.zernike_fit(opd32.astype(float), seg, modes, rho=rho, theta=theta), float)
            return _close(f32, f64, 1e-9), {'diff': float(np.abs(f32 - f64).max() / np.abs(f64).max())}
        add('zernike_fit of a single precision map equals the fit of the same numbers as doubles', fit_single_precision_map)

    if prop in ('C13', 'C14', 'C15'):
        def shared_arrays():
            w0 = np.array([500.0, 550.0, 600.0, 700.0]); v0 = np.array([1.0, 2.0, 3.0, 1.5])
            wk, vk = w0.copy(), v0.copy()
            s = R.Spectrum(w0, v0)
            t = R.Spectrum(w0, v0)
            r = s * 2.0
            r.to('um')
            ok = s.waveunit == 'nm' and np.array_equal(np.asarray(s.wave, float), wk) and np.array_equal(np.asarray(s.value, float), vk)
            q = s + 1
            q.to('angstrom')
            ok = ok and np.array_equal(np.asarray(s.wave, float), wk)
            t.to('m')
            ok = ok and np.array_equal(np.asarray(s.wave, float), wk) and np.array_equal(w0, wk) and np.array_equal(v0, vk)
            d = R.Spectrum(w0, v0, valueunit='photlam')
            e = d * 1.0
            e.to('wlam')
            ok = ok and np.array_equal(np.asarray(d.value, float), vk) and np.array_equal(v0, vk)
            return ok, {'s.wave': np.asarray(s.wave, float).tolist(), 'unit': s.waveunit}
        add('a result of scalar arithmetic (or a second spectrum built from the same arrays) converted to another unit', shared_arrays)

        def copies_behave():
            w0 = np.array([500.0, 550.0, 600.0, 700.0]); v0 = np.array([1.0, 2.0, 3.0, 1.5])
            s = R.Spectrum(w0.copy(), v0.copy())
            arr = np.array([2.0, 3.0, 4.0, 5.0])
            ok, bad = True, []
            for label, obj in (('copy()', s.copy()), ('deepcopy', copy.deepcopy(s)), ('pickle', pickle.loads(pickle.dumps(s)))):
                for nm, fn, want in (('arr*s', lambda o: arr * o, arr * v0), ('arr-s', lambda o: arr - o, arr - v0), ('arr/s', lambda o: arr / o, arr / v0),
                                     ('np.float64(2)-s', lambda o: np.float64(2) - o, 2 - v0), ('s-arr', lambda o: o - arr, v0 - arr)):
                    try:
                        res = fn(obj)
                        good = isinstance(res, R.Spectrum) and _close(np.asarray(res.value, float), want) and np.array_equal(np.asarray(res.wave, float), w0)
                    except Exception as e:
                        good = False
                    if not good:
                        ok = False
                        bad.append(f'{label}:{nm}')
            return ok, {'bad': bad[:6]}
        add('copies and unpickled spectra in arithmetic with arrays on either side', copies_behave)

    if prop in ('C14',):
        def blackbody_copy():
            w = np.arange(400.0, 1001.0, 100.0)
            bb = R.Blackbody(w, 5000.0)
            c = bb.copy()
            q = np.array([430.0, 555.0, 777.0])
            ok = isinstance(c, R.Blackbody) and _close(c.sample(q), bb.sample(q), 1e-13)
            # binned in another unit == converted first, then binned (both evaluate Planck's law between the samples)
            cen_um = np.array([0.45, 0.55, 0.65, 0.75])
            a = np.asarray(bb.bin(cen_um, waveunit='um'), float)
            b2 = R.Blackbody(w, 5000.0); b2.to('um')
            b = np.asarray(b2.bin(cen_um, waveunit='um'), float)
            return ok and _close(a, b, 1e-10), {'rel': float(np.abs(a - b).max() / np.abs(b).max())}
        add('a copy of a Blackbody is a Blackbody (binning it in another unit evaluates Planck between the samples)', blackbody_copy)

        def small_integer_grid():
            wu = np.arange(7, 14, dtype=np.uint16)
            v = np.linspace(1.0, 2.0, wu.size)
            a = R.Spectrum(wu.copy(), v.copy(), waveunit='um'); a.to('angstrom')
            b = R.Spectrum(wu.astype(float), v.copy(), waveunit='um'); b.to('angstrom')
            c = R.Spectrum(np.arange(400, 701, 50, dtype=np.int16), np.ones(7), waveunit='nm'); c.to('angstrom')
            return (_close(np.asarray(a.wave, float), np.asarray(b.wave, float)) and _close(np.asarray(c.wave, float), np.arange(4000.0, 7001.0, 500.0))), \
                {'got': np.asarray(a.wave, float).tolist()[:3]}
        add('wavelength grids held in 16-bit integers converted to a smaller unit', small_integer_grid)

    if prop in ('C16',):
        def unsorted_request():
            grid = np.arange(400.0, 801.0, 50.0)
            qev = np.linspace(0.2, 0.9, grid.size) ** 2
            sp = R.Spectrum(grid.copy(), qev.copy())
            ok = True
            for order in ([650.0, 450.0, 550.0], [800.0, 400.0], [500.0, 450.0, 700.0, 600.0]):
                wv = np.array(order)
                cube = rng.uniform(10, 100, size=(wv.size, 4, 6))
                vec = np.interp(wv, grid, qev)
                a = np.asarray(D.collect_charge(cube, wv, sp), float)
                b = np.asarray(D.collect_charge(cube, wv, vec), float)
                ok = ok and _close(a, b, 1e-12)
                a3 = D.collect_charge_bayer(cube, wv, sp, sp, sp, 'RGGB')
                b3 = D.collect_charge_bayer(cube, wv, vec, vec, vec, 'RGGB')
                ok = ok and _close(np.asarray(a3, float), np.asarray(b3, float), 1e-12)
            # the same efficiency object sampled, edited (values replaced), sampled again
            wv = np.array([0.45, 0.55, 0.65])
            cube = rng.uniform(10, 100, size=(3, 4, 6))
            first = np.asarray(D.collect_charge(cube, wv, sp, waveunit='um'), float)
            sp.value = sp.value * 0.5
            second = np.asarray(D.collect_charge(cube, wv, sp, waveunit='um'), float)
            return ok and _close(second, 0.5 * first, 1e-12), {}
        add('a Spectrum efficiency asked for wavelengths on its grid in another order; the same object after its values were replaced', unsorted_request)

    if prop in ('C18', 'C10'):
        def shot_same_frame():
            frame = rng.uniform(1.0, 50.0, size=(12, 12))
            frame[2, 3] = 4e13; frame[7, 7] = 2.5e15
            keep = frame.copy()
            a = np.asarray(D.shot_noise(frame, 'poisson', seed=5), float)
            same = np.array_equal(frame, keep)
            b = np.asarray(D.shot_noise(frame, 'poisson', seed=5), float)
            g1 = np.asarray(D.shot_noise(frame, 'gaussian', seed=5), float)
            g2 = np.asarray(D.shot_noise(frame, 'gaussian', seed=5), float)
            return same and np.array_equal(frame, keep) and np.array_equal(a, b) and np.array_equal(g1, g2) and float(np.median(a)) > 0, {}
        add('shot noise twice on one frame that mixes ordinary and very bright pixels', shot_same_frame)

        def positional_seed():
            img = rng.uniform(0, 50, size=(6, 7))
            ok = np.array_equal(D.read_noise(img, 5.0, 11), D.read_noise(img, 5.0, seed=11))
            ok = ok and np.array_equal(D.shot_noise(img, 'poisson', 3), D.shot_noise(img, method='poisson', seed=3))
            ok = ok and np.array_equal(D.dark_current(40.0, (4, 5), 0.2, 9), D.dark_current(40.0, shape=(4, 5), fpn_factor=0.2, seed=9))
            m = np.asarray(lentil.circle((16, 16), 6, antialias=False), float)
            ok = ok and np.array_equal(lentil.power_spectrum(m, 1e-3, 5e-8, 5.0, 3.0, 4), lentil.power_spectrum(m, 1e-3, 5e-8, 5.0, 3.0, seed=4))
            mean_ = float(np.mean(np.asarray(D.read_noise(np.zeros((200, 200)), 5.0, 2024), float)))
            return ok and abs(mean_) < 0.5, {'mean': mean_}
        add('seeds and model parameters passed by position in the documented order', positional_seed)

    if prop in ('C05', 'C01'):
        def dft2_out_views():
            Fm = lentil.fourier
            f = rng.normal(size=(12, 12)) + 1j * rng.normal(size=(12, 12))
            P = float(np.sum(np.abs(f) ** 2))
            ref = Fm.dft2(f, 1 / 24, shape=24)
            frame = np.zeros((40, 40), complex)
            view = frame[8:32, 8:32]
            r1 = Fm.dft2(f, 1 / 24, shape=24, out=view)
            buf = np.zeros((24, 36), complex, order='F')
            r2 = Fm.dft2(f, (1 / 24, 1 / 36), shape=(24, 36), out=buf)
            ok = _close(view, ref, 1e-13) and _close(r1, ref, 1e-13) and abs(float(np.sum(np.abs(frame) ** 2)) - P) <= 1e-10 * P
            ok = ok and abs(float(np.sum(np.abs(buf) ** 2)) - P) <= 1e-10 * P and _close(r2, buf, 1e-15)
            g = Fm.idft2(ref, 1 / 24, shape=12, out=np.zeros((20, 20), complex)[3:15, 3:15])
            return ok and _close(g, f, 1e-12), {}
        add('dft2 / idft2 into strided views and Fortran-ordered buffers keep the power (unitary)', dft2_out_views)

    if prop in ('C05',):
        def power_of_subclasses():
            a = rng.normal(size=(6, 6))
            worst = 0.0
            for obj in (np.matrix(a), np.ma.masked_array(a, mask=(a < -0.5)), a.view(np.ndarray)):
                res = np.asarray(np.ma.getdata(U.normalize_power(obj, 2.0)), float)
                worst = max(worst, abs(float(np.sum(np.abs(res) ** 2)) - 2.0))
            return worst <= 1e-12, {'worst': worst}
        add('normalize_power of ndarray sub-classes (np.matrix, masked arrays)', power_of_subclasses)

        def scratch_two_wavelengths():
            n = 12
            amp = np.asarray(lentil.circle((n, n), 5, antialias=False), float)
            pupil = lentil.Pupil(amplitude=amp, pixelscale=1e-3, focal_length=3.0)
            du = 6e-7 * 3.0 / (1e-3 * 30)
            scratch = np.zeros((64, 64), complex)
            ok = True
            for wl in (9e-7, 6e-7, 7.5e-7, 6e-7):
                w = lentil.Wavefront(wl) * pupil
                P = float(np.sum(np.abs(w.field) ** 2))
                I = lentil.propagate_fft(w, du, oversample=1, scratch=scratch).intensity
                ok = ok and abs(float(I.sum()) - P) <= 1e-10 * P
            return ok, {}
        add('one scratch buffer for several wavelengths: every full-period image keeps the input power', scratch_two_wavelengths)

    if prop in ('C20',):
        def negative_slices():
            H = lentil.helper
            shape = (64, 48)
            bad = []
            for a_, b_ in ((np.s_[-24:-8, 10:30], np.s_[40:56, 10:30]), (np.s_[5:-5, -20:], np.s_[5:59, 28:48]), (np.s_[-64:10, :-1], np.s_[0:10, 0:47])):
                g, w_ = tuple(int(v) for v in H.slice_offset(a_, shape)), tuple(int(v) for v in H.slice_offset(b_, shape))
                if g != w_:
                    bad.append([str(a_), list(g), list(w_)])
            return not bad, {'bad': bad}
        add('slice_offset of slices written with negative indices', negative_slices)

        def drop_list_reused():
            drop = [1, 3, 8, 15]
            a = np.asarray(lentil.hex_segments(2, 5, 1, drop=drop)).shape[0]
            b = np.asarray(lentil.hex_segments(2, 5, 1, drop=drop)).shape[0]
            small = np.ones((8, 8), dtype=np.uint16) * 60000
            rb = np.asarray(U.rebin(small, 4), float)
            bools = np.ones((8, 8), dtype=bool)
            return (a == b == 19 - 4 and drop == [1, 3, 8, 15] and np.array_equal(rb, np.full((2, 2), 960000.0))
                    and float(np.asarray(U.rebin(bools, 4), float).sum()) == 64.0), {'a': a, 'b': b}
        add('one drop list used for two hex_segments calls; 2-D frames of 16-bit counts and booleans rebinned', drop_list_reused)
    return out


def run(ctx, lentil, prop, oracle):
    if ctx.shard != 0:
        return
    rng = np.random.default_rng([ctx.seed, 91, int(prop[1:])])
    for name, fn in scenarios(prop, lentil, rng):
        ctx.case({'reuse': name}, ['reuse'])
        try:
            with warnings.catch_warnings():
                warnings.simplefilter('ignore')
                with np.errstate(all='ignore'):
                    ok, detail = fn()
            ctx.check(bool(ok), oracle, f'reuse|{name[:80]}', 'an object used a second time, a copy of an object, or a result that shares arrays with its '
                      'operand does not behave like a fresh object / leaves what it was handed changed: ' + name, dict(detail, scenario=name))
        except Exception as e:
            ctx.check(False, oracle, f'reuse|{name[:60]}|raises={type(e).__name__}', str(e)[:300], {'scenario': name})
