"""Documented default arguments: a call that leaves an argument out is the call that passes the documented default.

Every workload passes most arguments explicitly (it has to, to steer them), so a changed default - `oversample=2`, `weight=1`,
`normalize=True`, `interp_method='simps'`, `fill_value=0`, `threshold=0` ... - would go unnoticed although every user who relies on
it is affected.  For each property the table below lists pairs (call with the argument left out, the same call with the value the
documentation states); `run` evaluates them on small random inputs and requires the two results to be identical.  The values on
the right-hand side are copied from the docstrings / user guide of the pinned commit, not read from the code.
"""
import warnings

import numpy as np

from vp import probe


def _eq(a, b):
    if isinstance(a, (tuple, list)) or isinstance(b, (tuple, list)):
        if not (isinstance(a, (tuple, list)) and isinstance(b, (tuple, list))):
            try:
                a, b = list(a), list(b)
            except TypeError:
                return False
        return len(a) == len(b) and all(_eq(x, y) for x, y in zip(a, b))
    if a is None or b is None or isinstance(a, (str, bool, slice)) or isinstance(b, (str, bool, slice)):
        return type(a) is type(b) and a == b if not isinstance(a, bool) else a == b
    a, b = np.asarray(a), np.asarray(b)
    if a.dtype.kind in 'OUS' or b.dtype.kind in 'OUS':
        return a.shape == b.shape and bool(np.all(a == b))
    return a.shape == b.shape and bool(np.array_equal(a, b, equal_nan=True))


def _wf(lentil, n=12, seg=False):
    amp = np.asarray(lentil.circle((n, n), n / 2 - 1.5), float)
    r, c = np.indices((n, n))
    opd = 3e-8 * (r - n // 2) / n + 1e-8 * ((c - n // 2) / n) ** 2
    return lentil.Wavefront(6e-7) * lentil.Pupil(amplitude=amp, opd=opd * (amp > 0), pixelscale=1e-3, focal_length=4.0)


def _spec(R, rng, n=21, **kw):
    w = 400.0 + 10.0 * np.arange(n)
    return R.Spectrum(w, rng.uniform(0.5, 2.0, size=n), **kw)


def table(prop, lentil, rng):
    """-> list of (name, omitted, explicit): two thunks that must return the same thing."""
    R = lentil.radiometry
    D = lentil.detector
    U = lentil.util
    F = lentil.fourier
    Z = __import__('sys').modules['lentil.zernike']
    du = 6e-7 * 4.0 / (1e-3 * 40)
    out = []
    add = lambda name, a, b: out.append((name, a, b))
    if prop in ('C01', 'C05'):
        f = rng.normal(size=(6, 7)) + 1j * rng.normal(size=(6, 7))
        al = (1 / 9, 1 / 11)
        add('dft2(shape, shift, offset, unitary, out)', lambda: F.dft2(f, al), lambda: F.dft2(f, al, shape=None, shift=(0, 0), offset=(0, 0), unitary=True, out=None))
        add('dft2(shape=None is the input shape)', lambda: F.dft2(f, al), lambda: F.dft2(f, al, shape=(6, 7)))
        add('idft2(shape, shift, unitary, out)', lambda: F.idft2(f, al), lambda: F.idft2(f, al, shape=None, shift=(0, 0), unitary=True, out=None))
    if prop in ('C02', 'C05', 'C03', 'C04', 'C07'):
        w = _wf(lentil)
        add('propagate_dft(shape, prop_shape, oversample, mask)', lambda: lentil.propagate_dft(w, du).field,
            lambda: lentil.propagate_dft(w, du, shape=None, prop_shape=None, oversample=2, mask=None).field)
        add('propagate_dft(shape=None is the wavefront shape)', lambda: lentil.propagate_dft(w, du, oversample=1).field,
            lambda: lentil.propagate_dft(w, du, shape=(12, 12), oversample=1).field)
        add('propagate_dft(prop_shape=None is shape)', lambda: lentil.propagate_dft(w, du, shape=(8, 10)).field,
            lambda: lentil.propagate_dft(w, du, shape=(8, 10), prop_shape=(8, 10)).field)
        o = lentil.propagate_dft(w, du, shape=(8, 8), oversample=1)
        add('Wavefront.insert(weight)', lambda: o.insert(np.zeros((8, 8))), lambda: o.insert(np.zeros((8, 8)), weight=1))
        add('Wavefront.insert == intensity', lambda: o.insert(np.zeros((8, 8))), lambda: o.intensity)
        add('Wavefront(pixelscale, diameter, focal_length, tilt, ptype)', lambda: (lentil.Wavefront(6e-7).focal_length, str(lentil.Wavefront(6e-7).ptype), lentil.Wavefront(6e-7).pixelscale),
            lambda: (np.inf, 'none', None))
    if prop in ('C09', 'C05', 'C02'):
        w = _wf(lentil)
        add('propagate_fft(shape, oversample, scratch)', lambda: lentil.propagate_fft(w, du).field,
            lambda: lentil.propagate_fft(w, du, shape=None, oversample=2, scratch=None).field)
    if prop in ('C06', 'C03', 'C07'):
        Fm = lentil.field
        fa = Fm.Field(rng.normal(size=(3, 4)) + 0j, offset=[1, -1])
        add('Field(pixelscale, offset, tilt)', lambda: (list(Fm.Field(np.ones((2, 2))).offset), Fm.Field(np.ones((2, 2))).pixelscale, list(Fm.Field(np.ones((2, 2))).tilt)),
            lambda: ([0, 0], None, []))
        add('field.insert(intensity, weight)', lambda: Fm.insert(fa, np.zeros((6, 6), complex)), lambda: Fm.insert(fa, np.zeros((6, 6), complex), intensity=False, weight=1))
        add('field.insert(intensity=True, weight)', lambda: Fm.insert(fa, np.zeros((6, 6)), intensity=True), lambda: Fm.insert(fa, np.zeros((6, 6)), intensity=True, weight=1))
    if prop in ('C07', 'C08', 'C03', 'C17'):
        add('Plane(amplitude, opd, mask, pixelscale)', lambda: (float(lentil.Plane().amplitude), float(lentil.Plane().opd), lentil.Plane().pixelscale, str(lentil.Plane().ptype)),
            lambda: (1.0, 0.0, None, 'none'))
        add('Pupil() / Image() defaults', lambda: (float(lentil.Pupil().amplitude), float(lentil.Pupil().opd), lentil.Pupil().focal_length, str(lentil.Pupil().ptype), str(lentil.Image().ptype),
                                                   float(lentil.Image().amplitude), float(lentil.Image().opd), lentil.Image().pixelscale, lentil.Pupil().pixelscale),
            lambda: (1.0, 0.0, None, 'pupil', 'image', 1.0, 0.0, None, None))
        add('a default plane changes nothing', lambda: [complex((lentil.Wavefront(6e-7) * pl).data[0].data) for pl in (lentil.Plane(), lentil.Pupil(focal_length=2.0))]
            + [complex((lentil.Wavefront(6e-7, focal_length=2.0, ptype=lentil.image) * lentil.Image()).data[0].data)], lambda: [1 + 0j, 1 + 0j, 1 + 0j])
        tl = lentil.Tilt(x=2e-6, y=-3e-6)
        add('Tilt.shift(xs, ys)', lambda: tl.shift(z=5.0), lambda: tl.shift(xs=0, ys=0, z=5.0))
    if prop in ('C04', 'C10', 'C03'):
        n = 10
        amp = np.ones((n, n))
        r, c = np.indices((n, n))
        opd = 2e-7 * (r - n // 2) * 1e-3 - 1e-7 * (c - n // 2) * 1e-3
        mk = lambda: lentil.Pupil(amplitude=amp, opd=opd.copy(), pixelscale=1e-3, focal_length=3.0)
        def fit_default():
            p = mk()
            q = p.fit_tilt()
            return (q is p, np.asarray(p.opd), np.asarray(q.opd))
        def fit_explicit():
            p = mk()
            q = p.fit_tilt(inplace=False)
            return (q is p, np.asarray(p.opd), np.asarray(q.opd))
        add('fit_tilt(inplace)', fit_default, fit_explicit)
    if prop in ('C11', 'C12'):
        m = np.asarray(lentil.circle((14, 15), 6), float)
        add('zernike(normalize, rho, theta)', lambda: Z.zernike(m, 5), lambda: Z.zernike(m, 5, normalize=True, rho=None, theta=None))
        add('zernike_basis(vectorize, normalize)', lambda: Z.zernike_basis(m, [2, 4, 7]), lambda: Z.zernike_basis(m, [2, 4, 7], vectorize=False, normalize=True, rho=None, theta=None))
        add('zernike_compose(normalize)', lambda: Z.zernike_compose(m, [0, 1e-8, 2e-8, -1e-8]), lambda: Z.zernike_compose(m, [0, 1e-8, 2e-8, -1e-8], normalize=True, rho=None, theta=None))
        opd = Z.zernike_compose(m, [0, 1e-8, 2e-8, -1e-8])
        add('zernike_fit(normalize)', lambda: Z.zernike_fit(opd, m, [2, 3, 4]), lambda: Z.zernike_fit(opd, m, [2, 3, 4], normalize=True, rho=None, theta=None))
        add('zernike_coordinates(shift, rotate)', lambda: Z.zernike_coordinates(m), lambda: Z.zernike_coordinates(m, shift=None, rotate=0))
    if prop in ('C13', 'C14', 'C15'):
        s1, s2 = _spec(R, rng), _spec(R, rng, n=15)
        for opn in ('add', 'subtract', 'multiply', 'divide', 'power'):
            add(f'Spectrum.{opn}(sampling, method, fill_value)', lambda opn=opn: (getattr(s1, opn)(s2).wave, getattr(s1, opn)(s2).value),
                lambda opn=opn: (getattr(s1, opn)(s2, sampling='min', method='linear', fill_value=0).wave,
                                 getattr(s1, opn)(s2, sampling='min', method='linear', fill_value=0).value))
        add('Spectrum(waveunit, valueunit)', lambda: (s1.waveunit, s1.valueunit), lambda: ('nm', None))
        q = np.array([395.0, 405.0, 512.3, 600.0, 650.0])
        add('Spectrum.sample(method, fill_value, waveunit)', lambda: s1.sample(q), lambda: s1.sample(q, method='linear', fill_value=0, waveunit='nm'))
        c = np.arange(420.0, 580.0, 20.0)
        add('Spectrum.bin(interp_method, ends, preserve_power, sample_method, fill_value, waveunit)', lambda: s1.bin(c),
            lambda: s1.bin(c, interp_method='simps', ends='symmetric', preserve_power=True, sample_method='linear', fill_value=0, waveunit='nm'))
        add('Spectrum.integrate(start, end, method)', lambda: s1.integrate(), lambda: s1.integrate(start=None, end=None, method='simps'))
        add('Spectrum.integrate(start=None, end=None are the ends of the data)', lambda: s1.integrate(method='trapz'), lambda: s1.integrate(400.0, 600.0, method='trapz'))
        cw = np.arange(360.0, 660.0, 20.0)        # (reaches beyond the data on both sides: the fill value matters)
        def resample_default():
            t = s1.copy(); t.resample(cw); return (t.wave, t.value, t.waveunit)
        def resample_explicit():
            t = s1.copy(); t.resample(cw, method='linear', fill_value=0, waveunit='nm'); return (t.wave, t.value, t.waveunit)
        add('Spectrum.bin(fill_value) beyond the data', lambda: s1.bin(cw, preserve_power=False), lambda: s1.bin(cw, preserve_power=False, fill_value=0))
        add('Spectrum.resample(method, fill_value, waveunit)', resample_default, resample_explicit)
        v = s1.value.copy(); v[:3] = 0; v[3] = 5e-5 * v.max(); v[-2:] = 0
        def trim_default():
            t = R.Spectrum(s1.wave.copy(), v.copy()); t.trim(); return (t.wave, t.value)
        def trim_explicit():
            t = R.Spectrum(s1.wave.copy(), v.copy()); t.trim(tol=1e-4); return (t.wave, t.value)
        add('Spectrum.trim(tol)', trim_default, trim_explicit)
        def pad_default():
            t = s1.copy(); t.pad((350.0, 660.0)); return (t.wave, t.value)
        def pad_explicit():
            t = s1.copy(); t.pad((350.0, 660.0), sampling='min', mode='constant', values=0); return (t.wave, t.value)
        def pad_explicit2():
            t = s1.copy(); t.pad((350.0, 660.0), values=(0, 0)); return (t.wave, t.value)
        add('Spectrum.pad(sampling, mode, values)', pad_default, pad_explicit)
        add('Spectrum.pad(values=0 is (0, 0))', pad_default, pad_explicit2)
        add('Spectrum.ends(tol)', lambda: R.Spectrum(s1.wave.copy(), v.copy()).ends(), lambda: R.Spectrum(s1.wave.copy(), v.copy()).ends(tol=1e-4))
        add('planck_radiance(waveunit, valueunit)', lambda: R.planck_radiance(q, 5000.0), lambda: R.planck_radiance(q, 5000.0, waveunit='nm', valueunit='wlam'))
        add('planck_exitance(waveunit, valueunit)', lambda: R.planck_exitance(q, 5000.0), lambda: R.planck_exitance(q, 5000.0, waveunit='nm', valueunit='wlam'))
        add('vegaflux(waveunit, valueunit)', lambda: R.vegaflux('V'), lambda: R.vegaflux('V', waveunit='nm', valueunit='photlam'))
        add('Blackbody(waveunit, valueunit)', lambda: (R.Blackbody(q, 5000.0).value, R.Blackbody(q, 5000.0).waveunit, R.Blackbody(q, 5000.0).valueunit),
            lambda: (R.Blackbody(q, 5000.0, waveunit='nm', valueunit='photlam').value, 'nm', 'photlam'))
    if prop in ('C16',):
        cube = rng.uniform(0, 100, size=(3, 6, 6))
        wv = np.array([450.0, 550.0, 650.0])
        qe = np.array([0.3, 0.6, 0.4])
        add('collect_charge(waveunit)', lambda: D.collect_charge(cube, wv, qe), lambda: D.collect_charge(cube, wv, qe, waveunit='nm'))
        add('collect_charge_bayer(oversample, waveunit)', lambda: D.collect_charge_bayer(cube, wv, qe, qe * 0.5, qe * 0.2, 'RGGB'),
            lambda: D.collect_charge_bayer(cube, wv, qe, qe * 0.5, qe * 0.2, 'RGGB', oversample=1, waveunit='nm'))
        e = rng.uniform(0, 5000, size=(5, 5))
        add('adc(saturation_capacity, warn_saturate, dtype)', lambda: D.adc(e, 0.7), lambda: D.adc(e, 0.7, saturation_capacity=None, warn_saturate=False, dtype=None))
    if prop in ('C18',):
        img = rng.uniform(0, 50, size=(9, 9))
        add('shot_noise(method)', lambda: D.shot_noise(img, seed=3), lambda: D.shot_noise(img, method='poisson', seed=3))
        add('dark_current(shape, fpn_factor)', lambda: D.dark_current(7.5), lambda: D.dark_current(7.5, shape=1, fpn_factor=0, seed=None))
        add('dark_current(fpn_factor=0 means no pattern)', lambda: D.dark_current(7.5, (4, 5)), lambda: np.full((4, 5), 7.0))
    if prop in ('C19',):
        img = rng.uniform(0, 5, size=(8, 9)) + 1.0
        add('pixel(oversample)', lambda: D.pixel(img), lambda: D.pixel(img, oversample=1))
        add('jitter(pixelscale, oversample)', lambda: lentil.jitter(img, 1.3), lambda: lentil.jitter(img, 1.3, pixelscale=1, oversample=1))
        add('smear(pixelscale, oversample)', lambda: lentil.smear(img, 2.2, angle=30.0), lambda: lentil.smear(img, 2.2, angle=30.0, pixelscale=1, oversample=1))
    if prop in ('C20', 'C17'):
        a = rng.normal(size=(7, 8))
        add('subarray(shift)', lambda: U.subarray(a, (3, 4)), lambda: U.subarray(a, (3, 4), shift=(0, 0)))
        add('boundary(threshold)', lambda: U.boundary(a), lambda: U.boundary(a, threshold=0))
        add('boundary_slice(threshold, pad)', lambda: lentil.helper.boundary_slice(np.abs(a)), lambda: lentil.helper.boundary_slice(np.abs(a), threshold=0, pad=(0, 0)))
        add('mesh(shift, angle)', lambda: lentil.helper.mesh((5, 6)), lambda: lentil.helper.mesh((5, 6), shift=(0, 0), angle=0))
        add('circle(shift, antialias)', lambda: lentil.circle((9, 10), 3.3), lambda: lentil.circle((9, 10), 3.3, shift=(0, 0), antialias=True))
        add('hexagon(shift, rotate, antialias)', lambda: lentil.hexagon((11, 12), 4.2), lambda: lentil.hexagon((11, 12), 4.2, shift=(0, 0), rotate=False, antialias=True))
        add('rectangle(shift, angle, antialias)', lambda: lentil.rectangle((11, 12), 5, 3), lambda: lentil.rectangle((11, 12), 5, 3, shift=(0, 0), angle=0, antialias=True))
        add('spider(angle, shift, antialias)', lambda: lentil.spider((11, 12), 2), lambda: lentil.spider((11, 12), 2, angle=0, shift=(0, 0), antialias=True))
        add('hex_segments(rotate, antialias, flatten, pad, drop)', lambda: lentil.hex_segments(1, 5, 1), lambda: lentil.hex_segments(1, 5, 1, rotate=False, antialias=True, flatten=False, pad=2, drop=(0,)))
        img = np.asarray(lentil.circle((12, 12), 4), float)
        add('util.rescale(shape, mask, order, mode, unitary)', lambda: U.rescale(img, 1.5), lambda: U.rescale(img, 1.5, shape=None, mask=None, order=3, mode='nearest', unitary=True))
        add('normalize_power(power)', lambda: U.normalize_power(img), lambda: U.normalize_power(img, power=1))
    if prop in ('C05',):
        img = np.asarray(lentil.circle((12, 12), 4), float)
        add('normalize_power(power)', lambda: U.normalize_power(img), lambda: U.normalize_power(img, power=1))
    return out


def run(ctx, lentil, prop, oracle):
    """Evaluate the table of `prop` once per shard 0 (the inputs are tiny)."""
    if ctx.shard != 0:
        return
    rng = np.random.default_rng([ctx.seed, 77, int(prop[1:])])
    for name, omitted, explicit in table(prop, lentil, rng):
        ctx.case({'defaults': name}, ['defaults'])
        try:
            with warnings.catch_warnings():
                warnings.simplefilter('ignore')
                with np.errstate(all='ignore'):
                    a = omitted()
                    b = explicit()
            ctx.check(_eq(a, b), oracle, f'defaults|{name}',
                      'a call that leaves arguments out does not give what the same call with the documented default values gives', {'call': name})
        except Exception as e:
            ctx.check(False, oracle, f'defaults|{name}|raises={type(e).__name__}', str(e)[:300], {'call': name})
