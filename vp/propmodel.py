"""Shared online oracle for lentil.propagate.propagate_dft (used by C02, C03, C05, C09):
independent Fraunhofer model of the propagated field on the full output array."""
import numpy as np

from vp import refmodels as rm


def bind_dft(args, kwargs):
    names = ['wavefront', 'pixelscale', 'shape', 'prop_shape', 'oversample', 'mask']
    d = {'shape': None, 'prop_shape': None, 'oversample': 2, 'mask': None}
    d.update(dict(zip(names, args)))
    d.update(kwargs)
    return d


def window_1d(S, P, lo=None, hi=None):
    """Evaluated output coordinates on one axis: intersection of the output range (full array of S
    samples, or the mask bounding range lo..hi in array indices) with the centred window of P samples.
    Returned as (first coordinate, last coordinate) relative to the origin sample floor(S/2)."""
    o_lo = -(S // 2) if lo is None else lo - S // 2
    o_hi = -(S // 2) + S - 1 if hi is None else hi - S // 2
    p_lo = -(P // 2)
    p_hi = p_lo + P - 1
    return max(o_lo, p_lo), min(o_hi, p_hi)


def expected_dft(w, a, sample_limit=3e6, rng=None):
    """Model of propagate_dft for tilt-free wavefronts.
    Returns dict(shape, window=(r0,r1,c0,c1) in array indices or None, alpha, ref, pts, tol) or a string
    (reason for skipping)."""
    if any(getattr(f, 'tilt', None) for f in w.data):
        return 'tilted field (C04)'
    fields = [(f.data, f.offset) for f in w.data if f.data.size > 0]
    if not fields or any(np.ndim(d) != 2 for d, _ in fields):
        return 'shapeless (constant) input field'
    os_ = a['oversample']
    if os_ != int(os_) or os_ < 1:
        return 'non-integer oversample'
    os_ = int(os_)
    try:
        shape = tuple(int(x) for x in (np.asarray(w.shape) if a['shape'] is None
                                       else np.broadcast_to(a['shape'], (2,))))
        pshape = shape if a['prop_shape'] is None else tuple(int(x) for x in np.broadcast_to(a['prop_shape'], (2,)))
    except Exception:
        return 'bad shape'
    if len(shape) != 2 or min(shape) < 1 or min(pshape) < 1:
        return 'bad shape'
    if pshape[0] > shape[0] or pshape[1] > shape[1]:
        return 'prop_shape larger than shape'
    S = (shape[0] * os_, shape[1] * os_)
    P = (pshape[0] * os_, pshape[1] * os_)
    lo = hi = (None, None)
    if a['mask'] is not None:
        m = np.asarray(a['mask'])
        if m.shape != S:
            return 'mask shape mismatch'
        idx = np.argwhere(m > 0)
        if len(idx) == 0:
            return 'empty mask'
        lo = (idx[:, 0].min(), idx[:, 1].min())
        hi = (idx[:, 0].max(), idx[:, 1].max())
    u0, u1 = window_1d(S[0], P[0], lo[0], hi[0])
    v0, v1 = window_1d(S[1], P[1], lo[1], hi[1])
    dx = np.broadcast_to(np.asarray(w.pixelscale, dtype=float), (2,))
    du = np.broadcast_to(np.asarray(a['pixelscale'], dtype=float), (2,))
    z = float(w.focal_length)
    wl = float(w.wavelength)
    ar = dx[0] * du[0] / (wl * z * os_)
    ac = dx[1] * du[1] / (wl * z * os_)
    out = {'S': S, 'alpha': (ar, ac), 'os': os_, 'du': du, 'fields': fields}
    if u1 < u0 or v1 < v0:
        out['window'] = None
        return out
    r0, r1 = u0 + S[0] // 2, u1 + S[0] // 2
    c0, c1 = v0 + S[1] // 2, v1 + S[1] // 2
    out['window'] = (r0, r1, c0, c1)
    nin = sum(d.size for d, _ in fields)
    nwin = (u1 - u0 + 1) * (v1 - v0 + 1)
    out['tol'] = rm.fraunhofer_tol(fields, ar, ac, max(abs(u0), abs(u1)), max(abs(v0), abs(v1)))
    if nin * nwin <= sample_limit:
        out['ref'] = rm.fraunhofer(fields, ar, ac, np.arange(u0, u1 + 1), np.arange(v0, v1 + 1))
        out['pts'] = None
    else:
        g = np.random.default_rng([S[0], S[1], nin])
        k = 40
        us = np.concatenate([[u0, u1, u0, u1, (u0 + u1) // 2], g.integers(u0, u1 + 1, k)])
        vs = np.concatenate([[v0, v1, v1, v0, (v0 + v1) // 2], g.integers(v0, v1 + 1, k)])
        out['ref'] = rm.fraunhofer(fields, ar, ac, us, vs, points=True)
        out['pts'] = (us + S[0] // 2, vs + S[1] // 2)
    return out


def check_dft(ctx, prefix, w, a, result, exc, oracle='dft=fraunhofer'):
    """Compare a propagate_dft result with the model.  Returns True if evaluated."""
    from vp import probe
    wit = {'in_fields': [[list(f.data.shape), [int(x) for x in f.offset]] for f in w.data][:8],
           'pixelscale': np.asarray(a['pixelscale']).tolist(), 'shape': None if a['shape'] is None else np.asarray(a['shape']).tolist(),
           'prop_shape': None if a['prop_shape'] is None else np.asarray(a['prop_shape']).tolist(),
           'oversample': a['oversample'], 'mask': a['mask'] is not None,
           'dx': None if w.pixelscale is None else np.asarray(w.pixelscale).tolist(),
           'wl': w.wavelength, 'z': w.focal_length, 'ptype': str(w.ptype)}
    if exc is not None:
        if isinstance(exc, TypeError) and str(w.ptype) == 'none':
            ctx.skip('propagate_dft: refused type-none wavefront (C08)')
            return False
        m = expected_dft(w, a) if w.pixelscale is not None else 'no pixelscale'
        if isinstance(m, str):
            ctx.skip(f'propagate_dft raised outside the domain: {m}')
            return False
        ctx.check(False, oracle, f'{prefix}|raises={type(exc).__name__}',
                  f'propagate_dft raised {type(exc).__name__}: {exc}', wit)
        return True
    if w.pixelscale is None or not np.isfinite(w.focal_length):
        ctx.skip('propagate_dft: no pixelscale / infinite focal length')
        return False
    m = expected_dft(w, a)
    if isinstance(m, str):
        ctx.skip('propagate_dft: ' + m)
        return False
    S = m['S']
    # metadata
    ps = result.pixelscale
    ok_meta = (result.wavelength == w.wavelength and result.focal_length == w.focal_length and ps is not None
               and np.allclose(np.asarray(ps, float), m['du'] / m['os'], rtol=1e-15, atol=0)
               and tuple(int(x) for x in result.shape) == S
               and str(result.ptype) == {'pupil': 'image', 'image': 'pupil'}.get(str(w.ptype)))
    ctx.check(ok_meta, oracle + ':meta', f'{prefix}|meta',
              'propagated wavefront does not carry the input wavelength/focal length, du/oversample, shape*oversample '
              'and the flipped plane type', dict(wit, got={'wl': result.wavelength, 'z': result.focal_length,
                                                            'ps': None if ps is None else np.asarray(ps).tolist(),
                                                            'shape': [int(x) for x in result.shape],
                                                            'ptype': str(result.ptype)}))
    if tuple(int(x) for x in result.shape) != S:
        return True
    with probe.quiet():
        try:
            got = result.field
        except Exception as e:
            ctx.check(False, oracle, f'{prefix}|field-raises={type(e).__name__}',
                      f'field of the propagated wavefront raised {type(e).__name__}: {e}', wit)
            return True
    win = m['window']
    inside = np.zeros(S, bool)
    if win is not None:
        r0, r1, c0, c1 = win
        inside[r0:r1 + 1, c0:c1 + 1] = True
        if m['pts'] is None:
            g = got[r0:r1 + 1, c0:c1 + 1]
        else:
            g = got[m['pts'][0], m['pts'][1]]
        ctx.close(oracle, g, m['ref'], 1.0, f'{prefix}|value',
                  'propagated field differs from the unitary Fraunhofer sum on the evaluated window',
                  dict(wit, window=[int(x) for x in win], alpha=list(m['alpha'])), scale=m['tol'])
    ctx.check(bool(np.all(got[~inside] == 0)), oracle + ':outside=0', f'{prefix}|outside-window',
              'propagated field is not exactly zero outside the evaluated window',
              dict(wit, window=None if win is None else [int(x) for x in win],
                   nonzero=int(np.count_nonzero(got[~inside]))))
    return True


# ---------------------------------------------------------------------------------------------------------
# propagate_fft: the same Fraunhofer model on the FFT's own grid (alpha = 1/G per axis, G = round(1/alpha))

def bind_fft(args, kwargs):
    names = ['wavefront', 'pixelscale', 'shape', 'oversample', 'scratch']
    d = {'shape': None, 'oversample': 2, 'scratch': None}
    d.update(dict(zip(names, args)))
    d.update(kwargs)
    return d


def expected_fft(w, a, sample_limit=3e6):
    """Model of propagate_fft for tilt-free wavefronts: dict(S, G, wl, du, ref, pts, tol) or a reason for skipping."""
    if w.pixelscale is None or not np.isfinite(w.focal_length):
        return 'no pixelscale / infinite focal length'
    if any(getattr(f, 'tilt', None) for f in w.data):
        return 'tilted field'
    fields = [(f.data, f.offset) for f in w.data if f.data.size > 0]
    if not fields or any(np.ndim(d) != 2 for d, _ in fields):
        return 'shapeless (constant) input field'
    os_ = a['oversample']
    try:
        if os_ != int(os_) or os_ < 1:
            return 'non-integer oversample'
    except Exception:
        return 'non-integer oversample'
    os_ = int(os_)
    dx = np.broadcast_to(np.asarray(w.pixelscale, dtype=float), (2,))
    du = np.broadcast_to(np.asarray(a['pixelscale'], dtype=float), (2,))
    z, wl = float(w.focal_length), float(w.wavelength)
    inv = [wl * z * os_ / (dx[k] * du[k]) for k in (0, 1)]
    if any(abs((v % 1.0) - 0.5) < 1e-6 for v in inv):
        return 'tie: 1/alpha within 1e-6 of a half-integer'
    G = tuple(int(np.floor(v + 0.5)) for v in inv)
    if min(G) < 1:
        return 'empty grid'
    lo_r, hi_r, lo_c, hi_c = rm.bbox_of([(d.shape, o) for d, o in fields])
    if lo_r < -(G[0] // 2) or hi_r > -(G[0] // 2) + G[0] - 1 or lo_c < -(G[1] // 2) or hi_c > -(G[1] // 2) + G[1] - 1:
        return 'input field larger than the FFT grid'
    # the wavefront's own array must fit as well (the unpadded path pads wavefront.field)
    ws = tuple(int(x) for x in w.shape) if w.shape is not None and len(tuple(w.shape)) == 2 else None
    if ws is not None and (ws[0] > G[0] or ws[1] > G[1]):
        return 'wavefront array larger than the FFT grid'
    if a['shape'] is None:
        S = G
    else:
        try:
            sh = tuple(int(x) for x in np.broadcast_to(a['shape'], (2,)))
        except Exception:
            return 'bad shape'
        if sh[0] * os_ > G[0] or sh[1] * os_ > G[1] or min(sh) < 1:
            return 'shape larger than the grid'
        S = (sh[0] * os_, sh[1] * os_)
    wl_exp = min(G[k] / os_ * dx[k] * du[k] / z for k in (0, 1))
    ar, ac = 1.0 / G[0], 1.0 / G[1]
    u0, u1 = -(S[0] // 2), -(S[0] // 2) + S[0] - 1
    v0, v1 = -(S[1] // 2), -(S[1] // 2) + S[1] - 1
    out = {'S': S, 'G': G, 'wl': wl_exp, 'du': du / os_, 'os': os_}
    out['tol'] = 8 * rm.fraunhofer_tol(fields, ar, ac, max(abs(u0), abs(u1)), max(abs(v0), abs(v1)))
    nin = sum(d.size for d, _ in fields)
    if nin * S[0] * S[1] <= sample_limit:
        out['ref'] = rm.fraunhofer(fields, ar, ac, np.arange(u0, u1 + 1), np.arange(v0, v1 + 1))
        out['pts'] = None
    else:
        g = np.random.default_rng([S[0], S[1], nin, 7])
        k = 40
        us = np.concatenate([[u0, u1, u0, u1, 0], g.integers(u0, u1 + 1, k)])
        vs = np.concatenate([[v0, v1, v1, v0, 0], g.integers(v0, v1 + 1, k)])
        out['ref'] = rm.fraunhofer(fields, ar, ac, us, vs, points=True)
        out['pts'] = (us + S[0] // 2, vs + S[1] // 2)
    return out


def check_fft(ctx, prefix, a, result, exc, oracle='fft=fraunhofer'):
    """Online oracle for one propagate_fft call: grid shape, reported wavelength and every output sample (or a sample of
    them on large grids) against the Fraunhofer sum on the FFT grid.  Returns True if evaluated."""
    from vp import probe
    w = a['wavefront']
    if exc is not None:
        ctx.skip(f'propagate_fft raised {type(exc).__name__} (refusals are decided by C09)')
        return False
    m = expected_fft(w, a)
    if isinstance(m, str):
        ctx.skip('propagate_fft: ' + m)
        return False
    sc = a.get('scratch')
    wit = {'in_fields': [[list(f.data.shape), [int(x) for x in f.offset]] for f in w.data][:8],
           'pixelscale': np.asarray(a['pixelscale']).tolist(), 'shape': None if a['shape'] is None else np.asarray(a['shape']).tolist(),
           'oversample': a['oversample'], 'scratch': None if sc is None else list(np.shape(sc)),
           'dx': np.asarray(w.pixelscale).tolist(), 'wl': w.wavelength, 'z': w.focal_length, 'grid': list(m['G'])}
    S = m['S']
    how = 'scratch' if sc is not None else 'padded'
    ps = result.pixelscale
    ok_meta = (tuple(int(x) for x in result.shape) == S and abs(float(result.wavelength) - m['wl']) <= 1e-12 * m['wl']
               and result.focal_length == w.focal_length and ps is not None
               and np.allclose(np.asarray(ps, float), m['du'], rtol=1e-15, atol=0)
               and str(result.ptype) == {'pupil': 'image', 'image': 'pupil'}.get(str(w.ptype)))
    ctx.check(ok_meta, oracle + ':meta', f'{prefix}|meta',
              'FFT result does not carry the grid shape (or shape*oversample), the wavelength of the rounded grid, the focal '
              'length, du/oversample and the flipped plane type',
              dict(wit, got={'shape': [int(x) for x in result.shape], 'wl': result.wavelength}, want={'shape': list(S), 'wl': m['wl']}))
    if tuple(int(x) for x in result.shape) != S:
        return True
    with probe.quiet():
        try:
            got = result.field
        except Exception as e:
            ctx.check(False, oracle, f'{prefix}|field-raises={type(e).__name__}',
                      f'field of the FFT-propagated wavefront raised {type(e).__name__}: {e}', wit)
            return True
    g = got if m['pts'] is None else got[m['pts'][0], m['pts'][1]]
    ctx.close(oracle, g, m['ref'], 1.0, f'{prefix}|value|{how}',
              'FFT-propagated field differs from the unitary Fraunhofer sum on the FFT grid', wit, scale=m['tol'])
    return True
