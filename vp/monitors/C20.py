"""C20 — array geometry helpers share one centre convention (index floor(n/2)).

Index-set reference models for pad / subarray / window / boundary /
boundary_slice / slice_offset / centroid / rebin / mesh; symmetry, range and
translation monitors for the drawn shapes; counting, area, disjointness and
border monitors for hex_segments.  Online probes on lentil.util.pad and
lentil.util.boundary observe every call made by any workload.
"""
import itertools

import numpy as np

from vp import gen, probe, refmodels as rm
from vp import defaults
from vp import reuse
from vp import forms as argforms
from vp import corners

RULE = ('seeded generator: arrays and cubes 1..14 per side (even/odd/non-square), target shapes mixing growing and '
        'shrinking axes, shape parameters (real radii/sizes), integer and real shifts, rotations, hex apertures '
        'with 1..3 rings, gaps >= 0 (incl. 0) and drop lists; distinct = distinct (helper, shapes, parameters) '
        'descriptors; non-trivial = more than one sample.')
ASSUMPTIONS = ['binary-shape comparisons skip pixels whose exactly computed edge margin is < 1e-9 (ties are not evidence)']
PLAN = {'quick': {'gen': 8}, 'thorough': {'gen': 16, 'tests': 1, 'docs': 1}}
REQUIRED_BUCKETS = ['defaults', 'corners', 'reuse', 'forms', 'pad:2d', 'pad:cube', 'pad:nonsquare-cube', 'pad:grow', 'pad:shrink', 'pad:mixed',
                    'pad:parity-change', 'subarray', 'window', 'boundary', 'boundary:signed-frame', 'slice_offset', 'slice_offset:open-ended', 'centroid', 'rebin',
                    'rebin:cube', 'rebin:small-int', 'mesh', 'shape:circle', 'shape:hexagon', 'shape:rectangle', 'shape:spider', 'shape:sequence', 'shape:binary',
                    'shape:antialias', 'hexseg', 'hexseg:gap0', 'hexseg:drop', 'hexseg:drop-repeated', 'rescale:origin', 'dtype:reduced-precision']
REQUIRED_ANCHORS = ['probe:pad', 'anchor:mesh', 'anchor:hex_to_rc', 'anchor:slice_offset', 'anchor:boundary_slice']
REQUIRED_ORACLES = ['pad=index', 'pad-crop=id', 'subarray=index', 'window=index', 'boundary=set',
                    'slice_offset=render', 'centroid', 'rebin=blocks', 'mesh', 'shape:range', 'shape:binary',
                    'shape:translate', 'shape:halfturn', 'shape:mirror', 'hexseg:count', 'hexseg:area',
                    'hexseg:disjoint', 'hexseg:border']


def anchors(lentil):
    return [('mesh', lentil.helper.mesh), ('hex_to_rc', lentil.segmented.hex_to_rc),
            ('hex_ring', lentil.segmented.hex_ring), ('slice_offset', lentil.helper.slice_offset),
            ('boundary_slice', lentil.helper.boundary_slice), ('subarray', lentil.util.subarray),
            ('rebin', lentil.util.rebin), ('centroid', lentil.util.centroid)]


def pad_model(a, shape):
    """out[i + N//2 - n//2] = a[i] on each of the two image axes."""
    a = np.asarray(a)
    n0, n1 = a.shape[-2], a.shape[-1]
    N0, N1 = int(shape[0]), int(shape[1])
    out = np.zeros(a.shape[:-2] + (N0, N1), dtype=a.dtype)
    for i in range(n0):
        I = i + N0 // 2 - n0 // 2
        if not 0 <= I < N0:
            continue
        for j in range(n1):
            J = j + N1 // 2 - n1 // 2
            if 0 <= J < N1:
                out[..., I, J] = a[..., i, j]
    return out


def pad_oracle(ctx, args, kwargs, result, exc, pre):
    names = ['array', 'shape']
    d = dict(zip(names, args))
    d.update(kwargs)
    try:
        a = np.asarray(d['array'])
        shape = tuple(int(x) for x in d['shape'])
    except Exception:
        return
    if a.ndim not in (2, 3) or len(shape) != 2 or min(shape) < 1 or a.size == 0:
        return
    wit = {'in_shape': list(a.shape), 'shape': list(shape)}
    if exc is not None:
        ctx.check(False, 'pad=index', f'pad|raises={type(exc).__name__}|ndim={a.ndim}',
                  f'pad raised {type(exc).__name__}: {exc}', wit)
        return
    if a.size > 600000:
        ref = None
        # large arrays (from realistic workloads): vectorised form of the same index map
        n0, n1 = a.shape[-2:]
        N0, N1 = shape
        ref = np.zeros(a.shape[:-2] + shape, dtype=a.dtype)
        i = np.arange(n0); I = i + N0 // 2 - n0 // 2; ki = (I >= 0) & (I < N0)
        j = np.arange(n1); J = j + N1 // 2 - n1 // 2; kj = (J >= 0) & (J < N1)
        ref[..., I[ki][:, None], J[kj][None, :]] = a[..., i[ki][:, None], j[kj][None, :]]
    else:
        ref = pad_model(a, shape)
    n0, n1 = a.shape[-2:]
    par = (n0 % 2 != shape[0] % 2) or (n1 % 2 != shape[1] % 2)
    key = 'pad|value' + ('|parity-change' if par else '') + ('|cube' if a.ndim == 3 else '')
    ok = result.shape == ref.shape and np.array_equal(result, ref)
    ctx.check(ok, 'pad=index', key, 'pad does not keep the origin sample (index floor(n/2)) at the new origin', wit)


def boundary_oracle(ctx, args, kwargs, result, exc, pre):
    names = ['x', 'threshold']
    d = {'threshold': 0}
    d.update(dict(zip(names, args)))
    d.update(kwargs)
    x = np.asarray(d['x'])
    if x.ndim != 2:
        return
    idx = np.argwhere(x > d['threshold'])
    if exc is not None:
        if len(idx) == 0:
            ctx.skip('boundary: nothing above threshold')
            return
        ctx.check(False, 'boundary=set', f'boundary|raises={type(exc).__name__}', str(exc), {'shape': list(x.shape)})
        return
    ref = (idx[:, 0].min(), idx[:, 0].max(), idx[:, 1].min(), idx[:, 1].max())
    ctx.check(tuple(int(v) for v in result) == tuple(int(v) for v in ref), 'boundary=set', 'boundary|value',
              'util.boundary is not the bounding box of the samples above threshold', {'shape': list(x.shape)})


def install(ctx, lentil):
    probe.wrap_function(lentil.util.pad, pad_oracle, ctx, 'pad')
    probe.wrap_function(lentil.util.boundary, boundary_oracle, ctx, 'boundary')


# ---------------------------------------------------------------------------

def _rs(rng, lo=1, hi=14):
    k = rng.integers(0, 4)
    if k == 0:
        n = int(rng.integers(lo, hi + 1))
        return (n, n)
    return (int(rng.integers(lo, hi + 1)), int(rng.integers(lo, hi + 1)))


def _origin_flip(a):
    """Half-turn of a 2-D array about its origin sample (floor(n/2), floor(n/2)).  Returns
    (rotated, valid) where valid marks the samples that have a partner inside the frame."""
    n0, n1 = a.shape
    i = 2 * (n0 // 2) - np.arange(n0)
    j = 2 * (n1 // 2) - np.arange(n1)
    vi = (i >= 0) & (i < n0)
    vj = (j >= 0) & (j < n1)
    out = np.zeros_like(a)
    valid = np.outer(vi, vj)
    out[np.ix_(vi, vj)] = a[np.ix_(i[vi], j[vj])]
    return out, valid


def _mirror(a, axis):
    n = a.shape[axis]
    i = 2 * (n // 2) - np.arange(n)
    v = (i >= 0) & (i < n)
    out = np.zeros_like(a)
    if axis == 0:
        out[v, :] = a[i[v], :]
        valid = np.outer(v, np.ones(a.shape[1], bool))
    else:
        out[:, v] = a[:, i[v]]
        valid = np.outer(np.ones(a.shape[0], bool), v)
    return out, valid


def _coords(shape, shift=(0, 0)):
    rr = np.arange(shape[0], dtype=rm.LD)[:, None] - shape[0] // 2 - rm.LD(shift[0])
    cc = np.arange(shape[1], dtype=rm.LD)[None, :] - shape[1] // 2 - rm.LD(shift[1])
    return rr + 0 * cc, cc + 0 * rr


def _margin(kind, shape, p, shift):
    """Distance (in the shape's own clip variable) of every pixel from the binary decision."""
    rr, cc = _coords(shape, shift)
    if kind == 'circle':
        return np.abs(rm.LD(p['radius']) + rm.LD(0.5) - np.sqrt(rr ** 2 + cc ** 2)).astype(float)
    if kind == 'hexagon':
        inner = rm.LD(p['radius']) * np.sqrt(rm.LD(3)) / 2
        m = np.full(shape, np.inf)
        for k in range(6):
            th = k * rm.PI / 3 if p['rotate'] else k * rm.PI / 3 + rm.PI / 6
            rho = rr * np.sin(th) + cc * np.cos(th)
            m = np.minimum(m, np.abs(inner - rho).astype(float))
        return m
    if kind == 'rectangle':
        ang = rm.LD(p['angle']) * rm.PI / 180
        r = rr * np.cos(ang) + cc * np.sin(ang)
        c = -rr * np.sin(ang) + cc * np.cos(ang)
        return np.minimum(np.abs(rm.LD(0.5) + rm.LD(p['width']) / 2 - np.abs(c)),
                          np.abs(rm.LD(0.5) + rm.LD(p['height']) / 2 - np.abs(r))).astype(float)
    raise ValueError(kind)


def _draw(lentil, kind, shape, p, shift, antialias):
    if kind == 'circle':
        return lentil.circle(shape, p['radius'], shift=shift, antialias=antialias)
    if kind == 'hexagon':
        return lentil.hexagon(shape, p['radius'], shift=shift, rotate=p['rotate'], antialias=antialias)
    return lentil.rectangle(shape, p['width'], p['height'], shift=shift, angle=p['angle'], antialias=antialias)


def _hexgrid_edge_margin(shape, rings, radius, gap, rotate):
    """min over all hexagons of the ideal k-ring grid of |distance of the pixel centre from that
    hexagon's boundary| (independent model of the grid: axial coordinates with
    max(|q|,|r|,|q+r|) <= rings, pitch radius+gap/2)."""
    LD = rm.LD
    Rp = LD(radius) + LD(gap) / 2
    inner = LD(radius) * np.sqrt(LD(3)) / 2
    out = np.full(shape, np.inf)
    s3 = np.sqrt(LD(3))
    for q in range(-rings, rings + 1):
        for r in range(-rings, rings + 1):
            if max(abs(q), abs(r), abs(q + r)) > rings:
                continue
            if rotate:
                x = Rp * (s3 * q + s3 / 2 * r)
                y = Rp * (LD(3) / 2 * r)
            else:
                x = Rp * (LD(3) / 2 * q)
                y = Rp * (s3 / 2 * q + s3 * r)
            rr, cc = _coords(shape, (-y, x))
            rho = np.full(shape, -np.inf, dtype=LD)
            for k in range(6):
                th = k * rm.PI / 3 if rotate else k * rm.PI / 3 + rm.PI / 6
                rho = np.maximum(rho, rr * np.sin(th) + cc * np.cos(th))
            out = np.minimum(out, np.abs(inner - rho).astype(float))
    return out


def workload(ctx, lentil):
    defaults.run(ctx, lentil, 'C20', 'pad=index')
    reuse.run(ctx, lentil, 'C20', 'pad=index')
    argforms.run(ctx, lentil, 'C20', 'pad=index')
    corners.run(ctx, lentil, 'C20', 'pad=index')
    rng = ctx.rng
    U, H = lentil.util, lentil.helper
    n = ctx.count(160, 1200)

    # ---- pad / crop ---------------------------------------------------------
    for i in range(n * 2):
        cube = rng.random() < 0.4
        s = _rs(rng)
        t = _rs(rng)
        mode = rng.integers(0, 4)
        if mode == 0:
            t = (s[0] + int(rng.integers(0, 6)), s[1] + int(rng.integers(0, 6)))
        elif mode == 1:
            t = (max(1, s[0] - int(rng.integers(0, 6))), max(1, s[1] - int(rng.integers(0, 6))))
        k = int(rng.integers(1, 4))
        a = rng.normal(size=((k,) + s) if cube else s)
        r_ = rng.random()
        if r_ < 0.3:
            a = (a * 10).astype(int)
        elif r_ < 0.4:
            a = a > 0
        elif r_ < 0.5:
            a = a + 1j * rng.normal(size=a.shape)
        elif r_ < 0.55:
            a = a.astype(np.float32)
        grow = [t[0] > s[0], t[1] > s[1]]
        shrink = [t[0] < s[0], t[1] < s[1]]
        bk = ['pad:cube' if cube else 'pad:2d']
        if cube and s[0] != s[1]:
            bk.append('pad:nonsquare-cube')
        if any(grow) and not any(shrink):
            bk.append('pad:grow')
        if any(shrink) and not any(grow):
            bk.append('pad:shrink')
        if any(grow) and any(shrink):
            bk.append('pad:mixed')
        if s[0] % 2 != t[0] % 2 or s[1] % 2 != t[1] % 2:
            bk.append('pad:parity-change')
        desc = {'op': 'pad', 'in': list(a.shape), 'to': list(t), 'dtype': str(a.dtype)}
        ctx.case(desc, bk, nontrivial=a.size > 1)
        try:
            out = U.pad(gen.layout(rng, a), t)     # probe decides the values (input in any memory layout)
        except Exception:
            continue
        if t[0] >= s[0] and t[1] >= s[1]:
            try:
                back = U.pad(out, s)
                ctx.check(np.array_equal(back, a), 'pad-crop=id', 'pad|pad-then-crop',
                          'padding then cropping back is not the identity', desc)
            except Exception as e:
                ctx.check(False, 'pad-crop=id', f'pad|pad-then-crop|raises={type(e).__name__}', str(e), desc)
        # origin sample stays the origin
        o_in = a[..., s[0] // 2, s[1] // 2]
        o_out = out[..., t[0] // 2, t[1] // 2]
        ctx.check(np.array_equal(o_in, o_out), 'pad=index', 'pad|origin',
                  'the origin sample is not at the new origin after pad', desc)

    # ---- subarray / window ------------------------------------------------------
    for i in range(n):
        s = _rs(rng, 2)
        a = rng.normal(size=s)
        t = (int(rng.integers(1, s[0] + 1)), int(rng.integers(1, s[1] + 1)))
        shift = (int(rng.integers(-s[0], s[0] + 1)), int(rng.integers(-s[1], s[1] + 1))) \
            if rng.random() < 0.7 else (0, 0)
        desc = {'op': 'subarray', 'in': list(s), 'shape': list(t), 'shift': list(shift)}
        ctx.case(desc, ['subarray'])
        r0 = s[0] // 2 - t[0] // 2 + shift[0]
        c0 = s[1] // 2 - t[1] // 2 + shift[1]
        inside = r0 >= 0 and c0 >= 0 and r0 + t[0] <= s[0] and c0 + t[1] <= s[1]
        try:
            got = U.subarray(a, t, shift)
            ok = inside and np.array_equal(got, a[r0:r0 + t[0], c0:c0 + t[1]]) and \
                got[t[0] // 2, t[1] // 2] == a[s[0] // 2 + shift[0], s[1] // 2 + shift[1]]
            ctx.check(ok, 'subarray=index', 'subarray|value',
                      'subarray is not centred on origin+shift (or accepted a window outside the array)', desc)
        except ValueError:
            ctx.check(not inside, 'subarray=index', 'subarray|refused', 'subarray refused a window inside the array', desc)
        # window
        ctx.case({'op': 'window', 'in': list(s), 'shape': list(t)}, ['window'])
        w = U.window(a, shape=t)
        ctx.check(np.array_equal(w, pad_model(a, t)), 'window=index', 'window|shape',
                  'window(shape=) is not the centred crop', desc)
        r1, c1 = int(rng.integers(0, s[0])), int(rng.integers(0, s[1]))
        r2, c2 = int(rng.integers(r1 + 1, s[0] + 1)), int(rng.integers(c1 + 1, s[1] + 1))
        w = U.window(a, slice=(r1, r2, c1, c2))
        ctx.check(np.array_equal(w, a[r1:r2, c1:c2]), 'window=index', 'window|slice',
                  'window(slice=) is not the requested view', desc)
        w = U.window(a, shape=(r2 - r1, c2 - c1), slice=(r1, r2, c1, c2))
        ctx.check(np.array_equal(w, a[r1:r2, c1:c2]), 'window=index', 'window|shape+slice',
                  'window(shape=, slice=) is not the requested view', desc)

    # ---- boundary / boundary_slice / slice_offset / centroid ----------------------
    for i in range(n):
        s = _rs(rng, 1)
        x = (rng.random(s) < rng.uniform(0.05, 0.6)) * rng.random(s)
        if not (x > 0).any():
            x[int(rng.integers(0, s[0])), int(rng.integers(0, s[1]))] = 0.5
        thr = 0 if rng.random() < 0.6 else float(rng.uniform(0, x.max() * 0.9))
        if i % 5 == 2:
            # a background-subtracted frame / an OPD map: negative samples (and NaN) around the region of interest are not LARGER
            # than the threshold
            x = x - (x == 0) * rng.uniform(0.01, 0.5, size=s)
            if i % 10 == 2:
                x[x < 0] *= (rng.random(int((x < 0).sum())) < 0.7)       # a mix of negative and exactly zero background
            if i % 20 == 7 and (x <= 0).any():
                x[tuple(np.argwhere(x <= 0)[0])] = np.nan
            ctx.bucket('boundary:signed-frame')
        desc = {'op': 'boundary', 'shape': list(s), 'thr': thr, 'x': probe.fp_array(x)[:10]}
        ctx.case(desc, ['boundary'], nontrivial=x.size > 1)
        U.boundary(x, thr)        # probe decides
        idx = np.argwhere(x > thr)
        pad = int(rng.integers(0, 3))
        sl = H.boundary_slice(x, thr, pad=pad)
        ref = (max(idx[:, 0].min() - pad, 0), min(idx[:, 0].max() + pad + 1, s[0]),
               max(idx[:, 1].min() - pad, 0), min(idx[:, 1].max() + pad + 1, s[1]))
        got = (sl[0].start, sl[0].stop, sl[1].start, sl[1].stop)
        ctx.check(tuple(int(v) for v in got) == tuple(int(v) for v in ref), 'boundary=set', 'boundary_slice|value',
                  'boundary_slice is not the (padded, clipped) bounding box', desc)
        # slice rendered at its offset reproduces the array inside the box
        ctx.case({'op': 'slice_offset', 'shape': list(s)}, ['slice_offset'])
        off = H.slice_offset(sl, s)
        ren = rm.render([(x[sl], off)], s).real
        box = np.zeros(s)
        box[sl] = x[sl]
        ctx.check(np.array_equal(ren, box, equal_nan=True), 'slice_offset=render', 'slice_offset|render',
                  'a bounding slice rendered at its slice_offset does not land on the pixels it was cut from',
                  dict(desc, offset=[int(v) for v in off], slice=str(sl)))
        ctx.check(tuple(H.slice_offset(Ellipsis, s)) == (0, 0), 'slice_offset=render', 'slice_offset|ellipsis',
                  'slice_offset(Ellipsis) is not (0, 0)', desc)
        # the same window written the way slices are usually written by hand - open ends (a[2:, :5], a[:, :]), the whole array as
        # [..., :] - is the same window
        r0_, r1_, c0_, c1_ = (int(v) for v in got)
        forms_ = [(np.s_[r0_:, c0_:c1_], np.s_[r0_:s[0], c0_:c1_]), (np.s_[:r1_, :c1_], np.s_[0:r1_, 0:c1_]), (np.s_[:, :], np.s_[0:s[0], 0:s[1]]),
                  (np.s_[..., :], np.s_[0:s[0], 0:s[1]])]
        ctx.bucket('slice_offset:open-ended')
        for open_, closed_ in forms_:
            try:
                want_ = tuple(int(v) for v in H.slice_offset(closed_, s))
                got_ = tuple(int(v) for v in H.slice_offset(open_, s))
                ctx.check(got_ == want_, 'slice_offset=render', 'slice_offset|open-ended',
                          'a slice with open ends has another offset than the same window with its ends written out',
                          dict(desc, slice=str(open_), got=list(got_), want=list(want_)))
            except Exception as e:
                ctx.check(False, 'slice_offset=render', f'slice_offset|open-ended|raises={type(e).__name__}', f'{open_}: {e}', desc)
        # centroid
        ctx.case({'op': 'centroid', 'shape': list(s)}, ['centroid'])
        xp = np.abs(x) + (rng.random(s) if rng.random() < 0.5 else 0)
        cr, cc = U.centroid(xp)
        ii, jj = np.indices(s)
        tot = np.sum(xp.astype(rm.LD))
        ref = (float(np.sum(ii * xp.astype(rm.LD)) / tot), float(np.sum(jj * xp.astype(rm.LD)) / tot))
        ctx.close('centroid', np.array([cr, cc]), np.array(ref), 1e-12, 'centroid|value',
                  'centroid is not the intensity-weighted mean index', desc, scale=max(s))
        # a ratio of moments does not depend on the brightness of the frame (irradiance in W, photon counts, ...)
        cfac = 10.0 ** int(rng.integers(-30, 31))
        cr2, cc2 = U.centroid(xp * cfac)
        ctx.close('centroid', np.array([cr2, cc2]), np.array(ref), 1e-12, 'centroid|scale-invariant',
                  'the centroid depends on the absolute brightness of the image', dict(desc, factor=cfac), scale=max(s))

    # ---- the TYPE in which frames and angles arrive: half / single precision frames (centroid, rebin), angles as NumPy integers
    for i in range(max(6, n // 30)):
        m_ = int(rng.integers(120, 320))
        disc = lentil.circle((m_, m_), m_ / 3.0, shift=(int(rng.integers(-9, 10)), int(rng.integers(-9, 10))), antialias=False)
        ctx.case({'op': 'reduced-precision', 'n': m_}, ['dtype:reduced-precision'])
        ref_c = np.array(U.centroid(disc.astype(float)))
        for dt in (np.float16, np.float32):
            with np.errstate(all='ignore'):
                got_c = np.array(U.centroid(disc.astype(dt)), float)          # 0/1 values: exact in every type
            ctx.close('centroid', got_c, ref_c, 1.0, f'centroid|{np.dtype(dt).name}', 'the centroid of a 0/1 frame depends on the precision '
                      'the frame is held in', {'n': m_, 'dtype': np.dtype(dt).name, 'got': got_c.tolist(), 'want': ref_c.tolist()}, scale=1e-9 * m_)
        f16 = np.full((64, 64), 100, np.float16)
        with np.errstate(all='ignore'):
            rb = np.asarray(U.rebin(f16, 32), float)
        ctx.check(bool(np.all(rb == 102400.0)), 'rebin=blocks', 'rebin|float16', 'rebin of a half-precision frame overflows / loses the block sums',
                  {'got': rb.ravel()[:2].tolist()})
        ang = int(rng.integers(5, 85))
        refr = lentil.rectangle((96, 96), 70, 9, angle=float(ang))
        refs = lentil.spider((96, 96), 5, angle=float(ang))
        for at in (np.int8, np.uint8, np.int16, np.float32):
            gr = lentil.rectangle((96, 96), 70, 9, angle=at(ang))
            gs = lentil.spider((96, 96), 5, angle=at(ang))
            ctx.check(float(np.abs(gr - refr).max()) <= 1e-9 and float(np.abs(gs - refs).max()) <= 1e-9, 'shape:range', f'shape|angle-type|{np.dtype(at).name}',
                      'a rectangle / spider drawn at an angle given as a NumPy integer (or single-precision float) differs from the one drawn at '
                      'the same angle given as a Python number', {'angle': ang, 'type': np.dtype(at).name,
                                                                  'rect': float(np.abs(gr - refr).max()), 'spider': float(np.abs(gs - refs).max())})
        # window of a cube (frames first, as pad and rebin have it) selected by an explicit slice == selected by the centred shape
        nf_ = int(rng.integers(1, 5))
        cube = rng.normal(size=(nf_, 8, 10))
        try:
            wa = U.window(cube, shape=(4, 4))
            wb = U.window(cube, shape=(4, 4), slice=(2, 6, 3, 7))
            ctx.check(np.shape(wb) == np.shape(wa) and np.array_equal(wa, wb) and np.array_equal(wa, cube[:, 2:6, 3:7]), 'pad=index-model', 'window|cube|slice',
                      'window(cube, shape=...) / window(cube, slice=...) does not crop the rows and columns of every frame around the origin sample',
                      {'frames': nf_, 'shapes': [list(np.shape(wa)), list(np.shape(wb))]})
            # a target that crops one axis and keeps (or grows) the other
            wc = U.window(cube, shape=(4, 10))
            wd = U.window(cube, shape=(4, 12))
            ctx.check(np.array_equal(wc, cube[:, 2:6, :]) and np.shape(wd) == (nf_, 4, 12) and np.array_equal(wd[:, :, 1:11], cube[:, 2:6, :])
                      and not wd[:, :, [0, 11]].any(), 'pad=index-model', 'window|cube|mixed',
                      'window(cube, shape=...) with one axis cropped and the other kept / grown is not the centred window of every frame',
                      {'frames': nf_, 'shapes': [list(np.shape(wc)), list(np.shape(wd))]})
        except Exception as e:
            ctx.check(False, 'pad=index-model', f'window|cube|raises={type(e).__name__}', str(e), {'frames': nf_})
    # ---- rescale: what sits on the origin sample stays on the origin sample (odd and even sizes, in and out) ------
    for i in range(max(6, n // 30)):
        m_ = int(rng.integers(21, 70))
        sc = float(rng.choice([2, 3, 0.5, 1.5, 1.01, 2.5]))
        rad = float(rng.uniform(4, m_ / 4))
        img = lentil.circle((m_, m_), rad)
        out = U.rescale(img, sc)
        ctx.case({'op': 'rescale-origin', 'n': m_, 'scale': sc}, ['rescale:origin'])
        cr, cc = U.centroid(out)
        ctx.close('centroid', np.array([cr, cc]), np.array([out.shape[0] // 2, out.shape[1] // 2], float), 1.0, 'rescale|origin',
                  'rescale moved a disc centred on the origin sample off the origin sample floor(N/2) of its output',
                  {'n': m_, 'scale': sc, 'out': list(out.shape), 'centroid': [float(cr), float(cc)]}, scale=2e-2)
    # ---- rebin / mesh ---------------------------------------------------------------
    for i in range(n):
        f = int(rng.integers(1, 5))
        s = (f * int(rng.integers(1, 6)), f * int(rng.integers(1, 6)))
        cube = rng.random() < 0.4
        a = rng.normal(size=((int(rng.integers(1, 4)),) + s) if cube else s)
        kd = rng.random()
        if kd < 0.3:
            a = np.round(a * 100).astype(np.int64 if rng.random() < 0.5 else np.int32)      # counts
        elif kd < 0.45:
            # frames as a detector delivers them: small unsigned / signed integer types near full scale, boolean masks
            dt = [np.uint8, np.uint16, np.int16, bool, np.int8][int(rng.integers(0, 5))]
            if dt is bool:
                a = (a > -1).astype(bool)
            else:
                info = np.iinfo(dt)
                a = rng.integers(int(info.max * 0.6), info.max, size=a.shape, endpoint=True).astype(dt)
            ctx.bucket('rebin:small-int')
        desc = {'op': 'rebin', 'in': list(a.shape), 'factor': f, 'dtype': str(a.dtype)}
        ctx.case(desc, ['rebin'] + (['rebin:cube'] if cube else []), nontrivial=a.size > 1)
        got = U.rebin(gen.layout(rng, a), f)
        ref = np.zeros(a.shape[:-2] + (s[0] // f, s[1] // f))
        for r in range(s[0] // f):
            for c in range(s[1] // f):
                ref[..., r, c] = a[..., r * f:(r + 1) * f, c * f:(c + 1) * f].astype(float).sum(axis=(-1, -2))
        ctx.close('rebin=blocks', got, ref, 1e-13, 'rebin|value', 'rebin is not the block sum', desc,
                  scale=max(1.0, float(np.abs(a.astype(float)).max()) * f * f))
        ctx.close('rebin=blocks', np.array(float(np.asarray(got, float).sum())), np.array(float(a.astype(float).sum())), 1e-12, 'rebin|total',
                  'rebin does not preserve the sum', desc, scale=float(np.abs(a.astype(float)).sum()) + 1)
        # mesh
        s = _rs(rng, 1)
        sh = (float(rng.uniform(-3, 3)), float(rng.uniform(-3, 3))) if rng.random() < 0.5 else (0, 0)
        ang = float(rng.uniform(-180, 180)) if rng.random() < 0.5 else 0
        ctx.case({'op': 'mesh', 'shape': list(s), 'shift': list(sh), 'angle': ang}, ['mesh'])
        r, c = H.mesh(s, sh, ang)
        rr, cc = _coords(s, sh)
        th = rm.LD(ang) * rm.PI / 180
        ctx.close('mesh', r, rr * np.cos(th) + cc * np.sin(th), 1e-13, 'mesh|rows',
                  'mesh rows are not arange(n)-floor(n/2)-shift (rotated)', scale=max(s) + 4)
        ctx.close('mesh', c, -rr * np.sin(th) + cc * np.cos(th), 1e-13, 'mesh|cols',
                  'mesh columns are not arange(n)-floor(n/2)-shift (rotated)', scale=max(s) + 4)

    # ---- drawn shapes -----------------------------------------------------------------
    for i in range(n):
        kind = ['circle', 'hexagon', 'rectangle'][int(rng.integers(0, 3))]
        s = _rs(rng, 5, 28)
        antialias = bool(rng.random() < 0.5)
        if kind == 'circle':
            p = {'radius': float(rng.uniform(0.5, min(s) * 0.6))}
        elif kind == 'hexagon':
            p = {'radius': float(rng.uniform(1, min(s) * 0.6)), 'rotate': bool(rng.random() < 0.5)}
        else:
            p = {'width': float(rng.uniform(0.5, s[1])), 'height': float(rng.uniform(0.5, s[0])),
                 'angle': float(rng.uniform(-90, 90)) if rng.random() < 0.5 else 0.0}
        if rng.random() < 0.25:      # integer-valued parameters make exact ties likely
            for k in p:
                if isinstance(p[k], float) and k != 'angle':
                    p[k] = float(max(1, round(p[k])))
        desc = {'op': 'shape', 'kind': kind, 'shape': list(s), 'p': p, 'antialias': antialias}
        ctx.case(desc, [f'shape:{kind}', 'shape:antialias' if antialias else 'shape:binary'])
        m0 = _draw(lentil, kind, s, p, (0, 0), antialias)
        ctx.check(m0.shape == tuple(s) and float(m0.min()) >= 0.0 and float(m0.max()) <= 1.0, 'shape:range',
                  f'shape|range|{kind}', 'drawn shape has values outside [0, 1]', desc)
        marg0 = _margin(kind, s, p, (0, 0))
        safe0 = marg0 > 1e-9
        if not antialias:
            ctx.check(bool(np.all((m0 == 0) | (m0 == 1))), 'shape:binary', f'shape|binary|{kind}',
                      'shape drawn without antialiasing is not binary', desc)
        tol = 1e-12
        # half-turn about the origin sample
        rot, valid = _origin_flip(m0)
        # (every pixel, binary shapes included: a half-turn maps (r, c) to (-r, -c) exactly, so an implementation that treats
        # opposite sides alike gives bit-identical values - no tie is possible here, unlike for mirrors and shifts)
        cmp = valid
        ctx.check(bool(np.all(np.abs(rot - m0)[cmp] <= tol)), 'shape:halfturn', f'shape|halfturn|{kind}',
                  'shape is not unchanged by a half-turn about the origin sample', desc)
        # mirror symmetry when not rotated
        if kind != 'rectangle' or p['angle'] == 0.0:
            for ax in (0, 1):
                mir, valid = _mirror(m0, ax)
                cmp = valid & (np.ones(s, bool) if antialias else (safe0 & _mirror(safe0.astype(float), ax)[0].astype(bool)))
                ctx.check(bool(np.all(np.abs(mir - m0)[cmp] <= tol)), 'shape:mirror', f'shape|mirror|{kind}|axis={ax}',
                          'unrotated shape is not mirror-symmetric about the origin sample', desc)
        else:
            ctx.oracle_evals['shape:mirror'] += 0
        # integer-shift equivariance inside the frame
        a, b = int(rng.integers(-4, 5)), int(rng.integers(-4, 5))
        m1 = _draw(lentil, kind, s, p, (a, b), antialias)
        ref = np.zeros(s)
        valid = np.zeros(s, bool)
        I = np.arange(s[0]) - a
        J = np.arange(s[1]) - b
        vi = (I >= 0) & (I < s[0])
        vj = (J >= 0) & (J < s[1])
        ref[np.ix_(vi, vj)] = m0[np.ix_(I[vi], J[vj])]
        valid[np.ix_(vi, vj)] = True
        if not antialias:
            sshift = np.zeros(s, bool)
            sshift[np.ix_(vi, vj)] = safe0[np.ix_(I[vi], J[vj])]
            valid &= sshift & (_margin(kind, s, p, (a, b)) > 1e-9)
        ctx.check(bool(np.all(np.abs(m1 - ref)[valid] <= tol)), 'shape:translate', f'shape|translate|{kind}',
                  'shape does not translate exactly under an integer shift', dict(desc, shift=[a, b]))

    # ---- sequences: the same drawing call repeated with one argument changed at a time must behave as fresh calls do -------
    for i in range(n // 4):
        s = _rs(rng, 6, 24)
        r1, r2 = float(rng.uniform(1, min(s) * 0.4)), float(rng.uniform(1, min(s) * 0.4))
        sh = (int(rng.integers(-2, 3)), int(rng.integers(-2, 3)))
        ctx.case({'op': 'shape-sequence', 'shape': list(s)}, ['shape:sequence'])
        seq = [('circle', dict(radius=r1), (0, 0), True), ('circle', dict(radius=r2), (0, 0), True), ('circle', dict(radius=r1), sh, True),
               ('circle', dict(radius=r1), (0, 0), False), ('circle', dict(radius=r1), (0, 0), True),
               ('hexagon', dict(radius=r1, rotate=False), (0, 0), True), ('hexagon', dict(radius=r1, rotate=True), (0, 0), True),
               ('hexagon', dict(radius=r1, rotate=False), (0, 0), True),
               ('rectangle', dict(width=r1, height=r2, angle=0.0), (0, 0), True), ('rectangle', dict(width=r1, height=r2, angle=30.0), (0, 0), True),
               ('rectangle', dict(width=r1, height=r2, angle=0.0), (0, 0), True)]
        seen = {}
        for kind, p, shift, aa in seq:
            m = _draw(lentil, kind, s, p, shift, aa)
            key = (kind, tuple(sorted(p.items())), shift, aa)
            if key in seen:
                ctx.check(np.array_equal(m, seen[key]), 'shape:translate', f'shape|sequence|{kind}',
                          'the same drawing call gives another result after calls with other arguments', {'kind': kind, 'p': p})
            else:
                seen[key] = m.copy()
                # compare with the closed-form antialiased / binary definition of the margin model
                marg = _margin(kind, s, p, shift)
                if kind == 'circle' and aa:
                    rr, cc = _coords(s, shift)
                    ref = np.clip(p['radius'] + 0.5 - np.sqrt(rr ** 2 + cc ** 2), 0, 1).astype(float)
                    ctx.close('shape:range', m, ref, 1e-12, 'shape|circle|value', 'antialiased circle is not clip(radius + 0.5 - r, 0, 1)',
                              {'p': p, 'shift': list(shift)}, scale=1.0)

    # ---- spider: range and binarity (its bar has a finite, shape-dependent length, so exact translation is not expected) ----
    for i in range(n // 4):
        s = _rs(rng, 5, 28)
        antialias = bool(rng.random() < 0.5)
        p = {'width': float(rng.uniform(0.5, 5)), 'angle': float(rng.uniform(-180, 180)) if rng.random() < 0.7 else float(rng.choice([0, 90, 45])),
             'shift': (float(rng.uniform(-3, 3)), float(rng.uniform(-3, 3))) if rng.random() < 0.5 else (0, 0)}
        desc = {'op': 'shape', 'kind': 'spider', 'shape': list(s), 'p': p, 'antialias': antialias}
        ctx.case(desc, ['shape:spider', 'shape:antialias' if antialias else 'shape:binary'])
        try:
            m0 = lentil.spider(s, p['width'], angle=p['angle'], shift=p['shift'], antialias=antialias)
        except Exception as e:
            ctx.check(False, 'shape:range', f'shape|spider|raises={type(e).__name__}', str(e), desc)
            continue
        ctx.check(m0.shape == tuple(s) and float(m0.min()) >= 0.0 and float(m0.max()) <= 1.0, 'shape:range', 'shape|range|spider',
                  'drawn shape has values outside [0, 1]', desc)
        if not antialias:
            ctx.check(bool(np.all((m0 == 0) | (m0 == 1))), 'shape:binary', 'shape|binary|spider',
                      'shape drawn without antialiasing is not binary', desc)

    # ---- hex_segments ---------------------------------------------------------------------
    nh = ctx.count(24, 120)
    for i in range(nh):
        rings = int(rng.integers(1, 4 if ctx.tier == 'thorough' else 3))
        radius = float(rng.uniform(3, 9)) if rng.random() < 0.6 else float(rng.integers(3, 10))
        gap = 0.0 if rng.random() < 0.3 else float(rng.uniform(0.1, 3))
        if rng.random() < 0.2:
            gap = float(rng.integers(0, 3))
        rotate = bool(rng.random() < 0.5)
        total = 1 + 3 * rings * (rings + 1)
        if rng.random() < 0.5:
            drop = (0,)
        else:
            drop = tuple(sorted(set(int(x) for x in rng.integers(0, total, int(rng.integers(0, 4))))))
        drop_arg = drop
        if drop != (0,) and len(drop) >= 1 and i % 3 == 0:
            # the same set written another way: unsorted, with an index named twice (two lists joined), as a list or an array
            lst = list(drop) + [drop[int(rng.integers(0, len(drop)))] for _ in range(int(rng.integers(1, 3)))]
            lst = [lst[j] for j in rng.permutation(len(lst))]
            if len(drop) >= 2:
                lst = [min(drop)] * 2 + [x for x in lst if x != min(drop)]       # a repeated small index ahead of larger ones
            drop_arg = [lst, tuple(lst), np.array(lst)][i % 9 // 3]
            ctx.bucket('hexseg:drop-repeated')
        pad = 2 if rng.random() < 0.7 else int(rng.integers(3, 6))
        desc = {'op': 'hex_segments', 'rings': rings, 'radius': radius, 'gap': gap, 'rotate': rotate,
                'drop': list(drop), 'pad': pad}
        ctx.case(desc, ['hexseg'] + (['hexseg:gap0'] if gap == 0 else []) + (['hexseg:drop'] if drop != (0,) else []))
        kw = dict(rings=rings, seg_radius=radius, seg_gap=gap, rotate=rotate, pad=pad, drop=drop_arg)
        aa = lentil.hex_segments(antialias=True, **kw)
        bb = lentil.hex_segments(antialias=False, **kw)
        want = total - len(drop)
        ctx.check(aa.ndim == 3 and aa.shape[0] == want and bb.shape[0] == want, 'hexseg:count', 'hexseg|count',
                  'hex_segments does not hold 1+3k(k+1) segments minus those dropped', dict(desc, got=list(aa.shape)))
        if aa.ndim != 3 or aa.shape[0] == 0:
            continue
        true_area = 3 * np.sqrt(3) / 2 * radius ** 2
        bound = 1.5 * 6 * radius + 6
        areas = aa.reshape(aa.shape[0], -1).sum(1)
        areas_b = bb.reshape(bb.shape[0], -1).sum(1)
        ctx.check(bool(np.all(np.abs(areas - true_area) <= bound) and np.all(np.abs(areas_b - true_area) <= bound)
                       and areas.max() - areas.min() <= bound), 'hexseg:area', 'hexseg|area',
                  'segments do not have equal area up to edge sampling', dict(desc, areas=areas[:8], true=true_area))
        over = (bb > 0).sum(0) > 1
        # classify: a doubly-owned pixel whose centre lies (to 1e-9) on the closed edge of a hexagon of the
        # ideal grid is a shared-edge tie (only possible at gap == 0); anything else is a real overlap
        tie_only = True
        if over.any():
            edge = _hexgrid_edge_margin(bb.shape[1:], rings, radius, gap, rotate)
            tie_only = bool(np.all(edge[over] < 1e-9)) and gap == 0
        ctx.check(not over.any(), 'hexseg:disjoint',
                  'hexseg|overlap|gap=0|shared-edge-tie' if tie_only else 'hexseg|overlap',
                  'binary segment masks overlap', dict(desc, pixels=int(over.sum()),
                                                       first=[int(v) for v in np.argwhere(over)[0]] if over.any() else None))
        fl = aa.sum(0)
        ctx.check(not (fl[0].any() or fl[-1].any() or fl[:, 0].any() or fl[:, -1].any()), 'hexseg:border',
                  'hexseg|border', 'segments touch the array border', desc)
        flat = lentil.hex_segments(antialias=True, flatten=True, **kw)
        ctx.close('hexseg:count', flat, fl, 1e-13, 'hexseg|flatten', 'flatten=True is not the sum of the segments', desc,
                  scale=1.0)
