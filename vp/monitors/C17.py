"""C17 — resampling a plane changes its sampling, not its optics.

Online oracle on Plane.rescale (Plane.resample reaches it): bookkeeping that must hold for every call —
pixel scale divided by exactly s, ceil(n*s) samples, binary mask with the same segments, original untouched.
Driver: identity for s = 1; for smooth, well-sampled apertures and OPDs (monolithic and segmented) the
transmitted power and the propagated image at a fixed output sampling are preserved to a tolerance fixed in
code from the interpolation error measured on the unchanged tree; physical extent within one sample; resample.
"""
import numpy as np

from vp import gen, probe
from vp import defaults
from vp import reuse
from vp import forms as argforms
from vp import corners

RULE = ('seeded generator: super-Gaussian (order 2/4) apodised apertures with smooth polynomial OPDs on even- and odd-sized, '
        'square and non-square arrays 24..64 per side, monolithic and angular-sector segmented masks, scale factors 0.5..4 '
        '(non-integers, integers, 1), target pixel scales for resample.  distinct = distinct (shape, s, aperture parameters, '
        'segments) descriptors; non-trivial = s != 1.')
ASSUMPTIONS = ['power / image tolerances 4e-2 (>= 6x the worst interpolation residual 6e-3 seen on the unchanged tree over 1500 '
               'calibration cases, <= 1/4 of the 19% effect of a missing 1/s factor at |s-1| = 0.1)',
               'scale factors are drawn so that n*s is not within 1e-9 of an integer unless it is exactly one']
PLAN = {'quick': {'gen': 8}, 'thorough': {'gen': 16, 'tests': 1, 'docs': 1}}
REQUIRED_BUCKETS = ['defaults', 'corners', 'forms', 's<1', 's>1', 's=1', 's:integer', 'shape:odd', 'shape:even', 'shape:nonsquare', 'monolithic', 'segmented',
                    'resample', 'resample:refused', 'scalar-attributes', 'mask-dtype', 'amp:signed', 's:decimal-near-integer-product', 'subclass:property-override', 'opd:exact-zeros', 'array-dtype', 'pair:same-output-size', 'amp:node-on-samples', 'opd-only-plane', 'constant-amplitude-as-array']
REQUIRED_ANCHORS = ['probe:Plane.rescale', 'anchor:Plane.resample', 'anchor:util.rescale', 'anchor:_plane_slice']
REQUIRED_ORACLES = ['pixelscale/s', 'shape=ceil(n*s)', 'mask:binary+segments', 'original-untouched', 'identity', 'power',
                    'image', 'extent', 'resample=rescale', 'resample:refused']
TOL = 4e-2


def anchors(lentil):
    return [('Plane.resample', lentil.plane.Plane.resample), ('util.rescale', lentil.util.rescale),
            ('_plane_slice', lentil.plane._plane_slice)]


def rescale_before(ctx, args, kwargs):
    return probe.fingerprint(args[0])


def rescale_oracle(ctx, args, kwargs, result, exc, pre):
    plane = args[0]
    s = args[1] if len(args) > 1 else kwargs.get('scale')
    try:
        s = float(s)
    except Exception:
        return
    wit = {'scale': s, 'shape': list(plane.shape), 'segments': int(plane.size), 'pixelscale': plane.pixelscale}
    if exc is not None:
        ctx.check(False, 'shape=ceil(n*s)', f'rescale|raises={type(exc).__name__}', str(exc), wit)
        return
    ctx.check(probe.fingerprint(plane) == pre, 'original-untouched', 'rescale|original-modified',
              'rescale modified the plane it was called on', wit)
    if plane.pixelscale is not None:
        want = (plane.pixelscale[0] / s, plane.pixelscale[1] / s)
        got = result.pixelscale
        ctx.check(got is not None and tuple(float(x) for x in got) == want, 'pixelscale/s', 'rescale|pixelscale',
                  'pixel scale was not divided by exactly the scale factor', dict(wit, got=got, want=want))
    else:
        ctx.check(result.pixelscale is None, 'pixelscale/s', 'rescale|pixelscale-none', 'pixel scale appeared from nowhere', wit)
    mask = np.asarray(plane.mask)
    if mask.ndim < 2:
        ctx.skip('rescale: shapeless plane')
        return
    n = mask.shape[-2:]
    # ceil(n*s) of the scale factor that was actually passed (a double): evaluated exactly in rational arithmetic; when the
    # double product n*s rounds onto an integer that the exact product misses, either reading of the rule is accepted
    from fractions import Fraction
    import math
    exact = tuple(math.ceil(Fraction(int(k)) * Fraction(s)) for k in n)
    flt = tuple(int(np.ceil(k * s)) for k in n)
    want_shape = exact
    rm_ = np.asarray(result.mask)
    shapes = {'mask': rm_.shape[-2:]}
    if np.ndim(plane.amplitude) > 1:
        shapes['amplitude'] = np.shape(result.amplitude)
    if np.ndim(plane.opd) > 1:
        shapes['opd'] = np.shape(result.opd)
    ctx.check(all(len(v) == 2 and all(int(v[k]) in (exact[k], flt[k]) for k in (0, 1)) for v in shapes.values())
              and len({tuple(int(x) for x in v) for v in shapes.values()}) == 1, 'shape=ceil(n*s)', 'rescale|shape',
              'rescaled arrays do not have ceil(n*s) samples', dict(wit, got={k: list(v) for k, v in shapes.items()}, want=list(want_shape)))
    binary = bool(np.all((rm_ == 0) | (rm_ == 1)))
    same_segments = rm_.ndim == mask.ndim and (mask.ndim == 2 or rm_.shape[0] == mask.shape[0])
    ctx.check(binary and same_segments, 'mask:binary+segments', 'rescale|mask',
              'rescaled mask is not binary or lost its segment structure', dict(wit, got=list(rm_.shape)))
    if binary and same_segments:
        segs0 = mask if mask.ndim == 3 else mask[None]
        segs1 = rm_ if rm_.ndim == 3 else rm_[None]
        for k, (a, b) in enumerate(zip(segs0, segs1)):
            area0, area1 = float((a != 0).sum()), float(b.sum())
            if area0 * s * s >= 9:
                ctx.check(area1 > 0, 'mask:binary+segments', 'rescale|mask|empty-segment', 'a segment vanished', dict(wit, seg=k))
            # nearest-neighbour resampling: area scales with s^2 up to the boundary
            b0 = (a != 0)
            per = float(np.count_nonzero(np.diff(b0.astype(int), axis=0)) + np.count_nonzero(np.diff(b0.astype(int), axis=1))
                        + b0[0].sum() + b0[-1].sum() + b0[:, 0].sum() + b0[:, -1].sum()) + 4     # incl. the array border
            # ... about the origin samples floor(n/2): a segment that lies inside the array keeps its place (each input sample lands
            # on the output samples nearest to s times its position, so the centroid moves by at most half an output sample for
            # whole factors; fractional factors give the samples unequal weights, which adds a little)
            touches = bool(b0[0].any() or b0[-1].any() or b0[:, 0].any() or b0[:, -1].any())
            if not touches and area0 >= 12 and area1 > 0:
                ii0, jj0 = np.nonzero(b0)
                ii1, jj1 = np.nonzero(b)
                c0 = (ii0.mean() - a.shape[0] // 2, jj0.mean() - a.shape[1] // 2)
                c1 = (ii1.mean() - b.shape[0] // 2, jj1.mean() - b.shape[1] // 2)
                dev = max(abs(c1[0] - s * c0[0]), abs(c1[1] - s * c0[1]))
                lim = 0.5 + 1e-9 if s == round(s) else 0.5 + 0.5 * max(s, 1.0) / np.sqrt(area0) * 4
                cur = ctx.notes.get('mask_centroid_dev', [0.0, 0.0])
                if dev / lim > cur[0]:
                    ctx.notes['mask_centroid_dev'] = [float(dev / lim), float(dev), float(s)]
                ctx.check(dev <= lim, 'mask:binary+segments', 'rescale|mask|position',
                          'a segment of the rescaled mask is displaced from where the aperture it belongs to was (about the origin samples)',
                          dict(wit, seg=k, deviation=float(dev), limit=float(lim)))
            ctx.check(abs(area1 - s * s * area0) <= 2 * per * max(s, 1.0) * max(s, 1.0) + 4, 'mask:binary+segments', 'rescale|mask|area',
                      'segment area did not scale with s^2 (mask not resampled by nearest neighbour?)',
                      dict(wit, seg=k, area=[area0, area1]))


rescale_oracle.before = rescale_before


def install(ctx, lentil):
    probe.wrap_method(lentil.plane.Plane, 'rescale', rescale_oracle, ctx)


def supergauss(shape, w, p, dr=0.0, dc=0.0):
    ii, jj = np.indices(shape)
    r = np.hypot((ii - shape[0] // 2 - dr) / (w * shape[0]), (jj - shape[1] // 2 - dc) / (w * shape[1]))
    a = np.exp(-r ** p)
    a[a < 1e-6] = 0
    return a


def draw_scale(rng, n):
    for _ in range(50):
        k = rng.integers(0, 6)
        if k == 0:
            s = float(rng.choice([2, 3, 4]))
        elif k == 1:
            s = float(rng.choice([0.5, 1.5, 2.5]))
        else:
            s = float(rng.uniform(0.5, 0.9)) if rng.random() < 0.45 else float(rng.uniform(1.1, 4.0))
        q = (n[0] * s, n[1] * s)
        if all(v == round(v) or abs(v - round(v)) > 1e-6 for v in q):
            return s
    return 2.0


def workload(ctx, lentil):
    defaults.run(ctx, lentil, 'C17', 'pixelscale/s')
    reuse.run(ctx, lentil, 'C17', 'pixelscale/s')
    argforms.run(ctx, lentil, 'C17', 'pixelscale/s')
    corners.run(ctx, lentil, 'C17', 'pixelscale/s')
    rng = ctx.rng
    n_cases = ctx.count(60, 450)
    for i in range(n_cases):
        n = gen.rshape(rng, 24, 64, square_p=0.4)
        s = draw_scale(rng, n)
        if i % 6 == 5:
            # decimal scale factors on sizes for which n*s is an integer in decimal arithmetic (1.1 * 50, 0.55 * 40, ...): the
            # double nearest to the factor puts the product a hair above or below it, and ceil() has to follow the product
            n = (int(rng.choice([40, 50, 60])), int(rng.choice([40, 60])))      # (large enough to stay resolved at s = 0.55)
            s = float(rng.choice([1.1, 0.55, 1.3, 1.85, 1.35, 0.7, 0.6, 1.2, 1.4, 1.7, 1.15, 2.3, 0.65, 1.9]))
            ctx.bucket('s:decimal-near-integer-product')
        if i % 8 == 3:
            # two planes in a row that are shrunk by the same factor onto the same output size from different input sizes (2m and
            # 2m-1 at s = 0.5; 4k and 4k-1 at s = 0.75): each is resampled about its own origin sample
            s_pair = float(rng.choice([0.5, 0.75]))
            m_ = int(rng.integers(7, 12)) * 4
            pair_sizes = [m_, m_ - 1] if (i // 8) % 2 == 0 else [m_ - 1, m_]
            n, s = (pair_sizes[0], pair_sizes[0]), s_pair
            ctx.bucket('pair:same-output-size')
        elif i % 8 == 4 and i > 3:
            n, s = (pair_sizes[1], pair_sizes[1]), s_pair
        p = int(rng.choice([2, 4]))
        w = float(rng.uniform(0.12, 0.2))
        # "to interpolation accuracy" presupposes an aperture that is still resolved after the rescale: a 1/e radius of at
        # least 3 samples of the coarser of the two grids (at 2.5 the complex image of a 24-sample plane halved to 12 samples sits
        # right on the 4 % tolerance: seed 17 of the final sweep, 4.1 %, before and after every repair of rescale) - the array is
        # enlarged where the widest aperture that fits would be coarser than that
        nmin = int(np.ceil(3.0 / (0.22 * min(s, 1.0))))
        if min(n) < nmin:
            n = tuple(max(v, nmin) for v in n)
        w = min(0.22, max(w, 3.0 / (min(n) * min(s, 1.0))))
        base = supergauss(n, w, p, rng.uniform(-2, 2), rng.uniform(-2, 2)) * float(rng.uniform(0.5, 2))
        amp = base
        ii, jj = np.indices(n)
        x, y = (ii - n[0] // 2) / n[0], (jj - n[1] // 2) / n[1]
        signed = i % 5 == 2
        if signed:
            # a real amplitude that changes sign smoothly (a TEM10-like field: 0 / pi phase stored as the sign)
            ang_ = 0.3 * i if i % 10 != 2 else [0.0, np.pi / 2][(i // 10) % 2]      # (every other one: the node line ON a row / column of samples)
            amp = base * (x * np.cos(ang_) + y * np.sin(ang_)) / w
            if i % 10 == 2:
                amp = base * (x if (i // 10) % 2 == 0 else y) / w               # exact zeros on the node samples
                ctx.bucket('amp:node-on-samples')
            ctx.bucket('amp:signed')
        wl = float(rng.uniform(5e-7, 1e-6))
        c = rng.normal(size=5) * 0.25
        opd = wl * (c[0] * x * y + c[1] * x * x + c[2] * y * y + c[3] * x + c[4] * y)
        seg = bool(rng.random() < 0.45)
        dx = float(rng.uniform(0.5e-3, 4e-3))
        z = float(rng.uniform(2, 20))
        kw = {}
        if seg:
            k = int(rng.integers(2, 5))
            ang = np.arctan2(ii - n[0] // 2 + 0.3, jj - n[1] // 2 + 0.2)
            lab = np.floor((ang + np.pi) / (2 * np.pi) * k).astype(int) % k
            kw['mask'] = np.array([(lab == q) & (base > 0) for q in range(k)]).astype(float)
        elif signed:
            kw['mask'] = (base > 0).astype(float)
        desc = {'shape': list(n), 's': s, 'p': p, 'w': w, 'seg': int(kw['mask'].shape[0]) if seg else 0, 'dx': dx, 'wl': wl}
        bks = ['s<1' if s < 1 else 's>1', 'shape:odd' if (n[0] % 2 or n[1] % 2) else 'shape:even',
               'segmented' if seg else 'monolithic'] + (['shape:nonsquare'] if n[0] != n[1] else []) + \
            (['s:integer'] if s == round(s) else [])
        ctx.case(desc, bks, nontrivial=True)
        pl = lentil.Pupil(amplitude=amp, opd=opd, pixelscale=dx, focal_length=z, **kw)
        try:
            q = pl.rescale(s)                      # online oracle: bookkeeping
        except Exception:
            continue
        # physical extent within one sample
        ext0 = (n[0] * dx, n[1] * dx)
        ext1 = (q.shape[0] * q.pixelscale[0], q.shape[1] * q.pixelscale[1])
        ctx.check(all(abs(a - b) <= max(dx, dx / s) * (1 + 1e-12) for a, b in zip(ext0, ext1)), 'extent', 'rescale|extent',
                  'physical extent (pixel scale times samples) changed by more than one sample', dict(desc, ext=[ext0, ext1]))
        with probe.quiet():
            wa = lentil.Wavefront(wl) * pl
            wb = lentil.Wavefront(wl) * q
            P0 = float(np.sum(np.abs(wa.field) ** 2))
            P1 = float(np.sum(np.abs(wb.field) ** 2))
            du = wl * z / (dx * n[0]) / 2
            fa_ = lentil.propagate_dft(wa, du, shape=24, oversample=1)
            fb_ = lentil.propagate_dft(wb, du, shape=24, oversample=1)
            a, b = fa_.intensity, fb_.intensity
            af, bf = fa_.field, fb_.field
        ctx.close('power', np.array([P1]), np.array([P0]), TOL, 'rescale|power',
                  'transmitted power sum|amplitude|^2 is not preserved to interpolation accuracy', dict(desc, P=[P0, P1]), scale=P0)
        ctx.close('image', b, a, TOL, 'rescale|image', 'propagated image at a fixed output sampling is not preserved to interpolation accuracy',
                  desc, scale=float(a.max()))
        if signed and i % 10 == 2:
            # a node line that falls exactly on samples is part of a smooth map, not a hole in the aperture: the rescaled amplitude does
            # not change when the zeros are replaced by 1e-300
            try:
                with probe.quiet():
                    q_eps = lentil.Pupil(amplitude=amp + 1e-300 * (base > 0), opd=opd, pixelscale=dx, focal_length=z, **kw).rescale(s)
                ctx.close('power', np.asarray(q.amplitude, float), np.asarray(q_eps.amplitude, float), 1e-6, 'rescale|amplitude|node-on-samples',
                          'the rescaled amplitude next to a node line changes when the exact zeros on the node are replaced by 1e-300 '
                          '(the node is read as a hole in the aperture)', desc, scale=float(np.abs(np.asarray(q_eps.amplitude, float)).max()))
            except Exception as e:
                ctx.check(False, 'power', f'rescale|node-on-samples|raises={type(e).__name__}', str(e), desc)
        # ... as a complex field: what sat on the optical axis still sits there (a plane resampled about another point than its
        # origin sample shows up as a phase ramp across the image, which the intensity cannot see)
        ctx.close('image', bf, af, TOL, 'rescale|image-field', 'the propagated complex field is not preserved to interpolation accuracy '
                  '(the resampled plane is displaced from the optical axis)', desc, scale=float(np.abs(af).max()))
        # a subclass that keeps its surface in other units behind the public properties (getter + setter, the customisation the
        # documentation describes): rescaling goes through those properties, so it behaves like the stock plane with the same data
        if i % 4 == 2:
            ctx.bucket('subclass:property-override')
            class NmPupil(lentil.Pupil):
                def __init__(self, opd_nm, throughput, base_amp, **kw2):
                    super().__init__(**kw2)
                    self._opd_nm = np.asarray(opd_nm, float)
                    self._base_amp = np.asarray(base_amp, float)
                    self.throughput = throughput

                @property
                def opd(self):
                    return self._opd_nm * 1e-9

                @opd.setter
                def opd(self, value):
                    self._opd_nm = np.asarray(value, float) / 1e-9

                @property
                def amplitude(self):
                    return self._base_amp * self.throughput

                @amplitude.setter
                def amplitude(self, value):
                    self._base_amp = np.asarray(value, float) / self.throughput
            try:
                mk_ = kw.get('mask', (base > 0).astype(float))
                sub = NmPupil(opd / 1e-9, 0.5, amp / 0.5, mask=mk_, pixelscale=dx, focal_length=z)
                stock = lentil.Pupil(amplitude=amp, opd=opd, mask=mk_, pixelscale=dx, focal_length=z)
                qs, q0 = sub.rescale(s), stock.rescale(s)          # online oracle: bookkeeping of both
                a_s, a_0 = np.asarray(qs.amplitude, float), np.asarray(q0.amplitude, float)
                o_s, o_0 = np.asarray(qs.opd, float), np.asarray(q0.opd, float)
                ok = a_s.shape == a_0.shape and o_s.shape == o_0.shape and \
                    np.allclose(a_s, a_0, rtol=1e-9, atol=1e-12 * float(np.abs(a_0).max())) and \
                    np.allclose(o_s, o_0, rtol=1e-9, atol=1e-12 * float(np.abs(o_0).max()) + 1e-30) and \
                    np.array_equal(np.asarray(qs.mask), np.asarray(q0.mask))
                ctx.check(ok, 'resample=rescale', 'rescale|subclass-properties',
                          'a plane subclass that overrides the amplitude / opd properties is not rescaled like the stock plane with the same data',
                          dict(desc, shapes=[list(a_s.shape), list(a_0.shape), list(o_s.shape), list(o_0.shape)]))
            except Exception as e:
                ctx.check(False, 'resample=rescale', f'rescale|subclass|raises={type(e).__name__}', str(e), desc)
        # (a "fit the segment tilts, then rescale" scenario was tried and withdrawn: the residual OPD of a segmented fit jumps at
        # the segment boundaries by (difference of the fitted tilts) x (distance from the axis), so it is not smooth on the sampling
        # grid and its spline interpolation rings - several per cent of image error on the unchanged tree.  The half-pixel decentre
        # of util.rescale that motivated it is decided directly by C20's rescale:origin oracle.)
        # an OPD that passes through exactly 0.0 inside the aperture (a tilt through the array centre, a node line): the rescaled map
        # does not care whether a sample is 0.0 or 1e-15 m
        if i % 4 == 1:
            ctx.bucket('opd:exact-zeros')
            try:
                odd = wl * 0.2 * np.sin((jj - n[1] // 2) / 6.0) * np.sin((ii - n[0] // 2) / 5.0)      # zero row and column at the origin
                pa = lentil.Pupil(amplitude=amp, opd=odd, pixelscale=dx, focal_length=z, **kw)
                pb = lentil.Pupil(amplitude=amp, opd=odd + 1e-15, pixelscale=dx, focal_length=z, **kw)
                with probe.quiet():
                    qa, qb = pa.rescale(s), pb.rescale(s)
                ctx.close('image', np.asarray(qa.opd, float), np.asarray(qb.opd, float) - 1e-15, 1e-6, 'rescale|opd|exact-zeros',
                          'the rescaled OPD changes when 1e-15 m of piston is added to a map that contains exact zeros', desc,
                          scale=float(np.abs(odd).max()))
            except Exception as e:
                ctx.check(False, 'image', f'rescale|opd-zeros|raises={type(e).__name__}', str(e), desc)
        # identity
        if i % 3 == 0:
            ctx.case(dict(desc, s=1.0), ['s=1'], nontrivial=False)
            r1 = pl.rescale(1) if i % 2 else pl.rescale(1.0)
            ok = (np.allclose(r1.amplitude, pl.amplitude, rtol=0, atol=1e-12 * float(np.abs(amp).max())) and
                  np.allclose(r1.opd, pl.opd, rtol=0, atol=1e-12 * float(np.abs(opd).max()) + 1e-30) and
                  np.array_equal(np.asarray(r1.mask) != 0, np.asarray(pl.mask) != 0) and tuple(r1.pixelscale) == tuple(pl.pixelscale))
            ctx.check(ok, 'identity', 'rescale|identity', 'rescale(1) is not the identity', desc)
        # resample to a target pixel scale == rescale by pixelscale/target
        if i % 2 == 0:
            target = dx / s
            ctx.case(dict(desc, resample=target), ['resample'])
            try:
                r2 = pl.resample(target)
                ctx.check(tuple(r2.pixelscale) == (target, target), 'pixelscale/s', 'resample|target-pixelscale',
                          'a plane resampled to a target pixel scale does not carry exactly that pixel scale (a later product with a plane '
                          'at the target scale is then refused)', dict(desc, got=list(r2.pixelscale), target=target))
                s_eff = dx / target
                ok = (np.shape(r2.amplitude) == np.shape(pl.rescale(s_eff).amplitude) and
                      abs(r2.pixelscale[0] - dx / s_eff) <= 1e-15 * dx and np.allclose(r2.amplitude, pl.rescale(s_eff).amplitude, rtol=0, atol=0))
                ctx.check(ok, 'resample=rescale', 'resample|value', 'resample(p) is not rescale(pixelscale/p)', desc)
            except Exception as e:
                ctx.check(False, 'resample=rescale', f'resample|raises={type(e).__name__}', str(e), desc)
        if i % 3 == 1:
            # resample to the current pixel scale: still a new plane, the original stays untouched by later edits of the result
            r0 = pl.resample(dx)
            fp0 = probe.fingerprint(pl)
            ok_new = r0 is not pl
            try:
                r0.fit_tilt(inplace=True)
                r0.amplitude = np.asarray(r0.amplitude) * 0.5
            except Exception:
                pass
            ctx.check(ok_new and probe.fingerprint(pl) == fp0, 'original-untouched', 'resample|same-scale|alias',
                      'resample to the current pixel scale returned the plane itself (editing the result edits the original)', desc)
        if i % 5 == 0:
            # decimal pixel scales whose ratio does not divide back exactly (0.15 / (0.15 / 0.07) != 0.07)
            for old_ps, new_ps in ((0.15, 0.07), (0.07, 0.03), (0.07, 0.12)):
                try:
                    rr_ = lentil.Pupil(amplitude=amp, opd=opd, pixelscale=old_ps, focal_length=z, **kw).resample(new_ps)
                    ctx.check(tuple(rr_.pixelscale) == (new_ps, new_ps), 'pixelscale/s', 'resample|target-pixelscale',
                              'a plane resampled to a target pixel scale does not carry exactly that pixel scale (a later product with a plane '
                              'at the target scale is then refused)', dict(desc, got=list(rr_.pixelscale), target=new_ps))
                except Exception as e:
                    ctx.check(False, 'pixelscale/s', f'resample|target|raises={type(e).__name__}', str(e), desc)
            ctx.bucket('resample:refused')
            aniso = lentil.Pupil(amplitude=amp, opd=opd, pixelscale=(dx, dx * 1.3), focal_length=z)
            ctx.expect_raises('resample:refused', (NotImplementedError,), lambda: aniso.resample(dx / 2), 'resample|aniso',
                              'a non-uniformly sampled plane was not refused by resample')
            nops = lentil.Pupil(amplitude=amp, opd=opd, focal_length=z)
            ctx.expect_raises('resample:refused', (ValueError,), lambda: nops.resample(dx / 2), 'resample|no-pixelscale',
                              'a plane without pixel scale was not refused by resample')
            # anisotropic plane may still be rescaled: both pixel scales divided
            aniso.rescale(s)
        if i % 4 == 1:
            # masks of integer / boolean dtype, and a plane that has already been rescaled once (a history of two calls)
            ctx.bucket('mask-dtype')
            mk = (base > 0) if not seg else (kw['mask'] > 0)
            for dt in (int, bool, np.uint8):
                try:
                    pi_ = lentil.Pupil(amplitude=amp, opd=opd, mask=mk.astype(dt), pixelscale=dx, focal_length=z)
                    qi = pi_.rescale(s)                       # online oracle: bookkeeping
                    ctx.check(np.array_equal(np.asarray(qi.mask) != 0, np.asarray(q.mask) != 0), 'mask:binary+segments',
                              f'rescale|mask-dtype|{np.dtype(dt).name}', 'the rescaled mask depends on the dtype of the supplied mask', desc)
                except Exception as e:
                    ctx.check(False, 'mask:binary+segments', f'rescale|mask-dtype|raises={type(e).__name__}',
                              f'rescale of a plane with a {np.dtype(dt).name} mask raised {type(e).__name__}: {e}', desc)
            # amplitude / OPD arrays held in half or extended precision: planes like any other (they multiply and propagate)
            ctx.bucket('array-dtype')
            for dt in (np.float16, np.longdouble, np.float32):
                try:
                    pf_ = lentil.Pupil(amplitude=amp.astype(dt), opd=opd if dt is np.float16 else np.asarray(opd).astype(dt),
                                       pixelscale=dx, focal_length=z, **kw)
                    qf = pf_.rescale(s)                       # online oracle: bookkeeping
                    ref_ = np.asarray(lentil.Pupil(amplitude=amp.astype(dt).astype(float), opd=opd, pixelscale=dx, focal_length=z, **kw).rescale(s).amplitude, float)
                    ctx.close('power', np.asarray(qf.amplitude, float), ref_, 64 * float(np.finfo(dt).eps) if dt is not np.longdouble else 1e-12,
                              f'rescale|array-dtype|{np.dtype(dt).name}', 'the rescaled amplitude depends on the float type the plane arrays are held in',
                              desc, scale=float(np.abs(ref_).max()))
                except Exception as e:
                    ctx.check(False, 'power', f'rescale|array-dtype|raises={type(e).__name__}',
                              f'rescale of a plane with {np.dtype(dt).name} arrays raised {type(e).__name__}: {e}', desc)
            try:
                # chains of sampling changes ending in resample: first-generation results are planes like any other
                r_a = q.resample(dx)                           # back to the original pixel scale
                r_b = pl.resample(dx / 1.5).resample(dx / s)
                okc = abs(r_a.pixelscale[0] - dx) <= 1e-12 * dx and abs(r_b.pixelscale[0] - dx / s) <= 1e-12 * dx and \
                    isinstance(q.pixelscale, tuple) and isinstance(r_a.pixelscale, tuple)
                ctx.check(okc, 'resample=rescale', 'resample|chained', 'a rescaled / resampled plane cannot be resampled again to the requested '
                          'pixel scale (or its pixel scale is no longer a tuple)', dict(desc, got=[repr(q.pixelscale), repr(r_a.pixelscale)]))
            except Exception as e:
                ctx.check(False, 'resample=rescale', f'resample|chained|raises={type(e).__name__}',
                          f'resampling an already rescaled plane raised {type(e).__name__}: {e}', desc)
            try:
                s2 = 1.0 / s if rng.random() < 0.5 else float(rng.choice([1.5, 2.0, 0.75]))
                qq = q.rescale(s2)                            # online oracle: bookkeeping of the second step
                with probe.quiet():
                    wc = lentil.Wavefront(wl) * qq
                    P2 = float(np.sum(np.abs(wc.field) ** 2))
                    c = lentil.propagate_dft(wc, du, shape=24, oversample=1).intensity
                if s >= 0.9 and s * s2 >= 0.9:
                    # (a plane that was first down-sampled has lost detail for good: only the bookkeeping is checked then)
                    ctx.close('power', np.array([P2]), np.array([P0]), 2 * TOL, 'rescale|twice|power',
                              'transmitted power is not preserved by two successive rescales', dict(desc, s2=s2), scale=P0)
                    ctx.close('image', c, a, 2 * TOL, 'rescale|twice|image', 'propagated image is not preserved by two successive rescales',
                              dict(desc, s2=s2), scale=float(a.max()))
            except Exception as e:
                ctx.check(False, 'image', f'rescale|twice|raises={type(e).__name__}',
                          f'rescaling an already rescaled plane raised {type(e).__name__}: {e}', desc)
        if i % 7 == 0:
            # scalar opd / scalar amplitude with array mask
            ctx.bucket('scalar-attributes')
            m2 = (base > 0.1 * base.max()).astype(float)
            lentil.Pupil(amplitude=amp, opd=0, pixelscale=dx, focal_length=z).rescale(s)
            a0 = float(rng.uniform(0.3, 2.0)) if i % 2 else 1
            pm = lentil.Pupil(amplitude=a0, opd=0, mask=m2, pixelscale=dx, focal_length=z)
            try:
                qm = pm.rescale(s)
                # a constant amplitude over an array mask: the power |a|^2 * (masked samples) is preserved, the mask area grows by
                # s^2 (checked by the mask oracle), so the constant has to come out as a / s - just like an amplitude array does
                with probe.quiet():
                    Pm0 = float(np.sum(np.abs((lentil.Wavefront(wl) * pm).field) ** 2))
                    Pm1 = float(np.sum(np.abs((lentil.Wavefront(wl) * qm).field) ** 2))
                area0, area1 = float(m2.sum()), float(np.asarray(qm.mask).sum())
                ctx.close('power', np.array([Pm1 * (s * s * area0 / max(area1, 1.0))]), np.array([Pm0]), 1e-9, 'rescale|power|scalar-amplitude',
                          'a plane with a constant amplitude over an array mask does not keep its transmitted power when rescaled',
                          dict(desc, a=a0, got=np.asarray(qm.amplitude).tolist(), P=[Pm0, Pm1], area=[area0, area1]), scale=Pm0)
                # the same optics written with the constant as an ARRAY (np.full, a flat-field map): interpolating a constant is exact,
                # so the rescaled plane passes the same field as the one with the scalar - up to the rim of the mask
                pa_ = lentil.Pupil(amplitude=np.full(n, float(a0)), opd=0, mask=m2, pixelscale=dx, focal_length=z)
                qa_ = pa_.rescale(s)
                ctx.bucket('constant-amplitude-as-array')
                with probe.quiet():
                    f_s = np.asarray((lentil.Wavefront(wl) * qm).field)
                    f_a = np.asarray((lentil.Wavefront(wl) * qa_).field)
                ctx.close('power', f_a, f_s, 1e-9, 'rescale|constant-amplitude-array-vs-scalar',
                          'a constant amplitude given as an array over an explicit mask is not rescaled like the same constant given as a scalar '
                          '(its rim is damped)', dict(desc, a=a0, P=[float(np.sum(np.abs(f_s) ** 2)), float(np.sum(np.abs(f_a) ** 2))]),
                          scale=float(np.max(np.abs(f_s))) + 1e-300)
            except Exception as e:
                ctx.check(False, 'power', f'rescale|scalar-amplitude|raises={type(e).__name__}', str(e), desc)
            # a plane described by an OPD map alone (uniform illumination, no mask array - the map's own extent is the aperture):
            # the image at a fixed output sampling is preserved like that of any other plane (factors that keep the extent exact)
            for s_o in (2.0, 0.5, 3.0, 1.5):
                # (sizes for which the 24-sample output window stays inside one period of the coarser of the two samplings; the hard
                # edge of the map limits the agreement to a few per cent: twice the tolerance of the smooth apertures)
                no = (2 * int(rng.integers(16, 25)), 2 * int(rng.integers(8, 25)))
                ro, co = np.indices(no)
                opd_o = 0.2 * wl * np.exp(-(((ro - no[0] // 2) / (0.3 * no[0])) ** 2 + ((co - no[1] // 2) / (0.3 * no[1])) ** 2))
                a_o = float(rng.uniform(0.3, 2.0)) if i % 2 else None
                d_o = dict(desc, opd_only=list(no), s=s_o, amplitude=a_o)
                ctx.bucket('opd-only-plane')
                try:
                    po = lentil.Pupil(opd=opd_o, pixelscale=dx, focal_length=z, **({} if a_o is None else {'amplitude': a_o}))
                    qo = po.rescale(s_o)
                    want_shape = (int(np.ceil(no[0] * s_o)), int(np.ceil(no[1] * s_o)))
                    ctx.check(tuple(np.shape(qo.opd)) == want_shape and tuple(qo.pixelscale) == (dx / s_o, dx / s_o), 'shape=ceil(n*s)',
                              'rescale|opd-only|bookkeeping', 'an OPD-only plane is not resampled to ceil(n*s) samples at pixelscale/s',
                              dict(d_o, got=list(np.shape(qo.opd)), ps=list(qo.pixelscale)))
                    with probe.quiet():
                        du_o = wl * z / (dx * no[0]) / 2
                        ia = lentil.propagate_dft(lentil.Wavefront(wl) * po, du_o, shape=24, oversample=1).intensity
                        ib = lentil.propagate_dft(lentil.Wavefront(wl) * qo, du_o, shape=24, oversample=1).intensity
                    ctx.close('image', ib, ia, 2 * TOL, 'rescale|image|opd-only', 'the propagated image of an OPD-only plane at a fixed output '
                              'sampling is not preserved to interpolation accuracy', dict(d_o, sums=[float(ia.sum()), float(ib.sum())]),
                              scale=float(ia.max()))
                except Exception as e:
                    ctx.check(False, 'image', f'rescale|opd-only|raises={type(e).__name__}', str(e), d_o)
            # planes without any array (an attenuator, a tilt, a default pupil or image): only the pixel scale changes
            for mk_plane in (lambda: lentil.Pupil(amplitude=0.5, pixelscale=dx, focal_length=z), lambda: lentil.Image(pixelscale=dx),
                             lambda: lentil.Tilt(x=1e-6, y=-2e-6, pixelscale=dx)):
                try:
                    p0 = mk_plane()
                    q0_ = p0.rescale(s)
                    ctx.check(q0_ is not p0 and q0_.pixelscale is not None and tuple(q0_.pixelscale) == (dx / s, dx / s)
                              and np.ndim(q0_.mask) == np.ndim(p0.mask), 'pixelscale/s', 'rescale|extent-less|pixelscale',
                              'rescaling a plane without arrays does not simply divide its pixel scale', dict(desc, cls=type(p0).__name__))
                except Exception as e:
                    ctx.check(False, 'pixelscale/s', f'rescale|extent-less|raises={type(e).__name__}',
                              f'a plane without arrays cannot be rescaled: {type(e).__name__}: {e}', dict(desc))
