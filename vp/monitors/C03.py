"""C03 — splitting an aperture into segments or sub-arrays never changes the result.

Relational driver: the same optics described (a) by one global mask, (b) by a
random partition of its support into per-segment masks (stripes, blobs,
interleaved pixels => heavily overlapping bounding boxes), (c) zero-padded into
a larger array; complex field and intensity are compared after the plane
chain and after propagation.  Both sides are also checked against the
independent Fraunhofer model (online oracle on propagate_dft), and the
intensity of the segmented description against |sum of segment fields|^2.
"""
import numpy as np

from vp import gen, probe, propmodel, refmodels as rm
from vp import defaults
from vp import reuse
from vp import forms as argforms
from vp import corners

RULE = ('seeded generator: random apertures 4..22 per side and random partitions of their support into 1..8 segments '
        '(stripes / nearest-seed blobs / interleaved pixels), random OPDs, chains of one or two masked planes (second '
        'plane monolithic or segmented), DFT propagation with random sampling/window/oversampling; plus the same optics '
        'zero-padded into a larger array.  distinct = distinct (aperture hash, partition style, k, chain, sampling) '
        'descriptors; non-trivial = k >= 2 or padded.')
ASSUMPTIONS = ['segments of one plane are pairwise disjoint (a partition)']
PLAN = {'quick': {'gen': 8}, 'thorough': {'gen': 16, 'tests': 1}}
REQUIRED_BUCKETS = ['defaults', 'corners', 'reuse', 'forms', 'k=1', 'k=2', 'k=3-8', 'bbox-overlap', 'style:stripes', 'style:blobs', 'style:interleaved',
                    'chain:1', 'chain:2', 'chain:2-segmented', 'chain:2-same-boxes', 'propagated', 'padded', 'tilt-chain', 'segment-tilts', 'fitted-vs-global',
                    'fft', 'fft:scratch', 'groups:partial', 'rescale-after-use']
REQUIRED_ANCHORS = ['probe:propagate_dft', 'probe:propagate_fft', 'probe:Wavefront.insert', 'anchor:Plane.multiply', 'anchor:slice_offset', 'anchor:boundary_slice',
                    'anchor:field.reduce', 'anchor:field._merge']
REQUIRED_ORACLES = ['seg=mono:field', 'seg=mono:intensity', 'seg=mono:propagated', 'coherent-sum', 'pad=embed',
                    'dft=fraunhofer', 'fft=fraunhofer', 'insert=weight*intensity', 'seg=mono:fft']
TOL = 1e-12


def anchors(lentil):
    return [('Plane.multiply', lentil.plane.Plane.multiply), ('slice_offset', lentil.helper.slice_offset),
            ('boundary_slice', lentil.helper.boundary_slice), ('field.reduce', lentil.field.reduce),
            ('field._merge', lentil.field._merge), ('dft2', lentil.fourier.dft2)]


def dft_oracle(ctx, args, kwargs, result, exc, pre):
    a = propmodel.bind_dft(args, kwargs)
    propmodel.check_dft(ctx, 'propagate_dft', a['wavefront'], a, result, exc)


def fft_oracle(ctx, args, kwargs, result, exc, pre):
    propmodel.check_fft(ctx, 'propagate_fft', propmodel.bind_fft(args, kwargs), result, exc)


def install(ctx, lentil):
    from vp.monitors import C07
    probe.wrap_function(lentil.propagate.propagate_dft, dft_oracle, ctx, 'propagate_dft')
    probe.wrap_function(lentil.propagate.propagate_fft, fft_oracle, ctx, 'propagate_fft')
    # accumulation API: out + weight * |coherent sum of the fields|^2 (oracle shared with C07)
    probe.wrap_method(lentil.wavefront.Wavefront, 'insert', C07.winsert_oracle, ctx)


def _accumulate(ctx, rng, w):
    """Drive Wavefront.insert on a propagated wavefront (the probe decides)."""
    S = tuple(int(x) for x in w.shape)
    out = rng.normal(size=S) if rng.random() < 0.7 else np.zeros(S)
    try:
        w.insert(out, [1, 0.5, 2.0][int(rng.integers(0, 3))])
    except Exception:
        pass        # recorded by the probe


def embed(a, shape):
    """Zero-pad keeping the origin sample at the new origin (own implementation)."""
    a = np.asarray(a)
    out = np.zeros(a.shape[:-2] + tuple(shape), dtype=a.dtype)
    r0 = shape[0] // 2 - a.shape[-2] // 2
    c0 = shape[1] // 2 - a.shape[-1] // 2
    out[..., r0:r0 + a.shape[-2], c0:c0 + a.shape[-1]] = a
    return out


def _cmp(ctx, oracle, key, what, wa, wb, desc, scale_tol=None):
    with probe.quiet():
        try:
            fa, fb = wa.field, wb.field
            ia, ib = wa.intensity, wb.intensity
        except Exception as e:
            ctx.check(False, oracle, key + f'|raises={type(e).__name__}', f'{what}: {type(e).__name__}: {e}', desc)
            return
    sc = max(float(np.max(np.abs(fa))) if fa.size else 0.0, 1e-300)
    if scale_tol is not None:
        ctx.close(oracle, fb, fa, 1.0, key + '|field', what + ' (complex field)', desc, scale=scale_tol)
        ctx.close(oracle.replace('field', 'intensity') if 'field' in oracle else oracle, ib, ia, 1.0, key + '|intensity',
                  what + ' (intensity)', desc, scale=4 * scale_tol * sc + 1e-300)
    else:
        ctx.close(oracle, fb, fa, TOL, key + '|field', what + ' (complex field)', desc, scale=sc)
        ctx.close(oracle.replace('field', 'intensity') if 'field' in oracle else oracle, ib, ia, TOL, key + '|intensity',
                  what + ' (intensity)', desc, scale=sc * sc)


def workload(ctx, lentil):
    defaults.run(ctx, lentil, 'C03', 'seg=mono:field')
    reuse.run(ctx, lentil, 'C03', 'seg=mono:field')
    argforms.run(ctx, lentil, 'C03', 'seg=mono:field')
    corners.run(ctx, lentil, 'C03', 'seg=mono:field')
    rng = ctx.rng
    n = ctx.count(110, 800)
    hi = 22 if ctx.tier == 'quick' else 40
    for i in range(n):
        wl, z, dx, du, os_ = gen.optics(rng)
        shape = gen.rshape(rng, 4, hi)
        A = gen.support(rng, shape, kind=int(rng.choice([0, 1, 3, 4, 5])))
        amp = gen.amplitude(rng, A)
        if rng.random() < 0.3:
            amp = rng.uniform(0.3, 1.3, size=shape)      # amplitude not zero outside the mask: the mask must cut it
        opd = gen.opd(rng, shape, wl)
        kk = [1, 2, int(rng.integers(3, 9))][int(rng.integers(0, 3))]
        segs, style = gen.partition(rng, A, kk)
        k = len(segs)
        chain = 1 if rng.random() < 0.5 else 2
        seg2 = chain == 2 and rng.random() < 0.5
        bks = ['k=1' if k == 1 else ('k=2' if k == 2 else 'k=3-8'), f'style:{style}', f'chain:{chain}']
        if k > 1 and gen.bboxes_overlap(segs):
            bks.append('bbox-overlap')
        if seg2:
            bks.append('chain:2-segmented')
        desc = {'shape': list(shape), 'k': k, 'style': style, 'chain': chain, 'seg2': bool(seg2), 'wl': wl, 'z': z,
                'dx': dx, 'du': du, 'os': os_, 'A': probe.fp_array(A)[:10], 'segs': probe.fp_array(segs)[:10]}
        ctx.case(desc, bks, nontrivial=k >= 2)
        mono = lentil.Pupil(amplitude=amp, opd=opd, mask=A.astype(float), pixelscale=dx, focal_length=z)
        segd = lentil.Pupil(amplitude=amp, opd=opd, mask=segs.astype(float), pixelscale=dx, focal_length=z)
        try:
            wm = lentil.Wavefront(wl) * mono
            ws = lentil.Wavefront(wl) * segd
        except Exception as e:
            ctx.check(False, 'seg=mono:field', f'multiply|raises={type(e).__name__}',
                      f'segmented/monolithic plane multiply raised {type(e).__name__}: {e}', desc)
            continue
        _cmp(ctx, 'seg=mono:field', 'after-plane', 'segmented and monolithic description differ after the plane', wm, ws, desc)
        if chain == 2:
            B = gen.support(rng, shape)
            if not (A & B).any():
                B = B | A
            opd2 = gen.opd(rng, shape, wl)
            amp2 = gen.amplitude(rng, B)
            same_boxes = seg2 and k >= 2 and i % 3 == 0
            if same_boxes:
                # a second segmentation of the same aperture whose segments have pairwise the SAME bounding boxes as the first
                # plane's but other members (interlocking combs, pinwheels): samples change hands between two segments only
                # where both boxes keep their extent
                B = A.copy()
                amp2 = gen.amplitude(rng, B)
                lab = np.zeros(shape, int) - 1
                for n_, sg_ in enumerate(segs):
                    lab[sg_] = n_
                def boxes_(lb):
                    out_ = []
                    for n_ in range(k):
                        q_ = np.argwhere(lb == n_)
                        out_.append(None if not len(q_) else (q_[:, 0].min(), q_[:, 0].max(), q_[:, 1].min(), q_[:, 1].max()))
                    return out_
                b0 = boxes_(lab)
                idxA = np.argwhere(A)
                swaps = 0
                for _ in range(6 * len(idxA)):
                    pa, pb = idxA[rng.integers(0, len(idxA), 2)]
                    la, lb_ = lab[pa[0], pa[1]], lab[pb[0], pb[1]]
                    if la == lb_:
                        continue
                    lab2 = lab.copy()
                    lab2[pa[0], pa[1]], lab2[pb[0], pb[1]] = lb_, la
                    if boxes_(lab2) == b0:
                        lab = lab2
                        swaps += 1
                segsB = np.array([lab == n_ for n_ in range(k)])
                if swaps:
                    ctx.bucket('chain:2-same-boxes')
            if seg2 and same_boxes:
                p2m = lentil.Pupil(amplitude=amp2, opd=opd2, mask=B.astype(float), pixelscale=dx, focal_length=z)
                p2s = lentil.Pupil(amplitude=amp2, opd=opd2, mask=segsB.astype(float), pixelscale=dx, focal_length=z)
            elif seg2:
                segsB, _ = gen.partition(rng, B, int(rng.integers(2, 6)))
                p2m = lentil.Pupil(amplitude=amp2, opd=opd2, mask=B.astype(float), pixelscale=dx, focal_length=z)
                p2s = lentil.Pupil(amplitude=amp2, opd=opd2, mask=segsB.astype(float), pixelscale=dx, focal_length=z)
            else:
                p2m = p2s = lentil.Pupil(amplitude=amp2, opd=opd2, mask=B.astype(float), pixelscale=dx, focal_length=z)
            try:
                wm = wm * p2m
                ws = ws * p2s
            except Exception as e:
                ctx.check(False, 'seg=mono:field', f'multiply2|raises={type(e).__name__}',
                          f'second plane multiply raised {type(e).__name__}: {e}', desc)
                continue
            _cmp(ctx, 'seg=mono:field', 'after-plane-2', 'segmented and monolithic description differ after a second masked plane',
                 wm, ws, desc)
        # coherent sum of the segment fields
        with probe.quiet():
            try:
                inten = ws.intensity
                coh = np.abs(rm.render([(f.data, f.offset) for f in ws.data if f.data.size], ws.shape)) ** 2
                ctx.close('coherent-sum', inten, coh, TOL, 'coherent|pupil',
                          'intensity is not |coherent sum of the segment fields|^2', desc,
                          scale=max(float(coh.max()) if coh.size else 0, 1e-300))
            except Exception as e:
                ctx.check(False, 'coherent-sum', f'coherent|raises={type(e).__name__}', str(e), desc)
        if not wm.data or not ws.data:
            ctx.skip('empty wavefront')
            continue
        # propagate both descriptions with identical settings
        oshape = gen.rshape(rng, 2, 12)
        pshape = None if rng.random() < 0.5 else (int(rng.integers(1, oshape[0] + 1)), int(rng.integers(1, oshape[1] + 1)))
        kw = dict(shape=oshape, oversample=os_)
        if pshape is not None:
            kw['prop_shape'] = pshape
        if rng.random() < 0.3:
            kw['mask'] = gen.support(rng, (oshape[0] * os_, oshape[1] * os_)).astype(float)
        try:
            om = lentil.propagate_dft(wm, du, **kw)      # online model check on both
            osg = lentil.propagate_dft(ws, du, **kw)
        except Exception as e:
            ctx.check(False, 'seg=mono:propagated', f'propagate|raises={type(e).__name__}',
                      f'propagation raised {type(e).__name__}: {e}', desc)
            continue
        ctx.bucket('propagated')
        m = propmodel.expected_dft(wm, propmodel.bind_dft((wm, du), kw))
        tol = m['tol'] * (1 + k) if isinstance(m, dict) and 'tol' in m else None
        _cmp(ctx, 'seg=mono:propagated', 'propagated', 'segmented and monolithic description differ after propagation',
             om, osg, desc, scale_tol=tol)
        with probe.quiet():
            inten = osg.intensity
            coh = np.abs(rm.render([(f.data, f.offset) for f in osg.data if f.data.size], osg.shape)) ** 2
        ctx.close('coherent-sum', inten, coh, TOL, 'coherent|image',
                  'image intensity is not |coherent sum of the per-segment fields|^2 (incoherent merge?)', desc,
                  scale=max(float(coh.max()) if coh.size else 0, 1e-300))
        _accumulate(ctx, rng, osg)

        # the FFT propagator on both descriptions, padded internally and through a caller-supplied scratch buffer
        if i % 2 == 0:
            dxs = np.broadcast_to(np.asarray(dx, float), (2,))
            osf = int(rng.integers(1, 4))
            Gf = max(shape) + int(rng.integers(1, 12))
            duf = (wl * z * osf / (dxs[0] * Gf), wl * z * osf / (dxs[1] * Gf))
            ctx.bucket('fft')
            try:
                fm = lentil.propagate_fft(wm, duf, oversample=osf)
                fs = lentil.propagate_fft(ws, duf, oversample=osf)
                mm = propmodel.expected_fft(wm, propmodel.bind_fft((wm, duf), dict(oversample=osf)))
                tolf = mm['tol'] * (1 + k) if isinstance(mm, dict) else None
                _cmp(ctx, 'seg=mono:fft', 'fft', 'segmented and monolithic description differ after FFT propagation', fm, fs, desc,
                     scale_tol=tolf)
                ctx.bucket('fft:scratch')
                sc = rng.normal(size=(Gf + int(rng.integers(0, 5)), Gf + int(rng.integers(0, 5)))) + 0j
                fs2 = lentil.propagate_fft(ws, duf, oversample=osf, scratch=sc)
                _cmp(ctx, 'seg=mono:fft', 'fft-scratch', 'segmented description through a scratch buffer differs from the monolithic FFT result',
                     fm, fs2, desc, scale_tol=tolf)
            except Exception as e:
                ctx.check(False, 'seg=mono:fft', f'fft|raises={type(e).__name__}', str(e), desc)

        # the planes have been used by now: their resampled copies are planes like any other - cropped sub-arrays and their offsets
        # belong to the resampled arrays, for the global and for the per-segment description alike
        if i % 4 == 2:
            sfac = float(rng.choice([2.0, 1.5, 3.0]))      # (enlarging: no segment can vanish from the resampled mask)
            ctx.bucket('rescale-after-use')
            try:
                with probe.quiet():
                    rm_, rs_ = mono.rescale(sfac), segd.rescale(sfac)
                    fresh = lentil.Pupil(amplitude=amp, opd=opd, mask=segs.astype(float), pixelscale=dx, focal_length=z).rescale(sfac)
                wrm, wrs, wrf = lentil.Wavefront(wl) * rm_, lentil.Wavefront(wl) * rs_, lentil.Wavefront(wl) * fresh
                _cmp(ctx, 'seg=mono:field', 'after-rescale', 'segmented and monolithic description differ after the (already used) planes were rescaled',
                     wrm, wrs, dict(desc, scale=sfac))
                _cmp(ctx, 'seg=mono:field', 'after-rescale|used-vs-fresh', 'a rescaled plane that had been used before differs from the same plane rescaled fresh',
                     wrf, wrs, dict(desc, scale=sfac))
            except Exception as e:
                ctx.check(False, 'seg=mono:field', f'rescale-after-use|raises={type(e).__name__}', str(e), desc)

        # chains that carry tilt metadata: tilted wavefront and/or Tilt planes around the (segmented | monolithic) pupil
        if i % 2 == 1:
            ctx.bucket('tilt-chain')
            dus = np.broadcast_to(np.asarray(du, float), (2,))
            Sx = (oshape[0] * os_, oshape[1] * os_)
            def ang():
                sp = rng.uniform(-0.15, 0.15, size=2) * np.array(Sx)
                return float(sp[0] * dus[0] / (z * os_)), float(-sp[1] * dus[1] / (z * os_))
            t0, t1, t2 = ang(), ang(), ang()
            how = int(rng.integers(0, 3))
            def chain(pupil):
                w = lentil.Wavefront(wl, tilt=list(t0)) if how != 1 else lentil.Wavefront(wl)
                if how == 1:
                    w = w * lentil.Pupil(amplitude=np.ones(shape), pixelscale=dx, focal_length=z) * lentil.Tilt(x=t0[0], y=t0[1])
                w = w * pupil
                w = w * lentil.Tilt(x=t1[0], y=t1[1])
                if how == 2:
                    w = w * lentil.Tilt(x=t2[0], y=t2[1])
                return w
            try:
                otm = lentil.propagate_dft(chain(mono), du, shape=oshape, oversample=os_)
                ots = lentil.propagate_dft(chain(segd), du, shape=oshape, oversample=os_)
                _cmp(ctx, 'seg=mono:propagated', 'tilt-chain', 'segmented and monolithic description differ in a chain carrying tilt metadata',
                     otm, ots, dict(desc, how=how), scale_tol=None if tol is None else 32 * tol)   # shifted, sub-pixel windows
            except Exception as e:
                ctx.check(False, 'seg=mono:propagated', f'tilt-chain|raises={type(e).__name__}', str(e), desc)
        # per-segment fitted tilts with a small propagation window: segment images land on different, chain-overlapping
        # windows and must still add coherently
        if i % 3 == 0 and k >= 2:
            ctx.bucket('segment-tilts')
            dus = np.broadcast_to(np.asarray(du, float), (2,))
            dxs = np.broadcast_to(np.asarray(dx, float), (2,))
            Sx = (oshape[0] * os_, oshape[1] * os_)
            rr = (np.arange(shape[0]) - shape[0] // 2)[:, None]
            cc = (np.arange(shape[1]) - shape[1] // 2)[None, :]
            opdt = opd.copy()
            for sg in segs:
                sp = rng.uniform(-0.3, 0.3, size=2) * np.array(Sx)
                opdt = opdt + (sp[0] * dus[0] / (z * os_) * rr * dxs[0] + sp[1] * dus[1] / (z * os_) * cc * dxs[1]) * sg
            try:
                pf = lentil.Pupil(amplitude=amp, opd=opdt, mask=segs.astype(float), pixelscale=dx, focal_length=z).fit_tilt()
                psm = (max(1, oshape[0] // 3), max(1, oshape[1] // 3))
                oft = lentil.propagate_dft(lentil.Wavefront(wl) * pf, du, shape=oshape, prop_shape=psm, oversample=os_)
                with probe.quiet():
                    inten = oft.intensity
                    coh = np.abs(rm.render([(f.data, f.offset) for f in oft.data if f.data.size], oft.shape)) ** 2
                ctx.close('coherent-sum', inten, coh, TOL, 'coherent|segment-tilts',
                          'segment images on different (overlapping) windows are not added coherently', desc,
                          scale=max(float(coh.max()) if coh.size else 0, 1e-300))
                _accumulate(ctx, rng, oft)
                live = [f for f in oft.data if f.data.size]
                if len(live) >= 3:
                    # some windows overlap while others stand alone: neither one group nor all separate
                    boxes = [rm.bbox_of([(f.data.shape, f.offset)]) for f in live]
                    ov = [[a[0] <= b[1] and a[1] >= b[0] and a[2] <= b[3] and a[3] >= b[2] for b in boxes] for a in boxes]
                    npairs = sum(ov[a][b] for a in range(len(live)) for b in range(a + 1, len(live)))
                    if 0 < npairs < len(live) * (len(live) - 1) // 2:
                        ctx.bucket('groups:partial')
                # the same optics as ONE global mask with the tilts left in the OPD (nothing fitted): wherever every
                # segment's displaced window and the monolithic window were evaluated, the complex fields must agree
                pm = lentil.Pupil(amplitude=amp, opd=opdt, mask=A.astype(float), pixelscale=dx, focal_length=z)
                om2 = lentil.propagate_dft(lentil.Wavefront(wl) * pm, du, shape=oshape, prop_shape=psm, oversample=os_)
                sets = [rm.coordset(f.data.shape, f.offset) for f in oft.data if f.data.size] + \
                       [rm.coordset(f.data.shape, f.offset) for f in om2.data if f.data.size]
                if len([f for f in oft.data if f.data.size]) == k and sets:
                    common = set.intersection(*sets) & rm.coordset(Sx, (0, 0))
                    if common:
                        pts = np.array(sorted(common))
                        with probe.quiet():
                            fa, fb = om2.field, oft.field
                        ia, ja = pts[:, 0] + Sx[0] // 2, pts[:, 1] + Sx[1] // 2
                        mref = propmodel.expected_dft(lentil.Wavefront(wl) * pm, propmodel.bind_dft((None, du), dict(shape=oshape, oversample=os_)))
                        t2 = (mref['tol'] * 64 * (1 + k)) if isinstance(mref, dict) and 'tol' in mref else 1e-12
                        ctx.close('seg=mono:propagated', fb[ia, ja], fa[ia, ja], 1.0, 'fitted-segments-vs-global|field',
                                  'a segmented aperture with fitted per-segment tilts differs from the same optics under one global mask',
                                  dict(desc, samples=len(pts)), scale=t2)
                        ctx.bucket('fitted-vs-global')
            except Exception as e:
                ctx.check(False, 'coherent-sum', f'segment-tilts|raises={type(e).__name__}', str(e), desc)

        # same optics zero-padded into a larger array, origin kept
        if i % 2 == 0:
            big = (shape[0] + int(rng.integers(1, 7)), shape[1] + int(rng.integers(1, 7)))
            ctx.case(dict(desc, padded=list(big)), ['padded'])
            segp = lentil.Pupil(amplitude=embed(amp, big), opd=embed(opd, big), mask=embed(segs.astype(float), big),
                                pixelscale=dx, focal_length=z)
            seg0 = lentil.Pupil(amplitude=amp, opd=opd, mask=segs.astype(float), pixelscale=dx, focal_length=z)
            try:
                o0 = lentil.propagate_dft(lentil.Wavefront(wl) * seg0, du, **kw)
                op = lentil.propagate_dft(lentil.Wavefront(wl) * segp, du, **kw)
            except Exception as e:
                ctx.check(False, 'pad=embed', f'padded|raises={type(e).__name__}', str(e), desc)
                continue
            _cmp(ctx, 'pad=embed', 'padded', 'zero-padding the pupil arrays (origin kept) changed the propagated result',
                 o0, op, dict(desc, padded=list(big)), scale_tol=tol)
