"""C12 — Zernike fit, compose and remove are mutually inverse for any mode set.

Relational driver with an independent anchor: the OPD is built from the monitor's own evaluation of the basis
(textbook modes on the coordinates in use) *and* from zernike_compose; zernike_fit must return the
coefficients for every subset and ordering of modes; zernike_remove must subtract exactly the least-squares
component (own lstsq on the basis), be idempotent and annihilate OPDs made only of the removed modes.
"""
import sys

import numpy as np

from vp import gen, probe, refmodels as rm
from vp import defaults
from vp import reuse
from vp import forms as argforms
from vp import corners

RULE = ('seeded generator: circular / hexagon-like / segmented / off-centre / speckled masks 8..28 per side, random '
        'coefficient vectors, random non-empty subsets of modes 1..21 in random order (contiguous 1..k, non-contiguous, '
        'unordered, single high mode), both normalisations, default and caller-supplied (rho, theta).  Cases whose basis has '
        'condition number >= 1e8 on the mask are skipped (property: linearly independent modes).  distinct = distinct '
        '(mask hash, mode list, flags) descriptors; non-trivial = at least two masked samples per mode.')
ASSUMPTIONS = ['modes linearly independent on the mask (condition number < 1e8), as the property requires']
PLAN = {'quick': {'gen': 8}, 'thorough': {'gen': 16, 'tests': 1}}
REQUIRED_BUCKETS = ['defaults', 'corners', 'reuse', 'forms', 'modes:contiguous', 'modes:noncontiguous', 'modes:unordered', 'modes:single-high', 'normalize:True',
                    'normalize:False', 'coords:default', 'coords:supplied', 'mask:circular', 'mask:segmented', 'mask:offcentre', 'mask:weighted', 'mask:subaperture', 'cond>1e4', 'coords:switched', 'outside:fill', 'coeffs:vector-forms', 'modes:very-high', 'modes:permuted-prefix', 'modes:many', 'modes:array-forms', 'coords:half-supplied', 'coords:narrow-float', 'remove:ill-conditioned']
REQUIRED_ANCHORS = ['anchor:zernike_fit', 'anchor:zernike_remove', 'anchor:zernike_compose', 'anchor:zernike_basis']
REQUIRED_ORACLES = ['compose=own-basis', 'fit=coeffs', 'remove:residual-coeffs=0', 'remove=lstsq', 'remove:idempotent',
                    'remove:pure->0']


def zmod():
    return sys.modules['lentil.zernike']


def anchors(lentil):
    z = zmod()
    return [('zernike_fit', z.zernike_fit), ('zernike_remove', z.zernike_remove), ('zernike_compose', z.zernike_compose),
            ('zernike_basis', z.zernike_basis)]


_NOLL = rm.noll_table(1400)


def own_basis(modes, mask, rho, theta, normalize):
    """Textbook modes (sign convention of sine modes taken from lentil so that coefficients are comparable:
    Z_odd = R*sin(m*theta) with signed m < 0)."""
    out = []
    for j in modes:
        n, m, par = _NOLL[int(j)]
        out.append(np.asarray(rm.zernike_value(n, m, par, rho, theta, normalize, sine_sign=-1, exact=n > 16), float) * (mask != 0))
    return np.array(out)


def make_mask(rng, shape):
    kind = int(rng.integers(0, 5))
    ii, jj = np.indices(shape)
    if kind == 0:      # circular, centred on the origin sample
        r = np.hypot(ii - shape[0] // 2, jj - shape[1] // 2)
        return r <= rng.uniform(0.35, 0.5) * min(shape), 'circular'
    if kind == 1:      # hexagon-like (intersection of three slabs)
        R = rng.uniform(0.3, 0.48) * min(shape)
        y, x = ii - shape[0] // 2, jj - shape[1] // 2
        m = np.ones(shape, bool)
        for k in range(3):
            th = k * np.pi / 3
            m &= np.abs(x * np.cos(th) + y * np.sin(th)) <= R * np.sqrt(3) / 2
        return m, 'hex'
    if kind == 2:      # segmented: union of several discs
        m = np.zeros(shape, bool)
        for _ in range(int(rng.integers(2, 5))):
            r0, c0 = rng.uniform(0.2, 0.8) * shape[0], rng.uniform(0.2, 0.8) * shape[1]
            m |= np.hypot(ii - r0, jj - c0) <= rng.uniform(0.12, 0.25) * min(shape)
        return m, 'segmented'
    if kind == 3:      # off-centre disc, possibly clipped by the array edge
        r0, c0 = rng.uniform(0.1, 0.9) * shape[0], rng.uniform(0.1, 0.9) * shape[1]
        return np.hypot(ii - r0, jj - c0) <= rng.uniform(0.25, 0.45) * min(shape), 'offcentre'
    return gen.support(rng, shape, kind=2), 'speckle'


def ill_conditioned(ctx, lentil, rng):
    """One segment of a hexagonal aperture described in the coordinates of the whole pupil, 22 ... 37 modes: linearly independent
    (condition 1e8 ... 1e11, five orders of magnitude inside double precision) but far from orthogonal.  The coefficients of such a
    fit are only good to cond * eps - nothing is asked of them - but the REMOVED component is a projection, which a least-squares
    solver delivers to rounding whatever the condition: an OPD made only of the modes goes to zero, and removing twice changes
    nothing."""
    for i in range(ctx.count(6, 30)):
        rings = int(rng.integers(2, 4))
        segs = np.asarray(lentil.hex_segments(rings=rings, seg_radius=int(rng.integers(14, 22)), seg_gap=2, flatten=False), float)
        with probe.quiet():
            rho, theta = lentil.zernike_coordinates(segs.sum(axis=0))
        seg = segs[-1 - int(rng.integers(0, 3))]
        mask = seg != 0
        k = int(rng.integers(22, 38))
        modes = list(range(1, k + 1))
        B = own_basis(modes, mask, np.asarray(rho, float), np.asarray(theta, float), True)
        sv = np.linalg.svd(B[:, mask].T, compute_uv=False)
        cond = float(sv[0] / sv[-1]) if sv[-1] > 0 else np.inf
        if not (1e8 <= cond <= 1e11):
            ctx.skip('ill-conditioned scenario: condition outside 1e8 ... 1e11')
            continue
        c = rng.normal(size=k) * 1e-8
        pure = np.tensordot(c, B, axes=1)
        desc = {'ill-conditioned': k, 'rings': rings, 'cond': cond, 'shape': list(mask.shape)}
        ctx.case(desc, ['remove:ill-conditioned'])
        # what a least-squares solver leaves of the same system (the yardstick's own rounding: 1e-15 ... 1e-13)
        xr = np.linalg.lstsq(B[:, mask].T, pure[mask], rcond=None)[0]
        floor_ = float(np.abs(pure[mask] - B[:, mask].T @ xr).max())
        sc = float(np.abs(pure).max())
        try:
            r1 = np.asarray(lentil.zernike_remove(pure, seg, modes, rho=rho, theta=theta), float)
            r2 = np.asarray(lentil.zernike_remove(r1, seg, modes, rho=rho, theta=theta), float)
            ctx.close('remove:pure->0', r1, np.zeros(mask.shape), 1e-9, 'remove|pure|ill-conditioned',
                      'an OPD made only of the removed modes (independent, condition 1e8 ... 1e11) is not reduced to zero: the removed component '
                      'is not the least-squares projection to rounding', dict(desc, lstsq_leaves=floor_ / sc), scale=sc)
            ctx.close('remove:idempotent', r2, r1, 1e-9, 'remove|idempotent|ill-conditioned',
                      'removing the same (independent, ill-conditioned) modes twice changes the residual', desc, scale=sc)
        except Exception as e:
            ctx.check(False, 'remove:pure->0', f'remove|ill-conditioned|raises={type(e).__name__}', str(e), desc)


def workload(ctx, lentil):
    defaults.run(ctx, lentil, 'C12', 'compose=own-basis')
    reuse.run(ctx, lentil, 'C12', 'compose=own-basis')
    argforms.run(ctx, lentil, 'C12', 'compose=own-basis')
    corners.run(ctx, lentil, 'C12', 'compose=own-basis')
    rng = ctx.rng
    Z = zmod()
    if ctx.shard % 2 == 0:
        ill_conditioned(ctx, lentil, rng)
    n = ctx.count(120, 900)
    for i in range(n):
        shape = gen.rshape(rng, 8, 28)
        mask, mk = make_mask(rng, shape)
        if mask.sum() < 30:
            ctx.skip('mask too small')
            continue
        sub = (i % 4 == 3)
        if sub:
            # a small off-centre sub-aperture fitted in the coordinates of the full aperture: modes that are strongly
            # correlated on the mask but still independent (condition number 1e3 .. 1e8)
            shape = (int(rng.integers(24, 40)),) * 2
            ii_, jj_ = np.indices(shape)
            r0_, c0_ = shape[0] * rng.uniform(0.25, 0.75), shape[1] * rng.uniform(0.25, 0.75)
            mask = np.hypot(ii_ - r0_, jj_ - c0_) <= rng.uniform(0.12, 0.2) * shape[0]
            mk = 'subaperture'
        sel = int(rng.integers(0, 4))
        if i % 8 == 5 and not sub:
            sel = 5          # the first k modes in another order
        elif i % 8 == 1 and not sub:
            sel = 6          # more modes than any internal block size, on a mask large enough to resolve them
            shape = (int(rng.integers(26, 34)),) * 2
            mask, mk = make_mask(rng, shape)
            if mask.sum() < 200:
                ii_, jj_ = np.indices(shape)
                mask, mk = np.hypot(ii_ - shape[0] / 2, jj_ - shape[1] / 2) <= 0.45 * shape[0], 'circular'
        if sub:
            modes = list(range(1, int(rng.integers(8, 22)) + 1)); mb = 'modes:contiguous'
        elif sel == 0:
            modes = list(range(1, int(rng.integers(1, 16)) + 1)); mb = 'modes:contiguous'
        elif sel == 1:
            modes = sorted(rng.choice(np.arange(1, 22), size=int(rng.integers(1, 9)), replace=False).tolist()); mb = 'modes:noncontiguous'
            if modes == list(range(1, len(modes) + 1)):
                modes[-1] = modes[-1] + 3
        elif sel == 2:
            modes = rng.permutation(rng.choice(np.arange(1, 22), size=int(rng.integers(2, 9)), replace=False)).tolist(); mb = 'modes:unordered'
            if modes == sorted(modes):
                modes = modes[::-1]
        elif sel == 5:
            k_ = int(rng.integers(2, 9))
            modes = rng.permutation(np.arange(1, k_ + 1)).tolist(); mb = 'modes:permuted-prefix'
            if modes == sorted(modes):
                modes = modes[1:] + modes[:1]
        elif sel == 6:
            k_ = int(rng.integers(33, 56))
            modes = list(range(1, k_ + 1)); mb = 'modes:many'
            if i % 16 == 1:
                modes = rng.permutation(modes).tolist()
        else:
            modes = [int(rng.integers(4, 37))]; mb = 'modes:single-high'
            if i % 3 == 0:
                # a high-order mode together with a few low ones (the basis is evaluated stably at every order)
                modes = [int(rng.integers(200, 1327))] + rng.permutation([1, 2, 3, 4]).tolist()[:int(rng.integers(0, 4))]
                ctx.bucket('modes:very-high')
        normalize = bool(rng.random() < 0.5)
        supplied = bool(rng.random() < 0.5) or sub
        if supplied:
            ii, jj = np.indices(shape)
            r0, c0 = shape[0] / 2 + rng.uniform(-2, 2), shape[1] / 2 + rng.uniform(-2, 2)
            rad = np.hypot(ii - r0, jj - c0)
            rho = rad / (rad[mask].max() if not sub else 0.5 * shape[0])
            theta = np.arctan2(ii - r0, jj - c0) + rng.uniform(0, 2 * np.pi)
            kw = dict(rho=rho, theta=theta)
            if i % 5 == 3:
                # coordinate arrays kept in single / half precision (a stored coordinate cube): the same numbers as doubles
                nt_ = [np.float32, np.float16][(i // 5) % 2]
                rho_n, theta_n = rho.astype(nt_), np.mod(theta, 2 * np.pi).astype(nt_)
                rho, theta = rho_n.astype(float), theta_n.astype(float)
                kw = dict(rho=rho_n, theta=theta_n)
                ctx.bucket('coords:narrow-float')
        else:
            with probe.quiet():
                rho, theta = lentil.zernike_coordinates(mask.astype(float))
            kw = {}
        B = own_basis(modes, mask, rho, theta, normalize)
        Bm = B[:, mask].T
        sv = np.linalg.svd(Bm, compute_uv=False)
        cond = sv[0] / sv[-1] if sv[-1] > 0 else np.inf
        desc = {'shape': list(shape), 'mask': mk, 'mh': probe.fp_array(mask)[:10], 'modes': [int(m) for m in modes],
                'normalize': normalize, 'supplied': supplied, 'cond': float(cond)}
        if not np.isfinite(cond) or cond >= 1e8:
            ctx.skip('basis not linearly independent on the mask (cond >= 1e8)')
            continue
        ctx.case(desc, [mb, f'normalize:{normalize}', 'coords:supplied' if supplied else 'coords:default', f'mask:{mk}']
                 + (['cond>1e4'] if cond > 1e4 else []))
        coeffs = rng.normal(size=len(modes)) * 1e-8
        opd_own = np.tensordot(coeffs, B, axes=1)
        # compose places coefficient k at Noll index k+1
        full = np.zeros(max(modes))
        for c, j in zip(coeffs, modes):
            full[j - 1] += c
        maskf = mask.astype(float)
        if rng.random() < 0.4:
            # masks enter only through their support: antialiased / weighted masks (values other than 0 and 1) are legal
            maskf = maskf * rng.uniform(0.2, 3.0, size=shape)
            ctx.bucket('mask:weighted')
        full_arg = full
        if i % 6 == 1:
            # the coefficient vector as a row / column matrix, a list or a tuple
            full_arg = [np.array([full]), np.array([full]).T, list(full), tuple(full)][(i // 6) % 4]
            ctx.bucket('coeffs:vector-forms')
        try:
            opd_l = lentil.zernike_compose(maskf, full_arg, normalize=normalize, **kw)
        except Exception as e:
            ctx.check(False, 'compose=own-basis', f'compose|raises={type(e).__name__}', str(e), desc)
            continue
        sc = max(float(np.abs(opd_own).max()), 1e-300)
        ctx.close('compose=own-basis', opd_l, opd_own, 1e-9, 'compose|value',
                  'zernike_compose differs from the sum of coefficient times textbook mode', desc, scale=sc)
        rtol = max(1e-10, cond * 1e-13)
        modes_arg = modes
        if i % 7 == 2:
            # the list of modes in the forms a caller may hold it in: row / column matrix, tuple, unsigned 64-bit array
            modes_arg = [np.array([modes]), np.array([modes]).T, tuple(modes), np.array(modes, dtype=np.uint64), np.array(modes, dtype=np.int16)][(i // 7) % 5]
            ctx.bucket('modes:array-forms')
            try:
                resf = np.asarray(lentil.zernike_remove(opd_own, maskf, modes_arg, **kw), float) if normalize else None
                if resf is not None:
                    ctx.close('remove:pure->0', resf, np.zeros(shape), rtol, 'remove|pure|modes-array-form',
                              'an OPD made only of the removed modes is not reduced to zero when the modes are given as a matrix / tuple / uint64 array',
                              dict(desc, form=type(modes_arg).__name__ + str(np.shape(modes_arg))), scale=float(np.abs(opd_own).max()) + 1e-300)
            except Exception as e:
                ctx.check(False, 'remove:pure->0', f'remove|modes-array-form|raises={type(e).__name__}', str(e),
                          dict(desc, form=type(modes_arg).__name__ + str(np.shape(modes_arg)) + str(getattr(modes_arg, 'dtype', ''))))
        try:
            fit = lentil.zernike_fit(gen.layout(rng, opd_own), gen.layout(rng, maskf), modes_arg, normalize=normalize, **kw)
            ctx.close('fit=coeffs', np.asarray(fit, float).ravel() if modes_arg is not modes else np.asarray(fit, float), coeffs, rtol, 'fit|coeffs',
                      'fitting a composed OPD does not return its coefficients', desc, scale=float(np.abs(coeffs).max()))
        except Exception as e:
            ctx.check(False, 'fit=coeffs', f'fit|raises={type(e).__name__}', str(e), desc)
        if i % 9 == 4 and not sub:
            # half a coordinate system (an azimuth without a radius, or the reverse): either refused, or used together with the
            # default other half - never silently replaced by the default frame
            ctx.bucket('coords:half-supplied')
            with probe.quiet():
                rho_d, theta_d = lentil.zernike_coordinates(mask.astype(float))
            th_h = np.asarray(theta_d, float) + float(rng.uniform(0.3, 2.5))
            rh_h = np.asarray(rho_d, float) * float(rng.uniform(0.5, 0.9))
            for nm_, kwh, (rho_h, theta_h) in (('theta-only', dict(theta=th_h), (rho_d, th_h)), ('rho-only', dict(rho=rh_h), (rh_h, theta_d))):
                Bh = own_basis(modes, mask, rho_h, theta_h, normalize)
                svh = np.linalg.svd(Bh[:, mask].T, compute_uv=False)
                if not (svh[-1] > 0 and svh[0] / svh[-1] < 1e8):
                    continue
                opd_h = np.tensordot(coeffs, Bh, axes=1)
                for fn_ in ('fit', 'compose'):
                    try:
                        if fn_ == 'fit':
                            got_h = np.asarray(lentil.zernike_fit(opd_h, maskf, modes, normalize=normalize, **kwh), float)
                            ctx.close('fit=coeffs', got_h, coeffs, max(1e-10, svh[0] / svh[-1] * 1e-13), f'fit|coeffs|{nm_}|ignored',
                                      'half a coordinate system is silently replaced by the default frame in zernike_fit', dict(desc, given=nm_),
                                      scale=float(np.abs(coeffs).max()))
                        else:
                            got_h = np.asarray(lentil.zernike_compose(maskf, full, normalize=normalize, **kwh), float)
                            ctx.close('compose=own-basis', got_h, opd_h, 1e-9, f'compose|value|{nm_}|ignored',
                                      'half a coordinate system is silently replaced by the default frame in zernike_compose', dict(desc, given=nm_),
                                      scale=max(float(np.abs(opd_h).max()), 1e-300))
                    except (ValueError, TypeError):
                        ctx.check(True, 'fit=coeffs' if fn_ == 'fit' else 'compose=own-basis', 'ok', 'ok')
        if i % 5 == 2:
            # measured maps carry a fill value (or NaN) where there is no aperture: samples outside the mask are not part of
            # the least-squares problem
            fill = [-32768.0, np.nan, 1.0, 9999.0][(i // 5) % 4]
            ctx.bucket('outside:fill')
            try:
                fitf = lentil.zernike_fit(np.where(mask, opd_own, fill), maskf, modes, normalize=normalize, **kw)
                ctx.close('fit=coeffs', np.asarray(fitf, float), coeffs, rtol, 'fit|coeffs|fill-outside-mask',
                          'values of the OPD array outside the mask change the fitted coefficients', dict(desc, fill=repr(fill)),
                          scale=float(np.abs(coeffs).max()))
                if normalize:
                    resf = np.asarray(lentil.zernike_remove(np.where(mask, opd_own, fill), maskf, modes, **kw), float)
                    ctx.close('remove:pure->0', resf[mask], np.zeros(int(mask.sum())), rtol, 'remove|pure|fill-outside-mask',
                              'values of the OPD array outside the mask change the residual inside it', dict(desc, fill=repr(fill)),
                              scale=float(np.abs(opd_own).max()))
            except Exception as e:
                ctx.check(False, 'fit=coeffs', f'fit-fill|raises={type(e).__name__}', str(e), desc)
        # the same mask, modes and normalisation in the *other* coordinate system right afterwards (and back): a fit must
        # depend on its current arguments only, not on which coordinates an earlier call on the same mask used
        if i % 2 == 0 and not sub:
            try:
                if supplied:
                    with probe.quiet():
                        rho2, theta2 = lentil.zernike_coordinates(maskf)
                    kw2 = {}
                else:
                    ii2, jj2 = np.indices(shape)
                    r2, c2 = shape[0] / 2 + rng.uniform(-3, 3), shape[1] / 2 + rng.uniform(-3, 3)
                    rad2 = np.hypot(ii2 - r2, jj2 - c2)
                    rho2, theta2 = rad2 / rad2[mask].max(), np.arctan2(ii2 - r2, jj2 - c2) + 0.7
                    kw2 = dict(rho=rho2, theta=theta2)
                B2 = own_basis(modes, mask, rho2, theta2, normalize)
                sv2 = np.linalg.svd(B2[:, mask].T, compute_uv=False)
                if sv2[-1] > 0 and sv2[0] / sv2[-1] < 1e8:
                    ctx.bucket('coords:switched')
                    opd2 = np.tensordot(coeffs, B2, axes=1)
                    fit2 = lentil.zernike_fit(opd2, maskf, modes, normalize=normalize, **kw2)
                    r2tol = max(1e-10, sv2[0] / sv2[-1] * 1e-13)
                    ctx.close('fit=coeffs', np.asarray(fit2, float), coeffs, r2tol, 'fit|coeffs|after-other-coordinates',
                              'a fit on the same mask and modes gives wrong coefficients after a fit that used other coordinates', desc,
                              scale=float(np.abs(coeffs).max()))
                    fit3 = lentil.zernike_fit(opd_own, maskf, modes, normalize=normalize, **kw)
                    ctx.close('fit=coeffs', np.asarray(fit3, float), coeffs, rtol, 'fit|coeffs|back-to-first-coordinates',
                              'a fit repeated after a fit in other coordinates no longer returns the coefficients', desc,
                              scale=float(np.abs(coeffs).max()))
                    if normalize:
                        res_sw = np.asarray(lentil.zernike_remove(opd2, maskf, modes, **kw2), float)
                        ctx.close('remove:pure->0', res_sw, np.zeros(shape), r2tol, 'remove|pure|after-other-coordinates',
                                  'an OPD made only of the removed modes is not reduced to zero after calls that used other coordinates',
                                  desc, scale=float(np.abs(opd2).max()))
            except Exception as e:
                ctx.check(False, 'fit=coeffs', f'fit-switch|raises={type(e).__name__}', str(e), desc)
        # ---- remove ----------------------------------------------------------------------------------
        # zernike_remove has no normalize parameter: it works with the default (normalised) basis
        Bn = own_basis(modes, mask, rho, theta, True)
        noise = rng.normal(size=shape) * 1e-8 * mask
        opd = np.tensordot(coeffs, Bn, axes=1) + noise
        try:
            res = np.asarray(lentil.zernike_remove(gen.layout(rng, opd), gen.layout(rng, maskf), modes, **kw), float)
        except Exception as e:
            ctx.check(False, 'remove=lstsq', f'remove|raises={type(e).__name__}', str(e), desc)
            continue
        Bnm = Bn[:, mask].T
        sol = np.linalg.lstsq(Bnm, opd[mask], rcond=None)[0]
        ref = opd - np.tensordot(sol, Bn, axes=1)
        s2 = max(float(np.abs(opd).max()), 1e-300)
        ctx.close('remove=lstsq', res, ref, rtol, 'remove|lstsq',
                  'zernike_remove does not subtract exactly the least-squares component in the requested modes', desc, scale=s2)
        rc = np.linalg.lstsq(Bnm, res[mask], rcond=None)[0]
        ctx.close('remove:residual-coeffs=0', rc, np.zeros(len(modes)), rtol, 'remove|residual-coeffs',
                  'the residual still has a component in the removed modes', desc, scale=float(np.abs(sol).max()) + 1e-300)
        try:
            res2 = np.asarray(lentil.zernike_remove(res, maskf, modes, **kw), float)
            ctx.close('remove:idempotent', res2, res, rtol, 'remove|idempotent', 'removing the same modes twice changes the residual',
                      desc, scale=s2)
            pure = np.tensordot(coeffs, Bn, axes=1)
            res3 = np.asarray(lentil.zernike_remove(pure, maskf, modes, **kw), float)
            ctx.close('remove:pure->0', res3, np.zeros(shape), rtol, 'remove|pure',
                      'an OPD made only of the removed modes is not reduced to zero', desc, scale=float(np.abs(pure).max()))
        except Exception as e:
            ctx.check(False, 'remove:idempotent', f'remove2|raises={type(e).__name__}', str(e), desc)
