"""C19 — pixel, jitter and smear blurs are flux-preserving convolutions on any shape.

Online oracle on detector.pixel, convolvable.jitter and convolvable.smear (every call, any workload): the
monitor's own Fourier-domain circular convolution with the analytic transfer function (separable pixel sinc,
isotropic Gaussian exp(-2 pi^2 sigma^2 rho^2), directional sinc); shape, non-negativity, and — when the exact
convolution is non-negative — equality up to the measured contribution of the unpaired Nyquist bins, hence the
total.  Relational driver: translation equivariance, zero extent == identity, physical units == samples.
"""
import numpy as np

from vp import gen, probe
from vp import defaults
from vp import reuse
from vp import forms as argforms
from vp import corners

RULE = ('seeded generator: non-negative images 1..40 per side of any aspect ratio (odd/even/non-square), smooth (sums of '
        'Gaussians) and spiky, blur extents 0..10 samples, all angles, pixel scales and oversampling 1..6, circular '
        'translations.  distinct = distinct (shape, blur, parameters, image hash) descriptors; non-trivial = image with > 1 '
        'sample and extent > 0.')
ASSUMPTIONS = ['a reference convolution whose minimum is above -1e-12*max counts as non-negative']
PLAN = {'quick': {'gen': 8}, 'thorough': {'gen': 16, 'tests': 1, 'docs': 1}}
REQUIRED_BUCKETS = ['defaults', 'corners', 'forms', 'img:all-zero', 'extent:numpy-scalars', 'img:reduced-precision', 'angle:numpy-integer', 'img:faint', 'img:bright', 'pixel', 'jitter', 'smear', 'shape:square', 'shape:nonsquare', 'shape:odd', 'shape:even', 'img:smooth',
                    'img:spiky', 'conv:nonneg', 'extent:0', 'translate', 'units', 'sequence', 'img:integer', 'extent:small-int*oversample', 'args:positional', 'oversample:fractional', 'extent:small-fraction-of-a-pixel']
REQUIRED_ANCHORS = ['probe:pixel', 'probe:jitter', 'probe:smear']
REQUIRED_ORACLES = ['blur:shape', 'blur>=0', 'blur=conv', 'blur:total', 'translate', 'identity', 'units', 'homogeneous']


def transfer(kind, shape, p):
    fy = np.fft.fftfreq(shape[0])[:, None]
    fx = np.fft.fftfreq(shape[1])[None, :]
    if kind == 'pixel':
        return np.sinc(fx * p['oversample']) * np.sinc(fy * p['oversample'])
    if kind == 'jitter':
        sig = float(p['scale']) / float(p['pixelscale']) * float(p['oversample'])
        return np.exp(-2 * np.pi ** 2 * sig ** 2 * (fx ** 2 + fy ** 2))
    d = float(p['distance']) / float(p['pixelscale']) * float(p['oversample'])
    a = np.radians(float(p['angle']))      # (np.radians of a small NumPy integer is evaluated in half precision)
    return np.sinc(d * (fx * np.cos(a) + fy * np.sin(a)))


def bind(kind, args, kwargs):
    if kind == 'pixel':
        names, d = ['img', 'oversample'], {'oversample': 1}
    elif kind == 'jitter':
        names, d = ['img', 'scale', 'pixelscale', 'oversample'], {'pixelscale': 1, 'oversample': 1}
    else:
        names, d = ['img', 'distance', 'angle', 'pixelscale', 'oversample'], {'angle': None, 'pixelscale': 1, 'oversample': 1}
    d.update(dict(zip(names, args)))
    d.update(kwargs)
    return d


def make_oracle(kind):
    def oracle(ctx, args, kwargs, result, exc, pre):
        p = bind(kind, args, kwargs)
        raw = np.asarray(p['img'])
        # frames in half / single precision: "to rounding" means rounding at the precision of the data
        prec = float(np.finfo(raw.dtype).eps / np.finfo(float).eps) if raw.dtype.kind == 'f' and raw.dtype.itemsize < 8 else 1.0
        img = np.asarray(p['img'], float)
        if img.ndim != 2 or img.size == 0:
            return
        wit = {'blur': kind, 'shape': list(img.shape), 'p': {k: v for k, v in p.items() if k != 'img'}}
        if kind == 'smear' and p['angle'] is None:
            ctx.skip('smear with a random angle (no reference)')
            if exc is None:
                ctx.check(np.shape(result) == img.shape, 'blur:shape', 'smear|random-angle|shape', 'shape changed', wit)
            return
        try:
            frac_os = float(p['oversample']) != int(p['oversample'])
        except Exception:
            frac_os = False
        if exc is not None and frac_os and isinstance(exc, (TypeError, ValueError)):
            ctx.skip('fractional oversampling factor refused (documented as an integer)')
            return
        if exc is not None:
            ctx.check(False, 'blur:shape', f'{kind}|raises={type(exc).__name__}' + ('|nonsquare' if img.shape[0] != img.shape[1] else ''),
                      f'{kind} raised {type(exc).__name__}: {exc}', wit)
            return
        out = np.asarray(result, float)
        ctx.check(out.shape == img.shape, 'blur:shape', f'{kind}|shape', 'blur changed the image shape', wit)
        if out.shape != img.shape:
            return
        if not np.all(np.isfinite(out)):
            # (an all-zero frame - a dark frame, a slice with zero weight - is a non-negative image like any other: it stays zero)
            ctx.check(False, 'blur>=0', f'{kind}|non-finite' + ('|zero-frame' if np.sum(img) == 0 else ''), 'blur returned non-finite values', wit)
            return
        ctx.check(float(out.min()) >= 0.0, 'blur>=0', f'{kind}|negative', 'blur returned a negative value', wit)
        if img.min() < 0:
            ctx.skip('input with negative samples')
            return
        H = transfer(kind, img.shape, p)
        z = np.fft.ifft2(np.fft.fft2(img) * H)
        ref, im = z.real, float(np.max(np.abs(z.imag)))
        scale = max(float(np.max(np.abs(ref))), 1e-300)
        S = float(img.sum())
        if kind in ('jitter', 'smear') and S > 0:
            ctx.close('blur:total', np.array([out.sum()]), np.array([S]), 1e-11 * prec * (img.size if prec > 1 else 1), f'{kind}|total',
                      f'{kind} does not keep the total of a non-negative image', wit, scale=S)
        if float(ref.min()) >= -1e-12 * scale:
            ctx.bucket('conv:nonneg')
            # (im / S first: for frames of 1e-200 the product scale * im leaves the doubles)
            tol = 2 * (im + scale * (img.size * (im / max(S, 1e-300)))) + 1e-10 * scale * prec * (img.size if prec > 1 else 1)
            ctx.close('blur=conv', out, ref, 1.0, f'{kind}|value' + ('|nonsquare' if img.shape[0] != img.shape[1] else ''),
                      f'{kind} output is not the circular convolution with its analytic transfer function', dict(wit, nyquist=im),
                      scale=tol)
            ctx.close('blur:total', np.array([out.sum()]), np.array([S]), 1.0, f'{kind}|total|conv-nonneg',
                      f'{kind} does not keep the total signal although the convolution is non-negative', wit,
                      scale=1e-10 * prec * (img.size if prec > 1 else 1) * max(S, 1e-300) + 4 * img.size * im)
    return oracle


def narrow_scalars(ctx, lentil, rng):
    """Extents and pixel scales handed over as single / half precision NumPy scalars are the same numbers as Python floats."""
    for i in range(6):
        a = rng.random((7, 10)) + 0.1
        ctx.case({'narrow-scalars': i}, ['extent:numpy-scalars'])
        for T in (np.float32, np.float16):
            try:
                ds = float(np.abs(lentil.smear(a, T(10), 30, pixelscale=T(3)) - lentil.smear(a, 10 / 3, 30)).max())
                dj = float(np.abs(lentil.jitter(a, T(10), pixelscale=T(3)) - lentil.jitter(a, 10 / 3)).max())
                ctx.check(ds <= 1e-10 and dj <= 1e-10, 'units', f'units|numpy-scalars|{np.dtype(T).name}',
                          'an extent and pixel scale given as NumPy single / half precision scalars blur differently from the same numbers '
                          'as Python floats', {'type': np.dtype(T).name, 'smear': ds, 'jitter': dj})
            except Exception as e:
                ctx.check(False, 'units', f'units|numpy-scalars|raises={type(e).__name__}', str(e), {})


def small_int_arguments(ctx, lentil, rng):
    """Extents and oversampling factors as small NumPy integers (motion in whole micrometres, an oversampling factor read from a
    uint8 header): extent * oversample does not fit the type although both numbers do.  And every argument by position, in the
    documented order.  The online oracle decides each call from float(...) of the same numbers."""
    for i in range(ctx.count(8, 40)):
        img = np.clip(rng.normal(loc=100, scale=40, size=(int(rng.integers(6, 28)), int(rng.integers(6, 28)))), 1, None)
        os_ = int(rng.integers(2, 5))
        ext = int(rng.integers(256 // os_ + 1, 127)) if os_ > 2 else int(rng.integers(129, 250))
        T = np.int8 if ext < 128 and i % 2 else np.uint8
        ps = float(ext * os_) / float(rng.uniform(0.8, 4))          # true width: 0.8 .. 4 samples
        ctx.case({'small-int-arguments': i, 'extent': ext, 'os': os_, 'type': np.dtype(T).name}, ['extent:small-int*oversample'])
        for fn, extra in ((lentil.jitter, {}), (lentil.smear, {'angle': 30.0})):
            try:
                with np.errstate(all='ignore'):
                    fn(img, T(ext), pixelscale=ps, oversample=T(os_), **extra)
                    fn(img, np.array(ext, dtype=T), pixelscale=ps, oversample=np.array(os_, dtype=T), **extra)
            except Exception as e:
                ctx.check(False, 'blur=conv', f'small-int-arguments|raises={type(e).__name__}', str(e), {'fn': fn.__name__, 'type': np.dtype(T).name})
        # the documented positional order: pixel(img, oversample), jitter(img, scale, pixelscale, oversample),
        # smear(img, distance, angle, pixelscale, oversample)
        ctx.bucket('args:positional')
        sc, ps2, o2 = float(rng.uniform(5e-6, 3e-5)), float(rng.uniform(4e-6, 2e-5)), int(rng.integers(1, 4))
        try:
            with np.errstate(all='ignore'):
                lentil.detector.pixel(img, o2)
                lentil.jitter(img, sc, ps2, o2)
                lentil.jitter(img, sc, ps2)
                lentil.smear(img, sc, float(rng.uniform(0, 180)), ps2, o2)
                lentil.smear(img, sc, 45.0, ps2)
        except Exception as e:
            ctx.check(False, 'blur=conv', f'positional|raises={type(e).__name__}', str(e), {})


def install(ctx, lentil):
    probe.wrap_function(lentil.detector.pixel, make_oracle('pixel'), ctx, 'pixel')
    probe.wrap_function(lentil.convolvable.jitter, make_oracle('jitter'), ctx, 'jitter')
    probe.wrap_function(lentil.convolvable.smear, make_oracle('smear'), ctx, 'smear')


def image(rng, shape, smooth):
    if smooth:
        ii, jj = np.indices(shape)
        img = np.zeros(shape)
        for _ in range(int(rng.integers(1, 4))):
            r0, c0 = rng.uniform(0, shape[0]), rng.uniform(0, shape[1])
            s = rng.uniform(1.5, 4.0)
            # periodic distance so that the image is smooth on the torus
            dr = np.minimum(np.abs(ii - r0), shape[0] - np.abs(ii - r0))
            dc = np.minimum(np.abs(jj - c0), shape[1] - np.abs(jj - c0))
            img += rng.uniform(0.5, 2) * np.exp(-(dr ** 2 + dc ** 2) / (2 * s * s))
        return img * rng.uniform(1, 1e4) + rng.uniform(0, 5)
    img = rng.uniform(0, 1, size=shape) * (rng.random(shape) < 0.3)
    img[int(rng.integers(0, shape[0])), int(rng.integers(0, shape[1]))] = 50.0
    return img


def workload(ctx, lentil):
    defaults.run(ctx, lentil, 'C19', 'blur:shape')
    reuse.run(ctx, lentil, 'C19', 'blur:shape')
    argforms.run(ctx, lentil, 'C19', 'blur:shape')
    corners.run(ctx, lentil, 'C19', 'blur:shape')
    rng = ctx.rng
    narrow_scalars(ctx, lentil, rng)
    small_int_arguments(ctx, lentil, rng)
    n = ctx.count(150, 1200)
    hi = 40 if ctx.tier == 'quick' else 72
    for i in range(n):
        kind = ['pixel', 'jitter', 'smear'][i % 3]
        k = int(rng.integers(0, 4))
        if k == 0:
            m = int(rng.integers(1, hi + 1)); shape = (m, m)
        else:
            shape = (int(rng.integers(1, hi + 1)), int(rng.integers(1, hi + 1)))
        smooth = bool(rng.random() < 0.6)
        img = image(rng, shape, smooth)
        mag = 0
        if i % 4 == 3:
            # absolute magnitude is a matter of units (irradiance of a faint star in W, photon counts of a bright one)
            mag = int(rng.integers(-40, 31)) if i % 8 != 7 else int(rng.choice([-200, -160, 158, 250]))
            img = img * 10.0 ** mag
        if i % 11 == 5 and mag == 0:
            # frames in half / single precision (totals beyond the largest half-precision number are ordinary)
            img = (img * (1.0 if img.max() < 6e4 else 6e4 / img.max())).astype([np.float16, np.float32][i % 2])
            ctx.bucket('img:reduced-precision')
        if i % 29 == 11:
            img = np.zeros(shape)                       # a dark frame
            ctx.bucket('img:all-zero')
        os_ = int(rng.integers(1, 7))
        ps = float(rng.uniform(2e-6, 2e-5)) if rng.random() < 0.5 else 1
        zero = rng.random() < 0.12
        ext = 0.0 if zero else float(rng.uniform(0.05, 10))       # in samples
        bks = [kind, 'shape:square' if shape[0] == shape[1] else 'shape:nonsquare', 'shape:odd' if shape[0] % 2 else 'shape:even',
               'img:smooth' if smooth else 'img:spiky'] + (['extent:0'] if zero else []) + \
            (['img:faint'] if mag < -14 else []) + (['img:bright'] if mag > 8 else [])
        if kind == 'pixel':
            if zero:
                os_ = 1          # a 1-sample pixel on a critically sampled image: sinc(f) on |f| <= 1/2 (not the identity)
            call = lambda im: lentil.detector.pixel(im, oversample=os_) if os_ != 1 or rng.random() < 0.5 else lentil.detector.pixel(im)
            par = {'oversample': os_}
        if kind != 'pixel' and i % 10 == 7 and not zero:
            # heavily oversampled frames and extents of a small fraction of a pixel: small in pixels, not in samples
            os_ = int(rng.choice([8, 16, 25, 50]))
            ext = float(10 ** rng.uniform(-2.5, -0.5)) * (os_ if rng.random() < 0.5 else 1.0)
            bks.append('extent:small-fraction-of-a-pixel')
        if kind != 'pixel' and i % 8 == 5:
            # a ratio of two pixel scales as the oversampling factor (2.5, 0.5): where it is accepted it is a factor like any other
            os_ = [1.5, 2.5, 0.5, 3.25, np.float64(1.25), np.float32(0.75)][(i // 8) % 6]
            bks.append('oversample:fractional')
        if kind == 'pixel':
            pass
        elif kind == 'jitter':
            sc = ext / os_ * ps
            call = lambda im: lentil.jitter(im, sc, pixelscale=ps, oversample=os_)
            par = {'scale': sc, 'pixelscale': ps, 'oversample': os_}
        else:
            ang = float(rng.uniform(-360, 360)) if rng.random() < 0.8 else float(rng.choice([0, 90, 45, 180, -90]))
            if i % 9 == 2:
                # whole-degree angles handed over as NumPy integers of any width
                ang = [np.int8, np.int16, np.uint8, np.int64][i % 4](int(rng.integers(0, 120)))
                ctx.bucket('angle:numpy-integer')
            dist = ext / os_ * ps
            call = lambda im: lentil.smear(im, dist, angle=ang, pixelscale=ps, oversample=os_)
            par = {'distance': dist, 'angle': ang, 'pixelscale': ps, 'oversample': os_}
        desc = {'blur': kind, 'shape': list(shape), 'par': par, 'smooth': smooth, 'h': probe.fp_array(img)[:8]}
        ctx.case(desc, bks, nontrivial=img.size > 1 and not zero)
        try:
            with np.errstate(all='ignore'):
                out = call(gen.layout(rng, img))                 # online oracle decides (image in any memory layout)
        except Exception:
            continue
        if img.dtype.kind == 'f' and img.dtype.itemsize < 8:
            continue        # (reduced-precision frames: the online oracle above decides, at the precision of the data)
        sc_ = max(float(np.max(np.abs(out))), 1e-300)
        if zero and kind != 'pixel':
            ctx.close('identity', out, img, 1e-12, f'{kind}|identity', 'a blur of zero extent is not the identity', desc, scale=sc_)
        else:
            ctx.oracle_evals['identity'] += 0
        # homogeneity: a convolution commutes with a change of units
        if i % 5 == 0:
            cfac = 10.0 ** int(rng.integers(-30, 20))
            try:
                with np.errstate(all='ignore'):
                    outc = call(img * cfac)
                ctx.close('homogeneous', outc / cfac, out, 1e-10, f'{kind}|homogeneous', 'blur(c*img) differs from c*blur(img)',
                          dict(desc, c=cfac), scale=sc_)
            except Exception as e:
                ctx.check(False, 'homogeneous', f'{kind}|homogeneous|raises={type(e).__name__}', str(e), desc)
        # translation equivariance on the torus
        dr, dc = int(rng.integers(-shape[0], shape[0] + 1)), int(rng.integers(-shape[1], shape[1] + 1))
        ctx.bucket('translate')
        try:
            with np.errstate(all='ignore'):
                out2 = call(np.roll(img, (dr, dc), axis=(0, 1)))
            ctx.close('translate', out2, np.roll(out, (dr, dc), axis=(0, 1)), 1e-10, f'{kind}|translate',
                      'blur does not commute with a circular translation of the image', dict(desc, roll=[dr, dc]), scale=sc_)
        except Exception as e:
            ctx.check(False, 'translate', f'{kind}|translate|raises={type(e).__name__}', str(e), desc)
        # physical units == samples
        if kind != 'pixel':
            ctx.bucket('units')
            try:
                with np.errstate(all='ignore'):
                    if kind == 'jitter':
                        alt = lentil.jitter(img, ext)
                    else:
                        alt = lentil.smear(img, ext, angle=ang)
                ctx.close('units', alt, out, 1e-9, f'{kind}|units',
                          'an extent given in physical units with pixel scale and oversampling differs from the same extent in samples',
                          desc, scale=sc_)
            except Exception as e:
                ctx.check(False, 'units', f'{kind}|units|raises={type(e).__name__}', str(e), desc)
    # consecutive calls that agree in image shape, extent argument and oversampling but not in pixel scale (and vice versa):
    # the online oracle checks every call, so a kernel remembered from the previous call does not go unnoticed
    for i in range(ctx.count(20, 150)):
        shape = (int(rng.integers(2, hi + 1)), int(rng.integers(2, hi + 1)))
        img = image(rng, shape, True)
        os_ = int(rng.integers(1, 5))
        ext_phys = float(rng.uniform(5e-6, 3e-5))
        ctx.case({'blur-sequence': list(shape), 'os': os_, 'extent': ext_phys}, ['sequence'])
        for ps in (float(rng.uniform(4e-6, 8e-6)), float(rng.uniform(9e-6, 2e-5)), float(rng.uniform(4e-6, 8e-6))):
            try:
                with np.errstate(all='ignore'):
                    lentil.jitter(img, ext_phys, pixelscale=ps, oversample=os_)
                    lentil.smear(img, ext_phys, angle=33.0, pixelscale=ps, oversample=os_)
            except Exception:
                pass
        for o2 in (1, 3, 2):
            try:
                with np.errstate(all='ignore'):
                    lentil.detector.pixel(img, oversample=o2)
                    lentil.jitter(img, 1.5, oversample=o2)
            except Exception:
                pass
    # integer-typed images (photon counts, DN frames) are images too
    for i in range(ctx.count(20, 150)):
        shape = (int(rng.integers(2, hi + 1)), int(rng.integers(2, hi + 1)))
        dt = [np.int64, np.uint16, np.int32][i % 3]
        img = np.round(image(rng, shape, True) % 5e4).astype(dt)
        if img.sum() == 0:
            img[0, 0] = 7
        ctx.case({'blur-integer-image': list(shape), 'dtype': np.dtype(dt).name}, ['img:integer'])
        try:
            with np.errstate(all='ignore'):
                lentil.detector.pixel(img, oversample=int(rng.integers(1, 5)))
                lentil.jitter(img, float(rng.uniform(0.3, 3)))
                lentil.smear(img, float(rng.uniform(0.3, 5)), angle=float(rng.uniform(0, 180)))
        except Exception:
            pass
    # pixel at oversample 1 on an image: identity only in the trivial 1x1 case; check zero-extent identity for pixel via the
    # transfer function instead (sinc(0)=1 everywhere requires oversample -> 0, not expressible): covered by blur=conv.
