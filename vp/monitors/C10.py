"""C10 — calls are pure: no hidden mutation of inputs and no dependence on call history.

Four monitors over one long, interleaved history of public API calls on harness-owned objects:
 1. write sanitizer + shadow state: every operation of the catalogue is run once with all caller arrays frozen
    read-only (an in-place store traps inside lentil and the traceback names the site) and once with writable
    copies whose byte-level fingerprints (arrays, planes, wavefronts, spectra) are compared before/after;
    only the documented in-place parameters are whitelisted;
 2. history determinism (offline): every call is logged with an argument key and its result; the whole history
    — unrelated calls interleaved, > 32 DFT shape keys — is replayed into groups that must be singletons;
 3. path independence: random programs over one plane (set amplitude / add to OPD / fit_tilt in place / copy)
    are executed; after every step the plane is propagated and compared with the independent Fraunhofer model
    of the *model* state (effective OPD = OPD + recorded tilt ramps);
 4. global-RNG and DFT-cache hooks: np.random state equality around every deterministic/seeded call, cached
    coordinate vectors compared with arange(n) - floor(n/2) after DFT calls.
"""
import traceback
import warnings

import numpy as np

from vp import gen, probe, refmodels as rm
from vp import defaults
from vp import reuse
from vp import forms as argforms
from vp import corners
from vp.monitors import C04

RULE = ('seeded generator: a catalogue of ~45 public operations (plane constructors, multiply, propagate_dft/fft, fit_tilt, '
        'rescale/resample, detector.*, jitter/smear, dft2/idft2, zernike*, util.*, wfe.*, Spectrum arithmetic/sample/bin/'
        'integrate) each instantiated with fresh random arguments, executed frozen and writable, and re-executed later in the '
        'history; random plane programs of length <= 12.  distinct = distinct (operation, argument fingerprint | program) '
        'descriptors; non-trivial = operation with at least one array/object argument.')
ASSUMPTIONS = ['repeated calls are compared to 1e-12 relative rather than bit-for-bit (BLAS kernels may depend on buffer alignment)',
               'aliasing of a result with an operand is an observation, not a violation (the property speaks of mutation)',
               'in-place whitelist (the documented target only - fit_tilt(inplace=True) edits the Plane, not the array it was built from): Wavefront.insert(out), field.insert(out), dft2/idft2(out=), '
               'propagate_fft(scratch=), Spectrum.crop/trim/pad/append/resample/to']
PLAN = {'quick': {'gen': 8}, 'thorough': {'gen': 16, 'tests': 1}}
REQUIRED_BUCKETS = ['defaults', 'corners', 'reuse', 'forms', 'op:Plane()', 'op:Pupil(mask3d)', 'op:multiply', 'op:propagate_dft', 'op:propagate_fft', 'op:fit_tilt',
                    'op:rescale', 'op:adc', 'op:collect_charge', 'op:collect_charge_bayer', 'op:tilt-multiply', 'op:Field(ndarray offset)', 'op:Plane.properties', 'op:pixel', 'op:jitter', 'op:smear',
                    'op:dft2', 'op:idft2', 'op:zernike_fit', 'op:pad', 'op:rebin', 'op:power_spectrum', 'op:Spectrum.multiply',
                    'op:Spectrum.sample', 'op:Spectrum.bin', 'op:Spectrum.to', 'op:refusals', 'op:fit_tilt:nothing-to-fit', 'op:fit_tilt:inplace', 'op:fit_tilt:reused-plane', 'op:shot_noise', 'op:read_noise', 'program', 'dft-keys>32',
                    'replayed', 'op:dft2:nearby-shifts', 'op:zernike:supplied-coordinates', 'op:Rotate(angle=array)']
REQUIRED_ANCHORS = ['anchor:_dft2_coords', 'anchor:Plane.__init__', 'anchor:adc', 'anchor:Plane.fit_tilt', 'anchor:Field.__mul__']
REQUIRED_ORACLES = ['frozen-inputs', 'inputs-unchanged', 'history-deterministic', 'global-rng-untouched', 'global-state-untouched', 'dft-cache-intact',
                    'path-independent']


def anchors(lentil):
    return [('_dft2_coords', lentil.fourier._dft2_coords), ('Plane.__init__', lentil.plane.Plane.__init__),
            ('adc', lentil.detector.adc), ('Plane.fit_tilt', lentil.plane.Plane.fit_tilt),
            ('Field.__mul__', lentil.field.Field.__mul__), ('Plane.copy', lentil.plane.Plane.copy)]


def gstate():
    s = np.random.get_state()
    return probe.fingerprint((s[0], s[1], s[2], s[3], s[4]))


def freeze_tree(x):
    """Return a structurally identical copy whose ndarrays are read-only."""
    if isinstance(x, np.ndarray):
        return probe.freeze(x)
    if isinstance(x, dict):
        return {k: freeze_tree(v) for k, v in x.items()}
    if isinstance(x, (list, tuple)):
        return type(x)(freeze_tree(v) for v in x)
    return x


def copy_tree(x):
    if isinstance(x, np.ndarray):
        return np.array(x, copy=True)
    if isinstance(x, dict):
        return {k: copy_tree(v) for k, v in x.items()}
    if isinstance(x, (list, tuple)):
        return type(x)(copy_tree(v) for v in x)
    return x


def result_digest(r, depth=0):
    """Numerical summary of a result for history comparison (list of flat float arrays)."""
    if r is None:
        return []
    if isinstance(r, np.ndarray):
        a = np.asarray(r)
        if np.iscomplexobj(a):
            return [a.real.astype(float).ravel(), a.imag.astype(float).ravel()]
        return [a.astype(float).ravel()] if a.dtype != object else []
    if isinstance(r, (int, float, complex, np.generic)):
        return result_digest(np.asarray(r))
    if isinstance(r, (list, tuple)):
        out = []
        for v in r:
            out += result_digest(v, depth + 1)
        return out
    if hasattr(r, 'data') and hasattr(r, 'wavelength'):      # Wavefront
        out = [np.array([float(r.wavelength), float(r.focal_length) if r.focal_length is not None else np.nan])]
        for f in r.data:
            out += result_digest(np.asarray(f.data)) + [np.asarray(f.offset, float).ravel()]
            out.append(np.array([float(getattr(t, a, 0.0)) for t in f.tilt for a in ('x', 'y')] + [float(len(f.tilt))]))
        return out
    if hasattr(r, '_wave'):                                   # Spectrum
        return [np.asarray(r._wave, float).ravel(), np.asarray(r._value, float).ravel()]
    if hasattr(r, 'amplitude') and hasattr(r, 'opd'):          # Plane
        out = result_digest(np.asarray(r.amplitude)) + result_digest(np.asarray(r.opd)) + result_digest(np.asarray(r.mask))
        out += [np.array([t.x for t in r.tilt] + [t.y for t in r.tilt], float)]
        return out
    return []


def same_digest(a, b):
    if len(a) != len(b):
        return False
    for x, y in zip(a, b):
        if x.shape != y.shape:
            return False
        if x.size and not np.allclose(x, y, rtol=1e-12, atol=1e-12 * (float(np.max(np.abs(x))) if np.isfinite(x).any() else 1.0) + 1e-300,
                                      equal_nan=True):
            return False
    return True


# ---------------------------------------------------------------------------
# catalogue: each builder returns (args tree of caller-owned values, call(args) -> result)

def catalogue(lentil, rng):
    D, U, R = lentil.detector, lentil.util, lentil.radiometry
    ops = []

    def op(name):
        def deco(f):
            ops.append((name, f))
            return f
        return deco

    def aperture(lo=6, hi=18):
        shape = gen.rshape(rng, lo, hi)
        A = gen.support(rng, shape, kind=int(rng.choice([0, 1, 3, 4])))
        if A.sum() < 6:
            A = np.ones(shape, bool)
        return shape, A

    @op('Plane()')
    def _():
        shape, A = aperture()
        return ({'amp': gen.amplitude(rng, A), 'opd': rng.normal(size=shape) * 1e-7, 'mask': A * rng.uniform(0.5, 3)},
                lambda a: lentil.Plane(amplitude=a['amp'], opd=a['opd'], mask=a['mask'], pixelscale=1e-3))

    @op('Pupil(mask3d)')
    def _():
        shape, A = aperture()
        segs, _ = gen.partition(rng, A, int(rng.integers(1, 5)))
        return ({'amp': gen.amplitude(rng, A), 'opd': rng.normal(size=shape) * 1e-7, 'mask': segs.astype(float) * 2.0},
                lambda a: lentil.Pupil(amplitude=a['amp'], opd=a['opd'], mask=a['mask'], pixelscale=1e-3, focal_length=5.0))

    @op('Image()')
    def _():
        shape, A = aperture()
        return ({'amp': rng.uniform(0.1, 1, size=shape)}, lambda a: lentil.Image(amplitude=a['amp'], pixelscale=5e-6))

    def pupil_args():
        shape, A = aperture()
        segs, _ = gen.partition(rng, A, int(rng.integers(1, 4)))
        return shape, {'amp': gen.amplitude(rng, A), 'opd': gen.opd(rng, shape, 6e-7), 'mask': segs.astype(float)}

    def mk_pupil(a, **kw):
        return lentil.Pupil(amplitude=a['amp'], opd=a['opd'], mask=a['mask'], pixelscale=1e-3, focal_length=5.0, **kw)

    @op('multiply')
    def _():
        shape, a = pupil_args()
        def call(a):
            p = mk_pupil(a)
            w = lentil.Wavefront(6e-7)
            fp0, fw0 = probe.fingerprint(p), probe.fingerprint(w)
            w1 = w * p
            fw1 = probe.fingerprint(w1)
            w2 = w1 * lentil.Pupil(amplitude=a['amp'], pixelscale=1e-3, focal_length=5.0)
            return w2, [('plane', fp0, probe.fingerprint(p)), ('wavefront', fw0, probe.fingerprint(w)),
                        ('wavefront-1', fw1, probe.fingerprint(w1))]
        return a, call

    @op('tilt-multiply')
    def _():
        shape, a = pupil_args()
        how = int(rng.integers(0, 3))
        tx, ty = float(rng.normal() * 1e-6), float(rng.normal() * 1e-6)
        def call(a):
            p = mk_pupil(a)
            if how == 0:
                w1 = lentil.Wavefront(6e-7) * p.fit_tilt()
            elif how == 1:
                w1 = lentil.Wavefront(6e-7, tilt=[1e-6, -2e-6]) * p
            else:
                w1 = lentil.Wavefront(6e-7) * p * lentil.Tilt(x=2e-6, y=1e-6)
            f1 = probe.fingerprint(w1)
            t = lentil.Tilt(x=tx, y=ty)
            r1 = w1 * t
            d1 = result_digest(r1)                       # snapshot before anything else happens
            f1b = probe.fingerprint(w1)
            r2 = w1 * lentil.DispersiveTilt(trace=[1.0, 0.0], dispersion=[1e-4, 5e-7])
            r3 = w1 * lentil.Tilt(x=tx, y=ty)
            same = same_digest(d1, result_digest(r3)) and same_digest(d1, result_digest(r1))
            return (r1, r2), [('wavefront', f1, f1b), ('wavefront-after-3', f1, probe.fingerprint(w1)),
                              ('repeat', 'same', 'same' if same else 'changed')]
        return a, call

    @op('propagate_dft')
    def _():
        shape, a = pupil_args()
        os_ = int(rng.integers(1, 4))
        osh = gen.rshape(rng, 3, 10)
        a['outmask'] = gen.support(rng, (osh[0] * os_, osh[1] * os_)).astype(float)
        tilt = bool(rng.random() < 0.5)
        def call(a):
            p = mk_pupil(a)
            if tilt:
                p = p.fit_tilt()
            w = lentil.Wavefront(6e-7) * p
            fw = probe.fingerprint(w)
            out = lentil.propagate_dft(w, 5e-6, shape=osh, oversample=os_, mask=a['outmask'])
            _ = out.intensity
            return out, [('wavefront', fw, probe.fingerprint(w))]
        return a, call

    @op('propagate_fft')
    def _():
        shape, a = pupil_args()
        G0 = int(rng.integers(max(shape) + 2, 40))
        G1 = G0 if rng.random() < 0.4 else int(rng.integers(max(shape) + 2, 48))       # FFT grids of any aspect ratio
        du = (6e-7 * 5.0 * 2 / (1e-3 * G0), 6e-7 * 5.0 * 2 / (1e-3 * G1))
        a['scratch'] = (rng.normal(size=(G0 + 3, G1 + 5)) + 0j)
        a['scratch2'] = (rng.normal(size=(G0 + 1, G1 + 2)) * 5 + 1j)
        def call(a):
            w = lentil.Wavefront(6e-7) * mk_pupil(a)
            fw = probe.fingerprint(w)
            o1 = lentil.propagate_fft(w, du, oversample=2)
            o2 = lentil.propagate_fft(w, du, oversample=2, scratch=np.array(a['scratch']))   # scratch is whitelisted in-place
            o3 = lentil.propagate_fft(w, du, oversample=2, scratch=np.array(a['scratch2']))
            # the content of the scratch buffer is not an argument of the computation: all three results agree
            same = same_digest(result_digest(o1), result_digest(o2)) and same_digest(result_digest(o1), result_digest(o3))
            return (o1, o2), [('wavefront', fw, probe.fingerprint(w)), ('repeat', 'same', 'same' if same else 'changed')]
        return a, call

    @op('Field(ndarray offset)')
    def _():
        k = int(rng.integers(1, 4))
        a = {'data': [rng.normal(size=(int(rng.integers(2, 6)), int(rng.integers(2, 6)))) + 0j for _ in range(k)],
             'offset': [np.array([int(rng.integers(-3, 4)), int(rng.integers(-3, 4))]) for _ in range(k)],
             'out': np.zeros((9, 11))}
        def call(a):
            F = lentil.field.Field
            w = lentil.Wavefront.empty(wavelength=6e-7, pixelscale=5e-6, shape=(9, 11), ptype=lentil.image)
            w.data = [F(d, pixelscale=5e-6, offset=o) for d, o in zip(a['data'], a['offset'])]     # caller's offset arrays
            fw = probe.fingerprint(w)
            r1 = (w.field.copy(), w.intensity.copy(), w.insert(np.array(a['out']), 2.0))
            r2 = (w.field.copy(), w.intensity.copy(), w.insert(np.array(a['out']), 2.0))           # rendering twice
            same = same_digest(result_digest(r1), result_digest(r2))
            return r1, [('wavefront', fw, probe.fingerprint(w)), ('repeat', 'same', 'same' if same else 'changed')]
        return a, call

    @op('Plane.properties')
    def _():
        shape, a = pupil_args()
        s_ = float(rng.choice([1.5, 2.0, 3.3]))
        a['mask'] = np.pad(np.sum(a['mask'], axis=0), 2)         # clear of the array border (see the rescale entry)
        a['amp'], a['opd'] = np.pad(a['amp'], 2), np.pad(a['opd'], 2)
        def call(a):
            p = lentil.Pupil(amplitude=a['amp'], opd=a['opd'], mask=a['mask'], pixelscale=1e-3, focal_length=5.0)
            q = lentil.Pupil(amplitude=a['amp'], opd=a['opd'], mask=a['mask'], pixelscale=1e-3, focal_length=5.0)
            fp = probe.fingerprint(p)
            reads = (p.diameter, p.shape, p.size, p.global_mask.sum(), p.ptt_vector.shape, p.ptype, p.pixelscale)   # read-only views
            fp2 = probe.fingerprint(p)
            # the same derived plane whether or not a property of the parent had been read before
            d_read, d_fresh = p.rescale(s_).diameter, q.rescale(s_).diameter
            same = d_read == d_fresh and p.fit_tilt().diameter == q.fit_tilt().diameter
            return np.array([reads[0], d_read]), [('plane', fp, fp2), ('repeat', 'same', 'same' if same else 'changed')]
        return a, call

    @op('fit_tilt')
    def _():
        shape, a = pupil_args()
        def call(a):
            p = mk_pupil(a)
            fp = probe.fingerprint(p)
            q = p.fit_tilt(inplace=False)
            return q, [('plane', fp, probe.fingerprint(p))]
        return a, call

    @op('fit_tilt:inplace')
    def _():
        # "in place" means on the Plane: the caller's OPD map (which another plane may share) keeps its values, for monolithic and
        # segmented planes alike, and a second plane built from the same map still carries the tilt
        shape, a = pupil_args()
        mono = bool(rng.random() < 0.6)
        if mono:
            a['mask'] = np.sum(a['mask'], axis=0)
        rr = (np.arange(shape[0]) - shape[0] // 2)[:, None] * 1e-3 + np.zeros(shape)
        a['opd'] = a['opd'] + 2e-6 * rr
        def call(a):
            p1, p2 = mk_pupil(a), mk_pupil(a)
            p1.fit_tilt(inplace=True)
            w2 = lentil.Wavefront(6e-7) * p2
            return (p1, w2)
        return a, call

    @op('fit_tilt:reused-plane')
    def _():
        # one plane object used for a series of measurements: fitted, given the next OPD map (and amplitude), fitted again.  Every
        # map handed over stays the caller's, whatever the plane did before it received it
        shape, a = pupil_args()
        mono = bool(rng.random() < 0.6)
        if mono:
            a['mask'] = np.sum(a['mask'], axis=0)
        rr = (np.arange(shape[0]) - shape[0] // 2)[:, None] * 1e-3 + np.zeros(shape)
        cc = (np.arange(shape[1]) - shape[1] // 2)[None, :] * 1e-3 + np.zeros(shape)
        a['opd'] = a['opd'] + 2e-6 * rr
        a['opd2'] = np.ascontiguousarray(gen.opd(rng, shape, 6e-7) - 3e-6 * cc, dtype=float)
        a['opd3'] = np.ascontiguousarray(gen.opd(rng, shape, 6e-7) + 1e-6 * rr - 1e-6 * cc, dtype=float)
        a['amp2'] = np.ascontiguousarray(a['amp'] * 0.5, dtype=float)
        first = bool(rng.random() < 0.5)
        def call(a):
            p = mk_pupil(a)
            p.fit_tilt(inplace=True)
            p.opd = a['opd2']
            if first:
                p = p.fit_tilt(inplace=False)
            p.fit_tilt(inplace=True)
            p.amplitude = a['amp2']
            p.opd = a['opd3']
            p.fit_tilt(inplace=True)
            return p
        return a, call

    @op('rescale')
    def _():
        shape, a = pupil_args()
        # monolithic and clear of the array border: tiny segments or a one-sample-wide mask on the border vanishing under
        # resampling (IndexError in _plane_slice) is C17's domain, not a purity question
        a['mask'] = np.pad(np.sum(a['mask'], axis=0), 2)
        a['amp'], a['opd'] = np.pad(a['amp'], 2), np.pad(a['opd'], 2)
        s = float(rng.choice([1.5, 2.0, 1.0]))      # down-sampling tiny random segments away is C17's domain
        def call(a):
            p = mk_pupil(a)
            fp = probe.fingerprint(p)
            q = p.rescale(s) if rng.random() < 2 else None
            r = p.resample(1e-3 / s)
            return (q, r), [('plane', fp, probe.fingerprint(p))]
        return a, call

    @op('adc')
    def _():
        shape = gen.rshape(rng, 2, 16)
        e = rng.uniform(-50, 5000, size=shape)
        form = int(rng.integers(0, 4))
        gain = [np.array(1.7), np.array([1e-4, 1.2]), rng.uniform(0.5, 2, size=shape), rng.uniform(0, 1e-3, size=(2,) + shape) + 1][form]
        sat = [None, 3000.0, 2500][int(rng.integers(0, 3))]
        return {'e': e, 'gain': gain}, lambda a: D.adc(a['e'], a['gain'], saturation_capacity=sat, dtype=[None, np.int32][form % 2])

    @op('collect_charge')
    def _():
        nw = int(rng.integers(1, 5))
        shape = gen.rshape(rng, 2, 12)
        a = {'img': rng.uniform(0, 1e3, size=(nw,) + shape), 'wave': np.linspace(450, 900, nw) if nw > 1 else np.array([500.0]),
             'qe': rng.uniform(0, 1, size=nw)}
        unit = ['um', 'nm'][int(rng.integers(0, 2))]
        spec = R.Spectrum(np.linspace(0.4, 1.0, 9) if unit == 'um' else np.linspace(400, 1000, 9), rng.uniform(0, 1, size=9), waveunit=unit)
        def call(a):
            fs = probe.fingerprint(spec)
            r1 = D.collect_charge(a['img'], a['wave'], a['qe'])
            r2 = D.collect_charge(a['img'], a['wave'], spec)
            return (r1, r2), [('qe-spectrum', fs, probe.fingerprint(spec))]
        return a, call

    @op('collect_charge_bayer')
    def _():
        os_ = int(rng.integers(1, 4))
        k = 2
        shape = (k * os_ * int(rng.integers(1, 4)), k * os_ * int(rng.integers(1, 4)))
        a = {'img': rng.uniform(0, 1e3, size=(2,) + shape), 'wave': np.array([500., 700.]), 'r': rng.uniform(0, 1, 2),
             'g': rng.uniform(0, 1, 2), 'b': rng.uniform(0, 1, 2)}
        if rng.random() < 0.4:
            # a single 2-D frame (the tolerated special case of both collectors), kept by the caller and used again afterwards
            a = {'img': rng.uniform(0, 1e3, size=shape), 'wave': np.array([550.]), 'r': np.array([0.3]), 'g': np.array([0.6]),
                 'b': np.array([0.2])}
            def call2d(a):
                r1 = D.collect_charge_bayer(a['img'], a['wave'], a['r'], a['g'], a['b'], 'RGGB', oversample=os_)
                r2 = D.collect_charge(a['img'], a['wave'], a['g'])
                return (r1, r2, lentil.rebin(a['img'], 2), np.array(np.shape(a['img']), float))
            return a, call2d
        return a, lambda a: D.collect_charge_bayer(a['img'], a['wave'], a['r'], a['g'], a['b'], 'RGGB', oversample=os_)

    for name, fn in (('pixel', lambda im: D.pixel(im, 3)), ('pixelate', lambda im: D.pixelate(im, 3)),
                     ('jitter', lambda im: lentil.jitter(im, 1.3, oversample=2)),
                     ('smear', lambda im: lentil.smear(im, 2.5, angle=30.0)),
                     ('charge_diffusion', lambda im: D.charge_diffusion(im, 0.5, 2)),
                     ('shot_noise', lambda im: (D.shot_noise(im * 100, 'poisson', seed=7), D.shot_noise(im * 1000, 'gaussian', seed=0),
                                                # a frame with a few very bright pixels next to ordinary ones (every regime of the generator)
                                                D.shot_noise(np.where(im > 5, im * 1e13, im * 100), 'poisson', seed=3),
                                                D.shot_noise(np.where(im > 5, im * 1e13, im * 100), 'gaussian', seed=3))),
                     ('read_noise', lambda im: (D.read_noise(im, 5.0, seed=11), D.read_noise(im, 5.0, seed=0), D.dark_current(40.0, im.shape, 0.2, seed=0))),
                     ('normalize_power', lambda im: U.normalize_power(im, 2.0)),
                     ('centroid', lambda im: np.array(U.centroid(im))),
                     ('boundary', lambda im: np.array(U.boundary(im, 0.5))),
                     ('util.rescale', lambda im: U.rescale(im, 1.5)),
                     ('pad', lambda im: (U.pad(im, (im.shape[0] + 3, im.shape[1] - 1)), U.window(im, shape=(2, 2)),
                                         U.subarray(im, (2, 2))))):
        def build(fn=fn, name=name):
            shape = (3 * int(rng.integers(2, 7)), 3 * int(rng.integers(2, 7))) if name == 'pixelate' else gen.rshape(rng, 3, 20)
            return {'img': rng.uniform(0.1, 10, size=shape)}, lambda a: fn(a['img'])
        ops.append((name, build))

    @op('rebin')
    def _():
        f = int(rng.integers(1, 4))
        shape = (f * int(rng.integers(1, 6)), f * int(rng.integers(1, 6)))
        return {'img': rng.normal(size=(2,) + shape)}, lambda a: (U.rebin(a['img'], f), U.rebin(a['img'][0], f))

    @op('dft2')
    def _():
        m, n, M, N = (int(x) for x in rng.integers(1, 14, 4))
        a = {'f': rng.normal(size=(m, n)) + 1j * rng.normal(size=(m, n))}
        al = (float(rng.uniform(0.01, 0.3)), float(rng.uniform(0.01, 0.3)))
        sh, off = (float(rng.uniform(-2, 2)), 0.5), (int(rng.integers(-3, 4)), 1)
        def call(a):
            r = lentil.fourier.dft2(a['f'], al, shape=(M, N), shift=sh, offset=off)
            R_, S_, U_, V_ = lentil.fourier._dft2_coords(m, n, M, N)
            ok = (np.array_equal(R_, np.arange(m) - m // 2) and np.array_equal(S_, np.arange(n) - n // 2) and
                  np.array_equal(U_, np.arange(M) - M // 2) and np.array_equal(V_, np.arange(N) - N // 2))
            return r, [('dft-cache', 'ok', 'ok' if ok else 'poisoned')], ('dftkey', (m, n, M, N))
        return a, call

    @op('dft2:nearby-shifts')
    def _():
        # two transforms that agree in everything but a shift that differs by less than a millionth of a sample (two points of a
        # finite-difference sensitivity): the second is its own defining sum, whatever was evaluated just before it
        m, n, M, N = (int(x) for x in rng.integers(2, 12, 4))
        a = {'f': rng.normal(size=(m, n)) + 1j * rng.normal(size=(m, n))}
        al = (float(rng.uniform(0.05, 0.3)), float(rng.uniform(0.05, 0.3)))
        s1 = (float(rng.uniform(-3, 3)), float(rng.uniform(-3, 3)))
        d = float(rng.choice([-1, 1])) * float(10 ** rng.uniform(-9, -6.4))
        s2 = (s1[0] + d, s1[1] - d)
        off = (int(rng.integers(-3, 4)), int(rng.integers(-3, 4)))
        def call(a):
            r1 = lentil.fourier.dft2(a['f'], al, shape=(M, N), shift=s1, offset=off)
            r2 = lentil.fourier.dft2(a['f'], al, shape=(M, N), shift=s2, offset=off)
            ref, maxphase = rm.dft_sum(a['f'], al[0], al[1], (M, N), s2, off, True)
            ok = bool(np.max(np.abs(r2 - ref)) <= rm.dft_tol(a['f'], al[0], al[1], maxphase, True))
            return (r1, r2), [('exact-after-neighbour', 'ok', 'ok' if ok else 'off')]
        return a, call

    @op('zernike:supplied-coordinates')
    def _():
        # one caller-owned coordinate grid (float64 arrays of the mask's shape) used for a sub-aperture and then for the full aperture
        shape = gen.rshape(rng, 8, 20)
        ii, jj = np.indices(shape)
        rad = np.hypot(ii - shape[0] / 2, jj - shape[1] / 2)
        rho, theta = rad / rad.max(), np.arctan2(ii - shape[0] / 2, jj - shape[1] / 2)
        sub = (np.hypot(ii - shape[0] * 0.4, jj - shape[1] * 0.6) <= 0.2 * min(shape)).astype(float)
        full = (rad <= 0.45 * min(shape)).astype(float)
        a = {'rho': rho, 'theta': theta, 'sub': sub, 'full': full, 'opd': rng.normal(size=shape), 'coeffs': rng.normal(size=5)}
        def call(a):
            kw = dict(rho=a['rho'], theta=a['theta'])
            return (lentil.zernike(a['sub'], 4, **kw), lentil.zernike(a['full'], 7, **kw), lentil.zernike_basis(a['sub'], [2, 3, 6], **kw),
                    lentil.zernike_compose(a['full'], a['coeffs'], **kw), lentil.zernike_fit(a['opd'] * a['sub'], a['sub'], [1, 2, 3], **kw),
                    lentil.zernike_remove(a['opd'] * a['full'], a['full'], [2, 3], **kw))
        return a, call

    @op('Rotate(angle=array)')
    def _():
        # constructors are calls too: an angle handed over in a NumPy array (one element of a table of angles) stays the caller's
        a = {'angles': rng.uniform(0.1, 1.5, size=3), 'one': np.array(float(rng.uniform(0.1, 1.5)))}
        def call(a):
            r1 = lentil.Rotate(angle=a['angles'][1:2], unit='radians')
            r2 = lentil.Rotate(angle=a['one'], unit='radians')
            r3 = lentil.Rotate(angle=a['one'], unit='degrees')
            return (np.asarray(r1.angle, float), np.asarray(r2.angle, float), np.asarray(r3.angle, float))
        return a, call

    @op('idft2')
    def _():
        m, n = (int(x) for x in rng.integers(1, 14, 2))
        a = {'F': rng.normal(size=(m, n)) + 1j * rng.normal(size=(m, n))}
        return a, lambda a: lentil.fourier.idft2(a['F'], (1 / m, 1 / n), unitary=bool(m % 2))

    @op('zernike_fit')
    def _():
        shape = gen.rshape(rng, 8, 20)
        ii, jj = np.indices(shape)
        mask = (np.hypot(ii - shape[0] // 2, jj - shape[1] // 2) <= 0.45 * min(shape)).astype(float)
        a = {'mask': mask, 'opd': rng.normal(size=shape) * mask, 'coeffs': rng.normal(size=6)}
        def call(a):
            return (lentil.zernike(a['mask'], 5), lentil.zernike_compose(a['mask'], a['coeffs']),
                    lentil.zernike_fit(a['opd'], a['mask'], [1, 2, 3, 4]), lentil.zernike_remove(a['opd'], a['mask'], [2, 3]),
                    lentil.zernike_basis(a['mask'], [1, 4]))
        return a, call

    @op('power_spectrum')
    def _():
        shape = gen.rshape(rng, 6, 24)
        mask = gen.support(rng, shape, kind=3).astype(float)
        return {'mask': mask}, lambda a: (lentil.power_spectrum(a['mask'], 1e-2, 5e-8, 4.0, 3.0, seed=3), lentil.power_spectrum(a['mask'], 1e-2, 5e-8, 4.0, 3.0, seed=0),
                                          lentil.wfe.translation_defocus(a['mask'], 10.0, 1e-4))

    def spectra():
        na, nb = int(rng.integers(3, 20)), int(rng.integers(3, 20))
        ua, ub = [('nm', 1.0), ('um', 1e-3), ('angstrom', 10.0)][int(rng.integers(0, 3))], \
            [('nm', 1.0), ('um', 1e-3)][int(rng.integers(0, 2))]
        wa = np.sort(rng.uniform(400, 900, na)); wb = np.sort(rng.uniform(500, 1000, nb))
        wa = np.linspace(wa[0], wa[-1] + 5, na); wb = np.linspace(wb[0], wb[-1] + 5, nb)
        return ({'wa': wa * ua[1], 'va': rng.uniform(0.1, 1, na), 'wb': wb * ub[1], 'vb': rng.uniform(0.1, 1, nb)}, ua[0], ub[0])

    @op('fit_tilt:nothing-to-fit')
    def _():
        # planes with a constant OPD (nothing to fit): fit_tilt() still returns a copy, and editing the copy in the documented
        # ways leaves the original as it was
        shape, A = aperture()
        a = {'amp': gen.amplitude(rng, A), 'new_opd': gen.opd(rng, shape, 6e-7)}
        which = int(rng.integers(0, 3))
        def call(a):
            p = [lambda: lentil.Pupil(amplitude=a['amp'], pixelscale=1e-3, focal_length=5.0),
                 lambda: lentil.Pupil(amplitude=a['amp'], opd=3e-8, pixelscale=1e-3, focal_length=5.0),
                 lambda: lentil.Plane(amplitude=a['amp'], opd=0, pixelscale=1e-3)][which]()
            fp0 = probe.fingerprint(p)
            q = p.fit_tilt()
            same_obj = 0.0 if q is not p else 1.0
            q.opd = a['new_opd']
            q.fit_tilt(inplace=True)
            q.amplitude = np.asarray(q.amplitude) * 0.5
            w = lentil.Wavefront(6e-7) * p if which < 2 else p.multiply(lentil.Wavefront(6e-7))
            return (w, np.array([same_obj])), [('plane', fp0, probe.fingerprint(p))]
        return a, call

    @op('refusals')
    def _():
        # calls that lentil refuses (they raise): the refusal must leave the caller's operands alone and - because this entry
        # sits in the history between all the others - must not disturb any later result (half-updated caches, leaked state)
        shape, a = pupil_args()
        a['f'] = rng.normal(size=(5, 6)) + 0j
        a['img'] = rng.uniform(1, 100, size=(4, 4))
        a['wa'] = np.linspace(400., 700., 6)
        a['va'] = rng.uniform(0.1, 1, 6)
        def call(a):
            p = mk_pupil(a)
            w = lentil.Wavefront(6e-7) * p
            sp = R.Spectrum(a['wa'], a['va'], waveunit='nm')
            fps = (probe.fingerprint(p), probe.fingerprint(w), probe.fingerprint(sp))
            attempts = [
                lambda: lentil.fourier.dft2(a['f'], 0.1, shape=(4, 4), out=np.zeros((3, 3), complex)),
                lambda: lentil.fourier.dft2(a['f'], (0.1, 0.2, 0.3)),
                lambda: lentil.propagate_dft(w, 5e-6, shape=8, oversample=2, mask=np.ones((3, 3))),
                lambda: lentil.propagate_dft(lentil.Wavefront(6e-7), 5e-6, shape=8),
                lambda: lentil.Pupil(amplitude=a['amp'], pixelscale=2e-3, focal_length=5.0) * w,
                lambda: lentil.Image(amplitude=a['amp'], pixelscale=1e-3) * w,
                lambda: lentil.propagate_fft(w * lentil.Tilt(x=1e-6, y=0), 5e-6),
                lambda: lentil.propagate_fft(w, 5e-6, shape=10 ** 6),
                lambda: D.shot_noise(-a['img'], method='gaussian', seed=1),
                lambda: D.shot_noise(-a['img'], seed=1),
                lambda: sp.to('parsec'),
                lambda: sp * R.Spectrum(a['wa'], a['va'][:-1], waveunit='nm'),
                lambda: R.Spectrum(a['wa'][:3], a['va'], waveunit='nm'),
                lambda: sp.resample(a['wa'][::-1]),
                lambda: sp.sample(a['wa'][:3] / 1e3, method='no-such-method', waveunit='um'),
                lambda: sp.sample(a['wa'][:3] * 10, method='linear', fill_value=object(), waveunit='angstrom'),
                lambda: R.Spectrum(a['wa'][:3], a['va'][:3], waveunit='nm').sample(a['wa'][:2] / 1e3, method='cubic', waveunit='um'),
                lambda: sp.bin(a['wa'][1:4] / 1e3, interp_method='no-such-method', waveunit='um'),
                lambda: lentil.rebin(a['f'], 2),
                lambda: lentil.zernike(a['mask'][0], 0),
                lambda: lentil.pad(a['img'], (2, 3, 4, 5)),
                lambda: D.adc(a['img'], gain=np.ones((2, 2, 2, 2))),
            ]
            flags = []
            for t in attempts:
                try:
                    t()
                    flags.append(0.0)
                except Exception as e:
                    flags.append(1.0 + (sum(map(ord, type(e).__name__)) % 97) / 100.0)
            out = (np.array(flags), lentil.propagate_dft(w, 5e-6, shape=8, oversample=2), sp * 2.0)
            after = (probe.fingerprint(p), probe.fingerprint(w), probe.fingerprint(sp))
            return out, [('plane', fps[0], after[0]), ('wavefront', fps[1], after[1]), ('spectrum-a', fps[2], after[2])]
        return a, call

    @op('Spectrum.to')
    def _():
        a, ua, ub = spectra()
        def call(a):
            # spectra derived from A by scalar arithmetic, one of which is then converted to other wavelength / flux units:
            # A, its siblings and the caller's arrays stay as they were
            A = R.Spectrum(a['wa'], a['va'], waveunit=ua, valueunit='photlam')
            B, C, D_ = A * 0.8, A ** 2, A + 1.0
            fa, fc = probe.fingerprint(A), probe.fingerprint(C)
            to = {'nm': 'um', 'um': 'angstrom', 'angstrom': 'nm'}[ua]
            B.to(to)
            D_.to('flam')
            r = (B, C, D_, A.sample(a['wa'][:3], waveunit=ua))
            return r, [('spectrum-a', fa, probe.fingerprint(A)), ('spectrum-c', fc, probe.fingerprint(C))]
        return a, call

    for name in ('Spectrum.multiply', 'Spectrum.add', 'Spectrum.sample', 'Spectrum.bin', 'Spectrum.integrate'):
        def build(name=name):
            a, ua, ub = spectra()
            def call(a):
                A = R.Spectrum(a['wa'], a['va'], waveunit=ua)
                B = R.Spectrum(a['wb'], a['vb'], waveunit=ub)
                fa, fb = probe.fingerprint(A), probe.fingerprint(B)
                if name == 'Spectrum.multiply':
                    r = (A * B, A * 2.0, 3 * A)
                elif name == 'Spectrum.add':
                    r = (A + B, A - B, A / 2, A ** 2)
                elif name == 'Spectrum.sample':
                    r = (A.sample(np.linspace(450, 850, 7)), A.sample(np.linspace(0.45, 0.85, 5), waveunit='um'))
                elif name == 'Spectrum.bin':
                    r = (A.bin(np.linspace(500, 800, 5), interp_method='trapz'), A.bin(np.linspace(0.5, 0.8, 4), interp_method='trapz', waveunit='um'))
                else:
                    r = np.array([A.integrate(method='trapz'), A.integrate(a['wa'][0], a['wa'][-1], method='simps'), A.asarray().sum()])
                return r, [('spectrum-a', fa, probe.fingerprint(A)), ('spectrum-b', fb, probe.fingerprint(B))]
            return a, call
        ops.append((name, build))

    @op('Wavefront.views')
    def _():
        shape, a = pupil_args()
        a['out'] = np.zeros(shape)
        def call(a):
            w = lentil.Wavefront(6e-7) * mk_pupil(a)
            fw = probe.fingerprint(w)
            r = (w.field, w.intensity, w.insert(np.array(a['out']), 0.5))
            return r, [('wavefront', fw, probe.fingerprint(w))]
        return a, call

    return ops


def run_op(ctx, name, args, call, phase):
    """Execute one catalogue entry; returns (digest, dftkey) or None."""
    g0 = gstate()
    fps = probe.fingerprint(args)
    try:
        with warnings.catch_warnings():
            warnings.simplefilter('ignore')
            with np.errstate(all='ignore'):
                e0, p0 = dict(np.geterr()), dict(np.get_printoptions())
                try:
                    out = call(args)
                finally:
                    e1, p1 = dict(np.geterr()), dict(np.get_printoptions())
                    ctx.check(e0 == e1 and p0 == p1, 'global-state-untouched', f'global-state|{name}',
                              f'{name} left numpy\'s process-wide floating-point error mode / print options changed',
                              {'op': name, 'before': e0, 'after': e1})
    except Exception as e:
        tb = traceback.extract_tb(e.__traceback__)
        site = next((f'{f.filename.split("/lentil/")[-1]}:{f.name}' for f in reversed(tb) if '/lentil/' in f.filename), 'harness')
        if 'read-only' in str(e) or 'WRITEABLE' in str(e) or 'not writeable' in str(e):
            ctx.check(False, 'frozen-inputs', f'write-trap|{name}|{site}',
                      f'{name} stores into a caller-owned array (trapped on a read-only buffer at {site})',
                      {'op': name, 'site': site, 'error': str(e)[:160], 'phase': phase})
        else:
            ctx.check(False, 'inputs-unchanged', f'op-raises|{name}|{type(e).__name__}',
                      f'catalogue operation {name} raised {type(e).__name__}: {e}', {'op': name, 'site': site, 'phase': phase})
        return None
    extra = []
    key = None
    if isinstance(out, tuple) and len(out) >= 2 and isinstance(out[1], list) and all(isinstance(t, tuple) and len(t) == 3 for t in out[1]):
        if len(out) == 3:
            key = out[2]
        out, extra = out[0], out[1]
    ok_args = probe.fingerprint(args) == fps
    if phase == 'frozen':
        ctx.check(True, 'frozen-inputs', 'ok', 'ok')
    ctx.check(ok_args, 'inputs-unchanged', f'mutated|{name}|arguments',
              f'{name} modified an array supplied by the caller', {'op': name, 'phase': phase})
    for label, before, after in extra:
        if label == 'dft-cache':
            ctx.check(after == 'ok', 'dft-cache-intact', 'dft-cache|poisoned',
                      'cached DFT coordinate vectors no longer equal arange(n) - floor(n/2)', {'op': name})
        elif label == 'exact-after-neighbour':
            ctx.check(after == 'ok', 'history-deterministic', f'nondeterministic|{name}|defining-sum',
                      f'{name}: a transform evaluated right after one with an almost equal shift is not its own defining sum '
                      '(the result depends on what was evaluated before it)', {'op': name, 'phase': phase})
        elif label == 'repeat':
            ctx.check(after == 'same', 'history-deterministic', f'nondeterministic|{name}|repeat',
                      f'{name}: repeating the call on the same operands gave a different result (or changed an earlier result)',
                      {'op': name, 'phase': phase})
        else:
            ctx.check(before == after, 'inputs-unchanged', f'mutated|{name}|{label}',
                      f'{name} modified a caller-owned {label.split("-")[0]}', {'op': name, 'object': label, 'phase': phase})
    ctx.check(gstate() == g0, 'global-rng-untouched', f'rng|advanced|{name}',
              f'{name} read or advanced the global random state', {'op': name})
    return result_digest(out), key


def install(ctx, lentil):
    pass


def workload(ctx, lentil):
    defaults.run(ctx, lentil, 'C10', 'frozen-inputs')
    reuse.run(ctx, lentil, 'C10', 'frozen-inputs')
    argforms.run(ctx, lentil, 'C10', 'frozen-inputs')
    corners.run(ctx, lentil, 'C10', 'frozen-inputs')
    rng = ctx.rng
    rounds = ctx.count(6, 40)
    history = []           # (name, args (pristine copy), call, digest)
    dftkeys = set()
    for rd in range(rounds):
        ops = catalogue(lentil, rng)
        order = rng.permutation(len(ops))
        for idx in order:
            name, build = ops[int(idx)]
            args, call = build()
            pristine = copy_tree(args)
            ctx.case({'op': name, 'args': probe.fingerprint(args)[-24:], 'round': rd}, [f'op:{name}'])
            np.random.seed(int(rng.integers(0, 2 ** 32)))
            r = run_op(ctx, name, freeze_tree(args), call, 'frozen')          # phase A: write sanitizer
            r2 = run_op(ctx, name, copy_tree(pristine), call, 'writable')      # phase B: shadow state
            if r is not None and r2 is not None:
                ctx.check(same_digest(r[0], r2[0]), 'history-deterministic', f'nondeterministic|{name}|immediate',
                          f'{name}: repeating the call with equal arguments gave a different result', {'op': name})
                if r[1] is not None:
                    dftkeys.add(r[1][1])
                history.append((name, pristine, call, r2[0]))
            # interleave: replay an older entry of the history (unrelated calls in between)
            if history and rng.random() < 0.6:
                hname, hargs, hcall, hdig = history[int(rng.integers(0, len(history)))]
                ctx.bucket('replayed')
                rr = run_op(ctx, hname, copy_tree(hargs), hcall, 'replay')
                if rr is not None:
                    ctx.check(same_digest(rr[0], hdig), 'history-deterministic', f'nondeterministic|{hname}|history',
                              f'{hname}: the same call gave a different result later in the history', {'op': hname, 'round': rd})
        history = history[-300:]
    # force > 32 DFT shape keys and re-check early keys afterwards (cache eviction and reuse)
    first = []
    for k in range(48):
        m, n, M, N = (int(x) for x in rng.integers(1, 12, 4))
        f = rng.normal(size=(m, n)) + 0j
        r = lentil.fourier.dft2(f, 0.1, shape=(M, N))
        dftkeys.add((m, n, M, N))
        if k < 8:
            first.append((f, (M, N), r.copy()))
    for f, shp, r0 in first:
        r1 = lentil.fourier.dft2(f, 0.1, shape=shp)
        ctx.check(np.allclose(r1, r0, rtol=1e-12, atol=1e-13), 'history-deterministic', 'nondeterministic|dft2|after-eviction',
                  'dft2 gave a different result after its cache entry was evicted and rebuilt', {'shape': list(shp)})
        R_, S_, U_, V_ = lentil.fourier._dft2_coords(f.shape[0], f.shape[1], shp[0], shp[1])
        ok = np.array_equal(R_, np.arange(f.shape[0]) - f.shape[0] // 2) and np.array_equal(V_, np.arange(shp[1]) - shp[1] // 2)
        ctx.check(ok, 'dft-cache-intact', 'dft-cache|poisoned', 'cached DFT coordinate vectors are wrong', {'shape': list(shp)})
    if len(dftkeys) > 32:
        ctx.bucket('dft-keys>32')

    # ---- path independence: random programs over one plane ---------------------------------------------------
    nprog = ctx.count(14, 120)
    for i in range(nprog):
        wl, z, dx, du, os_ = gen.optics(rng, aniso_p=0.4)
        dxs = np.broadcast_to(np.asarray(dx, float), (2,))
        dus = np.broadcast_to(np.asarray(du, float), (2,))
        shape = gen.rshape(rng, 6, 14)
        A = gen.support(rng, shape, kind=int(rng.choice([0, 1, 4])))
        if A.sum() < 8 or np.linalg.matrix_rank(np.c_[np.ones(int(A.sum())), np.argwhere(A)]) < 3:
            A = np.ones(shape, bool)
        seg = bool(rng.random() < 0.4)
        segs = gen.partition(rng, A, int(rng.integers(2, 4)))[0] if seg else A[None]
        if any(np.linalg.matrix_rank(np.c_[np.ones(int(sg.sum())), np.argwhere(sg)]) < 3 for sg in segs):
            segs, seg = A[None], False
        amp = gen.amplitude(rng, A)
        eff = gen.opd(rng, shape, wl, smooth=True) * A
        oshape = gen.rshape(rng, 6, 12)
        S = (oshape[0] * os_, oshape[1] * os_)
        ar = dxs[0] * dus[0] / (wl * z * os_)
        ac = dxs[1] * dus[1] / (wl * z * os_)
        plane = lentil.Pupil(amplitude=amp.copy(), opd=eff.copy(), mask=(segs.astype(float) if seg else A.astype(float)),
                             pixelscale=dx, focal_length=z)
        L = int(rng.integers(2, 13))
        prog = []
        for step in range(L):
            act = ['set_amp', 'add_opd', 'fit', 'fit', 'copy', 'fit_copy'][int(rng.integers(0, 6))]
            prog.append(act)
            if act == 'set_amp':
                amp = gen.amplitude(rng, A) * float(rng.uniform(0.5, 2))
                plane.amplitude = amp.copy()
            elif act == 'add_opd':
                sp = rng.uniform(-0.15, 0.15, size=2) * np.array(S)
                d = C04.ramp(shape, dxs, sp[0] * dus[0] / (z * os_), -sp[1] * dus[1] / (z * os_)) + gen.opd(rng, shape, wl, smooth=True) * 0.3
                eff = eff + d * A
                plane.opd = np.asarray(plane.opd) + d * (A if not seg else 1)
                if seg:
                    # segmented fit_tilt rebuilds the OPD inside the masks only: keep the model on the support
                    pass
            elif act == 'fit':
                plane.fit_tilt(inplace=True)
            elif act == 'copy':
                plane = plane.copy()
            else:
                plane = plane.fit_tilt(inplace=False)
            desc = {'program': list(prog), 'shape': list(shape), 'seg': int(len(segs)) if seg else 0, 'out': list(oshape), 'os': os_,
                    'wl': wl, 'z': z, 'dx': dx, 'du': du}
            try:
                out = lentil.propagate_dft(lentil.Wavefront(wl) * plane, du, shape=oshape, oversample=os_)
            except Exception as e:
                ctx.check(False, 'path-independent', f'program|raises={type(e).__name__}', str(e), desc)
                break
            fields = [[(amp * sg * np.exp(2j * np.pi * eff / wl), (0, 0))] for sg in segs]
            before = dict(ctx.violations)
            st = C04.compare_rep(ctx, 'program', out, fields, [(0.0, 0.0)] * len(segs), ar, ac, S, desc)
            # re-key C04's comparison as this property's oracle
            for k in list(ctx.violations):
                if k not in before and k.startswith('rep|'):
                    v = ctx.violations.pop(k)
                    v['key'] = 'program|state-vs-model'
                    v['what'] = 'the propagated result depends on the path by which the plane reached its state'
                    ctx.violations.setdefault('program|state-vs-model', v)
            if st == 'compared':
                ctx.oracle_evals['path-independent'] += 1
        ctx.case({'program': prog, 'shape': list(shape), 'seg': bool(seg)}, ['program'])
