"""C15 — Spectrum integration, binning and resizing keep the spectrum well-formed.

Reference: exact integrals of the piecewise-linear interpolant (own implementation).  Histories: random
sequences of crop / trim / pad / append / resample on one long-lived spectrum; after every operation —
whether it returned or raised — the class invariant and the operation's postcondition are evaluated (online
probes on the five editing methods, evaluated when the outermost call returns).
"""
import numpy as np

from vp import probe, specmodel as sm
from vp import defaults
from vp import reuse
from vp import forms as argforms
from vp import corners

RULE = ('seeded generator: nanometre spectra with 2..40 samples on uniform and non-uniform grids, integration bounds at and '
        'between samples, bin-centre sets of any spacing (trapz) or uniform (simps), both end treatments, with/without '
        'power preservation; histories of 1..12 editing operations (valid and invalid arguments) on one spectrum. '
        'distinct = distinct (grid hash, operation, arguments | operation sequence) descriptors; non-trivial = spectrum with '
        '> 2 samples.')
ASSUMPTIONS = ['unitless (valueunit None) spectra stored in m / um / nm / angstrom; editing histories in nm',
               'the spectrum\'s integral is that of its piecewise-linear interpolant, evaluated independently (bounds may fall between samples)',
               "Simpson's rule is exercised only with uniformly spaced centres and data, as the property scopes it"]
PLAN = {'quick': {'gen': 8}, 'thorough': {'gen': 16, 'tests': 1, 'docs': 1}}
REQUIRED_BUCKETS = ['defaults', 'corners', 'reuse', 'forms', 'bin:density', 'bin:density:unit-differs', 'bin:spiky', 'bin:narrow-line', 'crop:outside-data', 'bin:integer-centres', 'values:small-int', 'bin:zero-spectrum', 'integrate:bright-band-below-bounds', 'wave:integer-dtype', 'unit:m', 'unit:um', 'unit:nm', 'unit:angstrom', 'bin:unit-same', 'bin:unit-differs', 'integrate:trapz', 'integrate:simps', 'bin:trapz', 'bin:simps', 'ends:symmetric', 'ends:inside',
                    'preserve:True', 'preserve:False', 'grid:nonuniform', 'op:crop', 'op:trim', 'op:pad', 'op:append', 'value:narrow-dtype', 'resample:short-narrow', 'value:signed', 'bin:narrow-float-centres', 'bin:fill-pair', 'wave:narrow-float', 'integrate:wave-narrow-float', 'integrate:wave-integer', 'integrate:extended-precision',
                    'op:resample', 'op:raised', 'history:len>=6']
REQUIRED_ANCHORS = ['probe:Spectrum.crop', 'probe:Spectrum.trim', 'probe:Spectrum.pad', 'probe:Spectrum.append',
                    'probe:Spectrum.resample', 'anchor:Spectrum.integrate', 'anchor:Spectrum.bin', 'anchor:Spectrum.ends']
REQUIRED_ORACLES = ['integrate:linear', 'integrate:additive', 'integrate:exact-pl', 'integrate:simps-linear', 'integrate:simps-positive', 'bin:count', 'bin:nonnegative',
                    'bin:exact-linear', 'bin:power', 'invariant', 'retained', 'crop:closed-range', 'trim:first-last']


def anchors(lentil):
    S = lentil.radiometry.Spectrum
    return [('Spectrum.integrate', S.integrate), ('Spectrum.bin', S.bin), ('Spectrum.ends', S.ends),
            ('Spectrum.sample', S.sample)]


def snapshot(s):
    return np.array(s._wave, float, copy=True), np.array(s._value, float, copy=True)


def invariant(ctx, s, op, info):
    w, v = np.asarray(s._wave), np.asarray(s._value)
    if w.dtype.kind in 'biu':
        w = w.astype(float)         # (differences of unsigned integers wrap around: compare as numbers)
    ok = (w.ndim == 1 and v.shape == w.shape and bool(np.all(w > 0)) and bool(np.all(np.diff(w) > 0)))
    ctx.check(ok, 'invariant', f'invariant|after={op}|{info["outcome"]}',
              'spectrum is not a strictly increasing positive wavelength grid with one value per wavelength',
              dict(info, nw=list(w.shape), nv=list(v.shape)))
    return ok


_VALUE_EPS = {}      # id(spectrum) -> machine epsilon of the type its values were held in before the operation


def retained(ctx, s, pre, op, info):
    w0, v0 = pre
    w, v = np.asarray(s._wave, float), np.asarray(s._value, float)
    if w.shape != v.shape:
        return
    common, i0, i1 = np.intersect1d(w0, w, return_indices=True)
    sc = max(float(np.max(np.abs(v0))) if v0.size else 0.0, 1e-300)
    # "unaltered" is to rounding at the precision the values are held in (an interpolator may evaluate single-precision data in
    # single precision: one ulp of that type is not an alteration)
    tol = 1e-12
    ok = bool(np.all(np.abs(v0[i0] - v[i1]) <= tol * sc)) if common.size else True
    ctx.check(ok, 'retained', f'retained|{op}', 'an editing operation altered a sample it retained', info)


def make_edit_oracle(op):
    def before(ctx, args, kwargs):
        vdt = np.asarray(args[0]._value).dtype
        _VALUE_EPS[id(args[0])] = float(np.finfo(vdt).eps) if vdt.kind == 'f' else 0.0
        return snapshot(args[0])

    def wellformed(pre):
        w, v = pre
        return w.ndim == 1 and v.shape == w.shape and bool(np.all(w > 0)) and bool(np.all(np.diff(w) > 0))

    def oracle(ctx, args, kwargs, result, exc, pre):
        s = args[0]
        info = {'op': op, 'args': [core_repr(a) for a in args[1:]], 'kwargs': {k: core_repr(v) for k, v in kwargs.items()},
                'outcome': 'raised:' + type(exc).__name__ if exc is not None else 'returned', 'n_before': int(pre[0].size)}
        if not wellformed(pre):
            ctx.skip('edit on a spectrum that an earlier (already reported) operation left malformed')
            return
        ctx.bucket(f'op:{op}')
        if exc is not None:
            ctx.bucket('op:raised')
        target = s
        if op == 'append' and exc is None and (kwargs.get('copy') or (len(args) > 2 and args[2])):
            target = result
            # the receiver of a copying append is untouched
            w, v = snapshot(s)
            ctx.check(np.array_equal(w, pre[0]) and np.array_equal(v, pre[1]), 'retained', 'append|copy-mutated',
                      'append(copy=True) modified the receiver', info)
        if not invariant(ctx, target, op, info):
            return
        retained(ctx, target, pre, op, info)
        if exc is not None and op == 'crop' and all(isinstance(a_, (int, float, np.floating, np.integer)) and np.isfinite(a_)
                                                    for a_ in list(args[1:3]) + [kwargs.get(k_) for k_ in ('min_wave', 'max_wave') if k_ in kwargs]):
            # a closed range that holds no sample keeps no sample: that is a result (the empty spectrum), not an error
            ctx.check(False, 'crop:closed-range', f'crop|raises={type(exc).__name__}',
                      f'crop with numeric bounds raised {type(exc).__name__}: {exc}', info)
            return
        if exc is not None:
            # the property constrains the state that is left behind (well-formed, retained samples untouched), not
            # whether an operation that raised had an effect; the exact-range postconditions apply to returns only
            return
        w0, v0 = pre
        w, v = snapshot(target)
        if op == 'crop':
            lo, hi = (list(args[1:]) + [kwargs.get('min_wave'), kwargs.get('max_wave')])[:2] if len(args) > 2 else \
                (kwargs.get('min_wave', args[1] if len(args) > 1 else None), kwargs.get('max_wave', args[2] if len(args) > 2 else None))
            keep = (w0 >= lo) & (w0 <= hi)
            ctx.check(np.array_equal(w, w0[keep]) and np.array_equal(v, v0[keep]), 'crop:closed-range', 'crop|range',
                      'crop did not keep exactly the samples inside the closed range', info)
        elif op == 'trim':
            tol = kwargs.get('tol', args[1] if len(args) > 1 else 1e-4)
            if v0.size and np.any(v0) and np.max(v0) > 0:
                above = np.nonzero(v0 / np.max(v0) > tol)[0]
                # samples within rounding of the threshold may go either way
                ratio = v0 / np.max(v0)
                tie = np.abs(ratio - tol) <= 1e-12
                if above.size and not tie.any():
                    ref = slice(above[0], above[-1] + 1)
                    ctx.check(np.array_equal(w, w0[ref]) and np.array_equal(v, v0[ref]), 'trim:first-last', 'trim|range',
                              'trim did not keep exactly the samples from the first to the last above tol*max', info)
            elif not np.any(v0):
                ctx.check(np.array_equal(w, w0), 'trim:first-last', 'trim|all-zero', 'trim changed an all-zero spectrum', info)
        elif op == 'append':
            # the joined spectrum holds the receiver's samples followed by the appended ones, each exactly as it was (whatever types
            # the two operands are stored in)
            oth = args[1] if len(args) > 1 else kwargs.get('spectrum', kwargs.get('other'))
            if hasattr(oth, '_wave'):
                ow_, ov_ = snapshot(oth)
                ctx.check(np.array_equal(w, np.r_[w0, ow_]) and np.array_equal(v, np.r_[v0, ov_]), 'retained', 'append|joined',
                          'the spectrum after append is not the receiver\'s samples followed by the appended samples, unaltered', info)
        elif op == 'pad':
            inside = (w >= w0[0]) & (w <= w0[-1])
            ctx.check(np.array_equal(w[inside], w0), 'retained', 'pad|inner', 'pad changed the original samples', info)
    oracle.before = before
    return oracle


def core_repr(x):
    if isinstance(x, np.ndarray):
        return x.tolist() if x.size <= 12 else f'ndarray{x.shape}'
    if hasattr(x, '_wave'):
        return f'Spectrum(n={np.size(x._wave)})'
    return x if isinstance(x, (int, float, str, bool, type(None), list, tuple)) else repr(x)


def install(ctx, lentil):
    S = lentil.radiometry.Spectrum
    for op in ('crop', 'trim', 'pad', 'append', 'resample'):
        probe.wrap_method(S, op, make_edit_oracle(op), ctx)


# ---------------------------------------------------------------------------

def rgrid(rng, n, uniform):
    lo = float(rng.uniform(300, 800))
    if uniform:
        return lo + np.arange(n) * float(rng.uniform(0.5, 20))
    return lo + np.cumsum(rng.uniform(0.5, 20, size=n))


def workload(ctx, lentil):
    defaults.run(ctx, lentil, 'C15', 'integrate:linear')
    reuse.run(ctx, lentil, 'C15', 'integrate:linear')
    argforms.run(ctx, lentil, 'C15', 'integrate:linear')
    corners.run(ctx, lentil, 'C15', 'integrate:linear')
    rng = ctx.rng
    S = lentil.radiometry.Spectrum
    n = ctx.count(140, 1000)
    # ---- integrate ----------------------------------------------------------------------------------
    for i in range(n):
        m = int(rng.integers(3, 41))
        uni = bool(rng.random() < 0.5)
        w = rgrid(rng, m, uni)
        v1, v2 = rng.uniform(0, 3, size=m), rng.normal(size=m)
        method = 'trapz' if rng.random() < 0.6 else 'simps'
        unit = sm.WAVE_CANON[int(rng.integers(0, 4))]
        w = w * sm.wave_factor('nm', unit)          # the same grid stored in m / um / nm / angstrom
        desc = {'integrate': method, 'n': m, 'uniform': uni, 'unit': unit, 'w': probe.fp_array(w)[:8]}
        ctx.case(desc, [f'integrate:{method}', f'unit:{unit}'] + ([] if uni else ['grid:nonuniform']), nontrivial=m > 2)
        mk = lambda ww, vv, _u=unit: S(ww, vv, waveunit=_u)
        a, b = float(rng.normal()), float(rng.normal())
        i0, i1 = sorted(rng.choice(m, 2, replace=False))
        if i % 5 == 2 and m >= 6:
            # huge dynamic range: a band 1e8..1e18 times brighter than the rest lies entirely below the lower bound (a laser line
            # ahead of a faint continuum, the Planck peak ahead of its tail): the integral of the interval does not feel it
            kb = int(rng.integers(1, m // 2))
            v1 = v1.copy()
            v1[:kb] *= 10.0 ** float(rng.uniform(8, 18))
            i0 = int(rng.integers(kb + 1, m - 1))
            i1 = int(rng.integers(i0 + 1, m))
            ctx.bucket('integrate:bright-band-below-bounds')
        at_samples = rng.random() < 0.6
        lo, hi = (w[i0], w[i1]) if at_samples else (w[i0] + 0.3 * (w[i0 + 1] - w[i0]), w[i1] - 0.3 * (w[i1] - w[i1 - 1]))
        if rng.random() < 0.25 and not (i % 5 == 2 and m >= 6):
            lo = hi = None
        if lo is not None and not np.any((w >= lo) & (w <= hi)):
            ctx.bucket('integrate:no-sample-inside-bounds')
        try:
            I1 = mk(w, v1).integrate(lo, hi, method)
            I2 = mk(w, v2).integrate(lo, hi, method)
            I12 = mk(w, a * v1 + b * v2).integrate(lo, hi, method)
        except Exception as e:
            ctx.check(False, 'integrate:linear', f'integrate|raises={type(e).__name__}', str(e), desc)
            continue
        sc = abs(a * I1) + abs(b * I2) + 1e-300
        ctx.close('integrate:linear', np.array([I12]), np.array([a * I1 + b * I2]), 1e-10, f'integrate|linear|{method}',
                  'integration is not linear in the values', desc, scale=sc)
        if method == 'simps' and uni:
            # Simpson's rule on uniformly sampled data: (a) exact when the data are one straight line, wherever the bounds fall;
            # (b) every sample enters with a positive weight between 2/3 and 4/3 of its trapezoid weight, so the estimate for
            # non-negative data lies within that band around the exact integral of the piecewise-linear spectrum
            L = w[0] if lo is None else max(lo, w[0])
            H = w[-1] if hi is None else min(hi, w[-1])
            if H > L:
                between = lo is not None and not at_samples
                tag = '|bounds-between-samples' if between else ''
                pq = rng.uniform(0.1, 2, size=2)
                vl = pq[0] + pq[1] * (w - w[0]) / (w[-1] - w[0])
                Il = mk(w, vl).integrate(lo, hi, 'simps')
                ctx.close('integrate:simps-linear', np.array([Il]), np.array([sm.integral_pl(w, vl, L, H)]), 1e-11,
                          'integrate|simps|straight-line' + tag, "Simpson's rule is not exact for a straight line on a uniform grid", desc,
                          scale=float(np.max(vl)) * (H - L))
                # spiky non-negative data (a line on a dark continuum) next to the smooth kind
                vs = np.zeros(m)
                kk = rng.choice(m, int(rng.integers(1, 3)), replace=False)
                vs[kk] = rng.uniform(0.5, 100, size=len(kk))
                if i % 3 == 0:
                    vs[[0, -1][i % 2]] = 100.0
                for nm_, vv_ in (('smooth', v1 if i % 5 != 2 else None), ('spiky', vs)):
                    if vv_ is None:
                        continue
                    Ip = mk(w, vv_).integrate(lo, hi, 'simps')
                    ex = sm.integral_pl(w, vv_, L, H)
                    slack = 1e-9 * float(np.max(vv_)) * (H - L)
                    ctx.check(bool(2 / 3 * ex - slack <= Ip <= 4 / 3 * ex + slack), 'integrate:simps-positive', f'integrate|simps|outside-positive-weight-band|{nm_}' + tag,
                              "Simpson's estimate for non-negative uniformly sampled data lies outside [2/3, 4/3] of the exact integral of the "
                              'piecewise-linear spectrum (a sample entered with a negative or oversized weight)',
                              dict(desc, got=float(Ip), exact_pl=float(ex), values=nm_, lo=None if lo is None else float(lo), hi=None if hi is None else float(hi)))
        if method == 'trapz':
            # exact for piecewise-linear data over the requested interval (bounds that fall between two samples cut the
            # interval they fall in; beyond the data there is nothing to integrate)
            L = w[0] if lo is None else max(lo, w[0])
            H = w[-1] if hi is None else min(hi, w[-1])
            if H > L:
                ref = sm.integral_pl(w, v1, L, H)
                between = lo is not None and not at_samples
                ctx.close('integrate:exact-pl', np.array([I1]), np.array([ref]), 1e-11, 'integrate|exact' + ('|bounds-between-samples' if between else ''),
                          'trapezoid integration is not exact for piecewise-linear data over the requested interval', desc,
                          scale=abs(ref) + float(np.max(np.abs(v1))) * (H - L) * 1e-3 + 1e-300)
            # additive over adjacent intervals meeting at a sample point
            j0, jm, j1 = sorted(rng.choice(m, 3, replace=False))
            sp = mk(w, v1)
            whole = sp.integrate(w[j0], w[j1], 'trapz')
            parts = sp.integrate(w[j0], w[jm], 'trapz') + sp.integrate(w[jm], w[j1], 'trapz')
            ctx.close('integrate:additive', np.array([parts]), np.array([whole]), 1e-11, 'integrate|additive',
                      'integration is not additive over adjacent intervals that meet at a sample point', desc,
                      scale=abs(whole) + 1e-300)
    # ---- wavelength grids held in single / half precision: the same numbers as doubles, the same integral ---------------------
    # (and integer-typed grids - whole nanometres from a file, np.arange(400, 701): bounds between the samples are still fractions)
    for i in range(max(12, n // 6)):
        wf = [np.float32, np.float16, np.int32, np.uint16, np.int64, np.uint64, np.longdouble, np.float64][i % 8]
        m = int(rng.integers(3, 12))
        integer = np.dtype(wf).kind in 'iu'
        if integer:
            wn = np.unique(rng.integers(300, 2000, size=m)).astype(wf)
            if wn.size < 3:
                continue
            m = int(wn.size)
        else:
            wn = np.sort(rng.uniform(300, 2000, size=m)).astype(wf)
        if np.any(np.diff(wn.astype(float)) <= 0):
            continue
        vv = rng.uniform(0.5, 3, size=m)
        if i % 8 >= 6:
            # extended precision columns (values, wavelengths or both): the same numbers
            vv = vv.astype(np.longdouble)
            ctx.bucket('integrate:extended-precision')
        tag = 'wave-integer' if integer else 'wave-narrow-float'
        ctx.case({'integrate-narrow-wave': np.dtype(wf).name, 'n': m}, ['integrate:' + tag])
        try:
            for mth in ('trapz', 'simps'):
                lo_, hi_ = float(wn[0]) + 0.37 * float(wn[1] - wn[0]), float(wn[-1]) - 0.41 * float(wn[-1] - wn[-2])
                for bounds in ((None, None), (lo_, hi_)):
                    Ia = float(S(wn.copy(), vv.copy()).integrate(bounds[0], bounds[1], mth))
                    Ib = float(S(wn.astype(float), vv.astype(float)).integrate(bounds[0], bounds[1], mth))
                    # (Simpson's rule on these non-uniform grids has weights of either sign: a result that has cancelled is measured
                    # against the size of the integrand times the range, not against itself)
                    nat = float(np.max(np.abs(vv.astype(float)))) * float(wn[-1] - wn[0]) if mth == 'simps' else 0.0
                    ctx.close('integrate:exact-pl', np.array([Ia]), np.array([Ib]), 1e-12, f'integrate|{tag}|{mth}',
                              'the integral over a wavelength grid held in single / half precision or an integer type differs from that over the same numbers as doubles',
                              {'dtype': np.dtype(wf).name, 'method': mth, 'bounds': list(bounds)}, scale=max(abs(Ib), nat) + 1e-300)
                    if mth == 'trapz':
                        L_, H_ = (float(wn[0]), float(wn[-1])) if bounds[0] is None else bounds
                        ex_ = sm.integral_pl(wn.astype(float), vv.astype(float), L_, H_)
                        ctx.close('integrate:exact-pl', np.array([Ia]), np.array([ex_]), 1e-11, f'integrate|{tag}|exact',
                                  'trapezoid integration over a grid held in a narrow / integer type is not exact for piecewise-linear data', 
                                  {'dtype': np.dtype(wf).name, 'bounds': list(bounds)}, scale=abs(ex_) + 1e-300)
        except Exception as e:
            ctx.check(False, 'integrate:exact-pl', f'integrate|{tag}|raises={type(e).__name__}', str(e), {'dtype': np.dtype(wf).name})
    # ---- bin -------------------------------------------------------------------------------------------
    for i in range(n):
        method = 'trapz' if rng.random() < 0.6 else 'simps'
        m = int(rng.integers(4, 41))
        uni_data = True if method == 'simps' else bool(rng.random() < 0.5)
        w = rgrid(rng, m, uni_data)
        ends = 'symmetric' if rng.random() < 0.5 else 'inside'
        preserve = bool(rng.random() < 0.5)
        nb = int(rng.integers(2, 12))
        span = w[-1] - w[0]
        if method == 'simps' or rng.random() < 0.4:
            c = np.linspace(w[0] + rng.uniform(0.05, 0.3) * span, w[-1] - rng.uniform(0.05, 0.3) * span, nb)
        else:
            c = np.sort(rng.uniform(w[0] + 0.05 * span, w[-1] - 0.05 * span, nb))
            if np.min(np.diff(c)) < span * 1e-3:
                c = np.linspace(c[0], c[-1], nb)
        if rng.random() < 0.2:      # centres partly outside the data (fill value 0 there)
            c = c + 0.4 * span
        linear = rng.random() < 0.5
        if linear:
            p = rng.uniform(0.1, 2, size=2)
            v = p[0] + p[1] * (w - w[0]) / span
        elif rng.random() < 0.3:
            # a line or an edge on a dark continuum (non-negative, far from smooth)
            v = np.zeros(m)
            kk = rng.choice(m, int(rng.integers(1, 3)), replace=False)
            v[kk] = rng.uniform(0.5, 100, size=len(kk))
            if i % 2:
                v[[0, -1][(i // 2) % 2]] = 100.0
            ctx.bucket('bin:spiky')
        else:
            v = rng.uniform(0, 3, size=m)
        # the spectrum is stored in unit u_s, the bin centres are given in unit u_c (waveunit=u_c); the reference below
        # works entirely in u_c (a unitless spectrum keeps its values under a wavelength-unit conversion)
        u_s = sm.WAVE_CANON[int(rng.integers(0, 4))]
        u_c = u_s if rng.random() < 0.6 else sm.WAVE_CANON[int(rng.integers(0, 4))]
        # ... and a per-wavelength density (photlam / wlam / flam) keeps the power in every bin: its values scale inversely
        vu = None if i % 3 else ['photlam', 'wlam', 'flam'][(i // 3) % 3]
        sp = S(w * sm.wave_factor('nm', u_s), v, waveunit=u_s, valueunit=vu)
        if vu is not None:
            v = v / (sm.wave_factor('nm', u_c) / sm.wave_factor('nm', u_s))
            ctx.bucket('bin:density' + (':unit-differs' if u_s != u_c else ''))
        w, c, span = w * sm.wave_factor('nm', u_c), c * sm.wave_factor('nm', u_c), span * sm.wave_factor('nm', u_c)
        desc = {'bin': method, 'ends': ends, 'preserve': preserve, 'n': m, 'nb': nb, 'linear': bool(linear),
                'units': [u_s, u_c], 'valueunit': vu, 'w': probe.fp_array(w)[:8], 'c': probe.fp_array(c)[:8]}
        ctx.case(desc, [f'bin:{method}', f'ends:{ends}', f'preserve:{preserve}', 'bin:unit-same' if u_s == u_c else 'bin:unit-differs']
                 + ([] if uni_data else ['grid:nonuniform']))
        fp_sp = probe.fingerprint(sp)
        if preserve:
            if method == 'trapz':
                # the spectrum's integral over the span of the centres (piecewise-linear data, whatever the span's ends fall on)
                Lc, Hc = max(float(np.min(c)), float(w[0])), min(float(np.max(c)), float(w[-1]))
                tot = sm.integral_pl(w, v, Lc, Hc) if Hc > Lc else 0.0
            else:
                # Simpson's rule has no closed form for bounds between samples: the total is decided below by the band that
                # positive Simpson weights on a uniform grid imply, around the exact integral of the piecewise-linear spectrum
                Lc, Hc = max(float(np.min(c)), float(w[0])), min(float(np.max(c)), float(w[-1]))
                tot = sm.integral_pl(w, v, Lc, Hc) if Hc > Lc else 0.0
            if not np.isfinite(tot) or abs(tot) < 1e-9 * sm.wave_factor('nm', u_c):
                ctx.skip('bin: zero power inside the centres (0/0)')
                continue
        try:
            with np.errstate(all='ignore'):
                if u_c == 'nm' and rng.random() < 0.5:
                    bins = sp.bin(c, interp_method=method, ends=ends, preserve_power=preserve)
                elif i % 4 == 1:
                    # the documented two-element fill value (below / above the data) in every array-like form; zeros, i.e. the default
                    ctx.bucket('bin:fill-pair')
                    bins = sp.bin(c, interp_method=method, ends=ends, preserve_power=preserve, waveunit=u_c,
                                  fill_value=[(0, 0), [0, 0], np.array([0., 0.])][(i // 4) % 3])
                else:
                    bins = sp.bin(c, interp_method=method, ends=ends, preserve_power=preserve, waveunit=u_c)
        except Exception as e:
            ctx.check(False, 'bin:count', f'bin|raises={type(e).__name__}', str(e), desc)
            continue
        bins = np.asarray(bins, float)
        ctx.check(probe.fingerprint(sp) == fp_sp, 'bin:count', 'bin|spectrum-modified', 'bin modified the spectrum it was called on', desc)
        ctx.check(bins.shape == (nb,), 'bin:count', 'bin|count', 'bin does not return one value per requested centre',
                  dict(desc, got=list(bins.shape)))
        if bins.shape != (nb,):
            continue
        ctx.check(bool(np.all(bins >= -1e-12 * (np.max(np.abs(bins)) + 1e-300))), 'bin:nonnegative', f'bin|negative|{method}',
                  'binning a non-negative spectrum gave a negative bin', desc)
        zero_bins = False
        if preserve and not linear and np.all(bins == 0):
            # (recorded finding, by mechanism: the bins are built from samples of the spectrum at the bin edges - and centres, for
            # Simpson's rule - only; a line that lies between all of them leaves every bin empty)
            mids_ = c[:-1] + np.diff(c) / 2
            h0_, h1_ = (c[1] - c[0]) / 2, (c[-1] - c[-2]) / 2
            outer_ = [c[0] - h0_, c[-1] + h1_] if ends == 'symmetric' else [c[0], c[-1]]
            pts_ = np.concatenate([mids_, outer_] + ([c] + ([[c[0] + h0_ / 2, c[-1] - h1_ / 2]] if ends == 'inside' else []) if method == 'simps' else []))
            zero_bins = bool(np.all(sm.interp_linear(pts_, w, v, 0.0) == 0))
        if zero_bins:
            ctx.close('bin:power', np.array([bins.sum()]), np.array([tot]), 1e-10, 'bin|power|zero-bins|nonzero-integral',
                      'with power preservation the bins do not sum to the integral of a narrow line over the span of the centres',
                      desc, scale=abs(tot))
        elif preserve and method == 'simps':
            slack = 1e-9 * float(np.max(v)) * span
            ctx.check(bool(2 / 3 * tot - slack <= bins.sum() <= 4 / 3 * tot + slack), 'bin:power', 'bin|power|simps|outside-positive-weight-band',
                      "with power preservation the Simpson bins sum to something outside [2/3, 4/3] of the spectrum's exact (piecewise-linear) "
                      'integral over the span of the centres', dict(desc, got=float(bins.sum()), exact_pl=float(tot)))
        elif preserve:
            ctx.close('bin:power', np.array([bins.sum()]), np.array([tot]), 1e-10, f'bin|power|{method}',
                      "with power preservation the bins do not sum to the spectrum's integral over the span of the centres",
                      desc, scale=abs(tot))
        # exactness for spectra linear across each bin
        inside_data = c[0] - (c[1] - c[0]) / 2 >= w[0] and c[-1] + (c[-1] - c[-2]) / 2 <= w[-1]
        if linear and inside_data and (not preserve or ends == 'inside') and method == 'trapz':
            mids = c[:-1] + np.diff(c) / 2
            if ends == 'symmetric':
                edges = np.concatenate([[c[0] - (c[1] - c[0]) / 2], mids, [c[-1] + (c[-1] - c[-2]) / 2]])
            else:
                edges = np.concatenate([[c[0]], mids, [c[-1]]])
            ref = np.array([sm.integral_pl(w, v, edges[k], edges[k + 1]) for k in range(nb)])
            # ('inside' ends: the exact bins already sum to the exact integral over [c0, cN], so power preservation changes nothing)
            ctx.close('bin:exact-linear', bins, ref, 1e-10, f'bin|exact-linear|{ends}',
                      'bins of a spectrum that is linear across each bin are not the exact integrals over the bins', desc,
                      scale=float(np.max(np.abs(ref))))
        else:
            ctx.oracle_evals['bin:exact-linear'] += 0
    # ---- the TYPE in which numbers are handed over does not matter: integer-typed bin centres (a hand-typed list such as
    # [500, 550, 600]), integer / boolean value arrays (a filter given as 0/1, camera counts), and an all-zero spectrum
    for i in range(max(8, n // 8)):
        m = int(rng.integers(6, 30))
        step = int(rng.integers(2, 12))
        w = 400.0 + step * np.arange(m)
        v = rng.uniform(0.2, 3, size=m)
        method = 'trapz' if i % 2 else 'simps'
        ends = 'symmetric' if i % 4 < 2 else 'inside'
        preserve = bool(i % 3 == 0)
        nb = int(rng.integers(2, 7))
        cstep = int(rng.integers(1, max(2, (m * step) // (nb + 2))))
        c_int = (int(w[1]) + 1 + cstep * np.arange(nb)).astype([np.int64, np.int32, np.uint16][i % 3])
        if c_int[-1] >= w[-2] or int(c_int[-1]) - int(c_int[0]) < 3 * step:
            continue        # (the power normalisation needs a few data samples inside the span of the centres)
        desc = {'bin-types': method, 'ends': ends, 'preserve': preserve, 'centres': c_int.tolist(), 'step': step}
        ctx.case(desc, ['bin:integer-centres'])
        sp = S(w, v)
        dcen = np.diff(c_int.astype(np.int64))
        fractional = bool(np.any(dcen % 2 != 0)) or (ends == 'inside' and bool(np.any(dcen[[0, -1]] % 4 != 0)))
        try:
            b_f = np.asarray(sp.bin(c_int.astype(float), interp_method=method, ends=ends, preserve_power=preserve), float)
            forms = [c_int, c_int.tolist(), tuple(int(x) for x in c_int)]
            b_i = np.asarray(sp.bin(forms[i % 3], interp_method=method, ends=ends, preserve_power=preserve), float)
            # known finding (known_findings.txt): under Simpson's rule lentil stores the interleaved mid-points in the centres' own
            # integer dtype.  Only a deviation that this mechanism can explain carries that key: some mid-point (or, for
            # 'inside' ends, quarter-point) of the integer centres must be fractional; anything else is a new violation.
            key_i = f'bin|integer-centres|{method}' + ('|midpoints-truncated' if (method == 'simps' and fractional) else '')
            ctx.close('bin:exact-linear', b_i, b_f, 1e-12, key_i,
                      'bins for integer-typed centres differ from the bins for the same centres given as floats', desc,
                      scale=float(np.max(np.abs(b_f))) + 1e-300)
        except Exception as e:
            # (truncated mid-points can coincide with their neighbours: the sampler then refuses the repeated abscissae - same mechanism)
            ctx.check(False, 'bin:count', 'bin|integer-centres|simps|midpoints-truncated' if (method == 'simps' and fractional)
                      else f'bin|integer-centres|raises={type(e).__name__}', f'{type(e).__name__}: {e}', desc)
        # centres held in single / half precision (a wavelength column read from a float32 file): the same numbers, the same bins
        ctx.case(dict(desc, centres='narrow-float'), ['bin:narrow-float-centres'])
        try:
            if i % 2:
                # half precision: whole-number centres above 4096 (exact in float16, whose spacing is 4 there) an odd multiple of 4 apart,
                # so that the mid-points between them are NOT float16 numbers
                w2 = np.arange(4000., 8200., 4.)
                sp2 = S(w2, rng.uniform(0.5, 2, size=w2.size) if i % 4 == 1 else 1e-3 * w2 + 0.3)
                c64 = 4096. + 4 * (2 * int(rng.integers(1, 8)) + 1) * np.arange(int(rng.integers(3, 8))) + 4 * int(rng.integers(0, 200))
                c_n, mth_ = c64.astype(np.float16), method
            else:
                # single precision: arbitrary centres (trapezoid rule: any spacing)
                sp2 = sp
                c_n = np.sort(rng.uniform(float(w[1]), float(w[-2]), size=int(rng.integers(3, 8)))).astype(np.float32)
                c64, mth_ = c_n.astype(float), 'trapz'
            if np.array_equal(c_n.astype(float), c64) and np.all(np.diff(c64) > 0):
                b_r = np.asarray(sp2.bin(c64, interp_method=mth_, ends=ends, preserve_power=preserve), float)
                b_n = np.asarray(sp2.bin(c_n, interp_method=mth_, ends=ends, preserve_power=preserve), float)
                ctx.close('bin:exact-linear', b_n, b_r, 1e-10, f'bin|narrow-float-centres|{c_n.dtype.name}',
                          'bins for centres held in single / half precision differ from the bins for the same numbers as doubles',
                          dict(desc, dtype=c_n.dtype.name, centres=c64.tolist()), scale=float(np.max(np.abs(b_r))) + 1e-300)
        except Exception as e:
            ctx.check(False, 'bin:count', f'bin|narrow-float-centres|raises={type(e).__name__}', f'{type(e).__name__}: {e}', desc)
        # integer / boolean VALUES: integrals and bins as for the same numbers held as floats
        dtv = [np.uint8, bool, np.int16, np.uint16, np.int8, np.float32, np.float16][i % 7]
        if dtv is bool:
            vi = (rng.random(m) < 0.8).astype(dtv)
        elif np.dtype(dtv).kind == 'f':
            # single / half precision values (large enough that sums in that precision would lose digits or overflow)
            vi = rng.uniform(0.5, 1.0, size=m).astype(dtv) * dtv(16384 if dtv is np.float32 else 30000)
        else:
            vi = rng.integers(int(np.iinfo(dtv).max * 0.5), np.iinfo(dtv).max, size=m, endpoint=True).astype(dtv)
        ctx.case({'value-dtype': np.dtype(dtv).name, 'n': m, 'method': method}, ['values:small-int'])
        try:
            si, sf = S(w, vi), S(w, vi.astype(float))
            lo_, hi_ = w[int(rng.integers(0, m // 2))], w[int(rng.integers(m // 2 + 1, m))]
            for mth in ('trapz', 'simps'):
                Ii, If = float(si.integrate(lo_, hi_, mth)), float(sf.integrate(lo_, hi_, mth))
                ctx.close('integrate:exact-pl', np.array([Ii]), np.array([If]), 1e-12, f'integrate|value-dtype|{mth}',
                          'the integral of integer / boolean values differs from the integral of the same numbers held as floats',
                          {'dtype': np.dtype(dtv).name, 'method': mth}, scale=abs(If) + 1e-300)
            cc = np.linspace(w[2], w[-3], 4)
            # (unit names are case-insensitive everywhere: 'NM' is nm)
            bi = np.asarray(si.bin(cc, interp_method='trapz', preserve_power=True, **({'waveunit': ['NM', 'Nm', 'nm'][i % 3]} if i % 2 else {})), float)
            bf = np.asarray(sf.bin(cc, interp_method='trapz', preserve_power=True), float)
            ctx.close('bin:exact-linear', bi, bf, 1e-12, 'bin|value-dtype', 'bins of integer / boolean values differ from the bins of the same '
                      'numbers held as floats', {'dtype': np.dtype(dtv).name}, scale=float(np.max(np.abs(bf))) + 1e-300)
        except Exception as e:
            ctx.check(False, 'integrate:exact-pl', f'value-dtype|raises={type(e).__name__}', str(e), {'dtype': np.dtype(dtv).name})
        # an all-zero spectrum: every bin is zero (and so is their sum, the integral), with or without power preservation
        ctx.case({'zero-spectrum': m, 'method': method}, ['bin:zero-spectrum'])
        try:
            zs = S(w, np.zeros(m))
            with np.errstate(all='ignore'):
                bz = np.asarray(zs.bin(np.linspace(w[1], w[-2], 4), interp_method=method, ends=ends, preserve_power=preserve), float)
            ctx.check(bz.shape == (4,) and bool(np.all(bz == 0)), 'bin:nonnegative', f'bin|zero-spectrum|preserve={preserve}',
                      'the bins of an all-zero spectrum are not all zero', {'bins': bz, 'preserve': preserve, 'method': method})
        except Exception as e:
            ctx.check(False, 'bin:nonnegative', f'bin|zero-spectrum|raises={type(e).__name__}', str(e), {'method': method})
    # ---- a narrow line between coarse bin edges: lentil's bins are built from samples at the bin edges (and centres) only; when
    # every one of them is zero the bins are all zero although the integral over the span is not (known finding, keyed by that
    # mechanism: every edge / centre sample of the spectrum is exactly zero).  Any other shortfall is a violation.
    for i in range(max(4, n // 40)):
        w = np.arange(400., 701.)
        c0 = float(rng.integers(452, 648))
        hw = float(rng.integers(2, 9))
        line = ((w >= c0 - hw) & (w <= c0 + hw)).astype(float) * float(rng.uniform(0.5, 3))
        method = 'trapz' if i % 2 else 'simps'
        ends = 'inside' if i % 4 < 2 else 'symmetric'
        cen = np.arange(400., 701., 50.)
        ctx.case({'narrow-line': c0, 'half-width': hw, 'method': method, 'ends': ends}, ['bin:narrow-line'])
        try:
            sp = S(w, line)
            with np.errstate(all='ignore'):
                b = np.asarray(sp.bin(cen, interp_method=method, ends=ends, preserve_power=True), float)
            tot = float(sp.integrate(400, 700, method=method))
            mids = cen[:-1] + np.diff(cen) / 2
            # the points lentil samples: bin edges (trapezoid rule), plus the bin centres (Simpson's rule)
            outer = [cen[0] - 25, cen[-1] + 25] if ends == 'symmetric' else [cen[0], cen[-1]]
            pts = np.concatenate([mids, outer] + ([cen] + ([[cen[0] + 12.5, cen[-1] - 12.5]] if ends == 'inside' else [])
                                                  if method == 'simps' else []))
            all_zero = bool(np.all(sm.interp_linear(pts, w, line, 0.0) == 0))
            key = 'bin|power|zero-bins|nonzero-integral' if (all_zero and np.all(b == 0)) else 'bin|power|narrow-line'
            ctx.close('bin:power', np.array([b.sum()]), np.array([tot]), 1e-9, key,
                      'with power preservation the bins do not sum to the integral of a narrow line over the span of the centres',
                      {'line_centre': c0, 'half_width': hw, 'method': method, 'ends': ends, 'bins_sum': float(b.sum()), 'integral': tot},
                      scale=abs(tot) + 1e-300)
        except Exception as e:
            ctx.check(False, 'bin:power', f'bin|narrow-line|raises={type(e).__name__}', str(e), {'line_centre': c0})
    # ---- very short spectra (one to three samples) whose values are held in a narrow type, resampled onto a grid that contains
    # their own wavelengths: those samples are retained as they are (online oracle) -------------------------------------------
    for i in range(ctx.count(8, 40)):
        m = 1 + i % 3
        w = np.sort(rng.uniform(350, 900, size=m))
        dt = [np.float32, np.float16, np.float64, np.uint8, np.int32, np.longdouble][i % 6]
        v = rng.uniform(0.2, 1.0, size=m)
        v = np.round(v * 200).astype(dt) if np.dtype(dt).kind in 'iu' else v.astype(dt)
        extra = rng.uniform(300, 950, size=int(rng.integers(1, 5)))
        grid = np.unique(np.r_[w, extra])
        ctx.case({'short-spectrum': m, 'dtype': np.dtype(dt).name, 'grid': int(grid.size)}, ['resample:short-narrow'])
        try:
            S(w.copy(), v.copy()).resample(grid)
        except Exception as e:
            ctx.check(False, 'retained', f'resample|short|raises={type(e).__name__}', str(e), {'m': m, 'dtype': np.dtype(dt).name})

    # ---- histories ----------------------------------------------------------------------------------------
    nh = ctx.count(60, 500)
    for i in range(nh):
        m = int(rng.integers(3, 30))
        w = rgrid(rng, m, bool(rng.random() < 0.5))
        v = rng.uniform(0, 3, size=m) * (rng.random(m) < 0.85)
        if rng.random() < 0.2:
            v[:int(rng.integers(1, 3))] = 0
            v[-int(rng.integers(1, 3)):] = 0
        if rng.random() < 0.05:
            v[:] = 0
        wdt = None
        if i % 5 == 3:
            # wavelength columns as read from a file: (unsigned) integer nanometres
            wdt = [np.uint16, np.uint32, np.int32, np.int64, np.uint64][int(rng.integers(0, 5))]
            w = np.unique(np.round(w).astype(wdt))
            v = v[:w.size]
            m = int(w.size)
            ctx.bucket('wave:integer-dtype')
        if i % 5 == 1 and wdt is None:
            # wavelength column in single / half precision (whole numbers: exact in either type)
            wf = [np.float32, np.float16][(i // 5) % 2]
            w = np.unique(np.round(w)).astype(wf)
            v = v[:w.size]
            m = int(w.size)
            ctx.bucket('wave:narrow-float')
        if i % 6 == 1:
            # a difference / background-subtracted spectrum: negative wings and dips (the relative tolerance of trim refers to the
            # largest value, and only samples ABOVE it count)
            v = v - float(rng.uniform(0.05, 0.6)) * float(v.max()) * rng.random(v.size)
            if rng.random() < 0.3:
                v[int(rng.integers(0, v.size))] = -float(rng.uniform(1, 3)) * float(np.abs(v).max())      # a dip deeper than the peak is high
            ctx.bucket('value:signed')
        if i % 7 == 2:
            v = v.astype(np.float32)                   # values as read from a single-precision file
            ctx.bucket('value:narrow-dtype')
        elif i % 7 == 5:
            v = np.round(v / max(float(v.max()), 1e-300) * 200).astype([np.uint8, np.uint16, np.int32][int(rng.integers(0, 3))])   # detector counts
            ctx.bucket('value:narrow-dtype')
        sp = S(w.copy(), v.copy())
        L = int(rng.integers(1, 13))
        ops = []
        for step in range(L):
            try:
                cw = np.asarray(sp._wave, float)
                lo_, hi_ = (cw[0], cw[-1]) if cw.size else (400.0, 500.0)
                span = max(hi_ - lo_, 1.0)
            except Exception:
                break
            op = ['crop', 'trim', 'pad', 'append', 'resample'][int(rng.integers(0, 5))]
            try:
                if op == 'crop':
                    a = lo_ + span * rng.uniform(-0.2, 0.6)
                    b = a + span * rng.uniform(-0.1, 0.9)
                    if rng.random() < 0.08:
                        # a range that lies wholly above / below / between the samples keeps nothing
                        a, b = [(hi_ + span, hi_ + 2 * span), (max(lo_ - 2 * span, 1e-3), max(lo_ - span, 2e-3))][int(rng.integers(0, 2))]
                        ctx.bucket('crop:outside-data')
                    if rng.random() < 0.3 and cw.size:
                        a = float(cw[int(rng.integers(0, cw.size))])      # exactly on a sample (closed range)
                    if rng.random() < 0.4 and cw.size:
                        b = float(cw[int(rng.integers(0, cw.size))])      # upper bound exactly on a sample as well
                    ops.append(['crop', float(a), float(b)])
                    sp.crop(a, b)
                elif op == 'trim':
                    tol = float(10 ** rng.uniform(-6, -0.3))
                    ops.append(['trim', tol])
                    sp.trim(tol) if rng.random() < 0.7 else sp.trim(tol=tol)
                elif op == 'pad':
                    e0 = lo_ - span * rng.uniform(-0.2, 0.5)
                    e1 = hi_ + span * rng.uniform(-0.2, 0.5)
                    if rng.random() < 0.1:
                        e0 = -5.0
                    mode = 'constant' if rng.random() < 0.6 else 'edge'
                    kw = {}
                    if mode == 'constant' and rng.random() < 0.5:
                        kw['values'] = float(rng.uniform(0, 1)) if rng.random() < 0.5 else [0.5, 0.25]
                    smp = 'min' if rng.random() < 0.7 else float(span / rng.integers(2, 20))
                    ops.append(['pad', float(e0), float(e1), mode, smp])
                    sp.pad((e0, e1), sampling=smp, mode=mode, **kw)
                elif op == 'append':
                    k = int(rng.integers(1, 6)) if rng.random() < 0.5 else max(cw.size, 1)
                    start = hi_ + span * rng.uniform(-0.3, 0.3)
                    ow = start + np.cumsum(rng.uniform(0.5, 10, size=k))
                    other = S(ow, rng.uniform(0, 1, size=k))
                    cp = bool(rng.random() < 0.3)
                    ops.append(['append', k, float(start), cp])
                    r = sp.append(other, copy=cp)
                    if cp and r is not None and rng.random() < 0.5:
                        sp = r
                else:
                    k = int(rng.integers(2, 25))
                    kind = rng.random()
                    if kind < 0.7:
                        g = np.linspace(lo_ - 0.1 * span, hi_ + 0.1 * span, k)
                    elif kind < 0.85 and cw.size >= 2:
                        g = np.sort(np.concatenate([cw[::2], [lo_ + 0.37 * span]]))   # re-uses existing sample points
                        g = np.unique(g)
                    elif kind < 0.93:
                        g = np.linspace(hi_, lo_, k)                # decreasing: invalid
                    else:
                        g = np.array([lo_, lo_ + 1, lo_ + 1, lo_ + 2])      # repeated: invalid
                    if wdt is not None:
                        if kind >= 0.85 and rng.random() < 0.5:
                            g = np.array([lo_ + 50, lo_ + 250, lo_ + 150, lo_ + 300])      # zig-zag: invalid
                        g = np.abs(np.round(g)).astype(wdt)
                        if kind < 0.85:
                            g = np.unique(g)
                    ops.append(['resample', int(g.size), 'valid' if kind < 0.85 else 'invalid'])
                    sp.resample(g)
            except Exception:
                pass        # the probes have recorded the outcome; the history goes on with the same object
        ctx.case({'history': ops, 'n0': m}, ['history:len>=6'] if L >= 6 else [], nontrivial=m > 2)
