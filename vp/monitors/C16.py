"""C16 — detector chain: right quantum efficiency at every pixel, exact digitisation.

Online probes on detector.collect_charge, collect_charge_bayer and adc: every call (from any workload) is
compared with plain index models — sum over wavelength of photons*qe; per sub-pixel the QE of
pattern[(i // os) mod k, (j // os) mod k]; max(floor(P(min(e, sat))), 0) with P evaluated in extended
precision and integer-boundary ties tolerated — and the caller's frame is fingerprinted before and after.
Relational drivers: QE representations and units, equal-QE == monochrome, channels sum to the flat image,
linearity, monotonicity, saturation warnings.
"""
import warnings

import numpy as np

from vp import gen, probe, refmodels as rm, specmodel as sm
from vp import defaults
from vp import reuse
from vp import forms as argforms
from vp import corners

RULE = ('seeded generator: photon cubes 1..6 wavelengths x (2..24)^2, QE as scalar / vector / Spectrum in nm, um, m, angstrom; '
        'square colour patterns of size 1..4 with random R/G/B content, native image sizes any multiple of the pattern, '
        'oversample 1..6; electron frames incl. negatives and values above saturation, the four gain forms with polynomial '
        'orders 1..4, saturation capacities, output dtypes.  distinct = distinct (shapes, pattern, os, gain form/order, data '
        'hash) descriptors; non-trivial = frame with > 1 pixel.')
ASSUMPTIONS = ['gain polynomial values within 1e-9 (relative) of an integer may floor to either side',
               'beyond 2**53 counts the floor is decided to 4 ulp of the polynomial value (neighbouring doubles are more than one count apart)']
PLAN = {'quick': {'gen': 8}, 'thorough': {'gen': 16, 'tests': 1, 'docs': 1}}
REQUIRED_BUCKETS = ['defaults', 'corners', 'reuse', 'forms', 'qe:scalar', 'qe:vector', 'qe:spectrum', 'qe:offset-table', 'unit:nm', 'unit:um', 'unit:m', 'unit:angstrom', 'bayer:k=1',
                    'bayer:k=2', 'bayer:k=3', 'bayer:k=4', 'bayer:os=1', 'bayer:os=2', 'bayer:os>=3', 'bayer:nonsquare',
                    'bayer:channels', 'bayer:spectrum-qe', 'bayer:unit!=nm', 'gain:scalar', 'gain:poly', 'gain:pixel', 'gain:pixel-poly', 'adc:negative',
                    'adc:saturated', 'adc:dtype', 'adc:warn', 'adc:max==capacity', 'adc:small-int-frame', 'bayer:cube-not-float64', 'adc:beyond-dtype-range', 'adc:capacity=0',
                    'qe:narrow-qe-vector', 'qe:table-ends-other-unit', 'qe:single-wavelength', 'cube:narrow-float', 'unit:alias', 'adc:narrow-float-frame', 'adc:beyond-64-bit', 'qe:spectrum-narrow-wave', 'adc:large-integer-counts']
REQUIRED_ANCHORS = ['probe:collect_charge', 'probe:collect_charge_bayer', 'probe:adc', 'anchor:qe_asarray',
                    'anchor:format_bayer_string']
REQUIRED_ORACLES = ['charge=sum', 'charge:qe-forms', 'charge:linear', 'bayer=pattern', 'bayer:equal-qe=mono',
                    'bayer:channels-sum', 'adc=floor(poly)', 'adc:dtype', 'adc:monotone', 'adc:warning', 'adc:input-untouched']


def anchors(lentil):
    d = lentil.detector
    return [('qe_asarray', d.qe_asarray), ('format_bayer_string', d.format_bayer_string)]


def qe_vector(qe, wave, waveunit):
    """QE per wavelength slice from any representation (own interpolation for spectra)."""
    wave = np.atleast_1d(np.asarray(wave, float))
    if hasattr(qe, '_wave'):
        f = sm.wave_factor(qe.waveunit, waveunit)
        return sm.interp_linear(wave, np.asarray(qe.wave, float) * f, np.asarray(qe.value, float), 0.0)
    q = np.asarray(qe, float)
    return q * np.ones(wave.size) if q.ndim == 0 else q.ravel()


def charge_oracle(ctx, args, kwargs, result, exc, pre):
    names = ['img', 'wave', 'qe', 'waveunit']
    a = {'waveunit': 'nm'}
    a.update(dict(zip(names, args)))
    a.update(kwargs)
    img = np.asarray(a['img'], float)
    if img.ndim == 2:
        img = img[None]
    wit = {'img': list(img.shape), 'qe': type(a['qe']).__name__, 'waveunit': a['waveunit']}
    if exc is not None:
        ctx.check(False, 'charge=sum', f'charge|raises={type(exc).__name__}', str(exc), wit)
        return
    q = qe_vector(a['qe'], a['wave'], a['waveunit'])
    ref = np.tensordot(q, img, axes=(0, 0))
    # a spectrum QE is interpolated at unit-converted wavelengths: allow the rounding of those conversions
    ctx.close('charge=sum', result, ref, 1e-9 if hasattr(a['qe'], '_wave') else 1e-12, 'charge|value',
              'collected charge is not sum over wavelength of photons*qe',
              wit, scale=max(float(np.max(np.abs(ref))), 1e-300))


def bayer_oracle(ctx, args, kwargs, result, exc, pre):
    names = ['img', 'wave', 'qe_red', 'qe_green', 'qe_blue', 'bayer_pattern', 'oversample', 'waveunit', 'flatten']
    a = {'oversample': 1, 'waveunit': 'nm', 'flatten': True}
    a.update(dict(zip(names, args)))
    a.update(kwargs)
    img = np.asarray(a['img'], float)
    if img.ndim == 2:
        img = img[None]
    pat = str(a['bayer_pattern']).upper()
    k = int(round(np.sqrt(len(pat))))
    os_ = int(a['oversample'])
    wit = {'img': list(img.shape), 'pattern': pat, 'os': os_, 'flatten': bool(a['flatten'])}
    if k * k != len(pat) or img.shape[1] % (k * os_) or img.shape[2] % (k * os_):
        ctx.skip('bayer: image is not a multiple of the pattern / pattern not square')
        return
    if exc is not None:
        ctx.check(False, 'bayer=pattern', f'bayer|raises={type(exc).__name__}', str(exc), wit)
        return
    P = np.array(list(pat)).reshape(k, k)
    q = {c: qe_vector(a[n], a['wave'], a['waveunit']) for c, n in (('R', 'qe_red'), ('G', 'qe_green'), ('B', 'qe_blue'))}
    e = {c: np.tensordot(q[c], img, axes=(0, 0)) for c in 'RGB'}
    ii, jj = np.indices(img.shape[1:])
    colour = P[(ii // os_) % k, (jj // os_) % k]
    chan = {c: np.where(colour == c, e[c], 0.0) for c in 'RGB'}
    flat = chan['R'] + chan['G'] + chan['B']
    sc = max(float(np.max(np.abs(flat))), float(max(np.max(np.abs(e[c])) for c in 'RGB')), 1e-300)
    key = 'bayer|value|os>=3' if os_ >= 3 else 'bayer|value'
    btol = 1e-9 if any(hasattr(a[n], '_wave') for n in ('qe_red', 'qe_green', 'qe_blue')) else 1e-12
    if a['flatten']:
        ctx.close('bayer=pattern', result, flat, btol, key,
                  'a sub-pixel did not get the efficiency of the colour the tiled pattern assigns to its native pixel', wit, scale=sc)
    else:
        ok = isinstance(result, tuple) and len(result) == 3
        ctx.check(ok, 'bayer=pattern', 'bayer|channels|form', 'flatten=False did not return (R, G, B)', wit)
        if ok:
            for c, r in zip('RGB', result):
                ctx.close('bayer=pattern', r, chan[c], btol, key + f'|{c}',
                          'a colour channel image is not the photons*qe of that colour on its own pixels', wit, scale=sc)


def adc_before(ctx, args, kwargs):
    img = args[0] if args else kwargs.get('img')
    if isinstance(img, np.ndarray):
        return probe.fp_array(img), np.array(img, copy=True)
    return None


def poly_ld(gain, e):
    """Gain polynomial without constant term, highest power first, in extended precision."""
    g = np.asarray(gain)
    e = np.asarray(e, dtype=rm.LD)
    if g.ndim in (0, 2):
        return g.astype(rm.LD) * e
    n = g.shape[0]
    out = np.zeros(e.shape, dtype=rm.LD)
    for d in range(n):
        out = out + g[d].astype(rm.LD) * e ** (n - d)
    return out


def adc_oracle(ctx, args, kwargs, result, exc, pre):
    names = ['img', 'gain', 'saturation_capacity', 'warn_saturate', 'dtype']
    a = {'saturation_capacity': None, 'warn_saturate': False, 'dtype': None}
    a.update(dict(zip(names, args)))
    a.update(kwargs)
    if pre is None:
        return
    fp0, img0 = pre
    gain = np.asarray(a['gain'])
    wit = {'img': list(img0.shape), 'gain_ndim': int(gain.ndim), 'order': int(gain.shape[0]) if gain.ndim in (1, 3) else 1,
           'sat': a['saturation_capacity'], 'dtype': str(a['dtype'])}
    if img0.ndim != 2 or gain.ndim > 3:
        return
    if exc is not None:
        ctx.check(False, 'adc=floor(poly)', f'adc|raises={type(exc).__name__}', str(exc), wit)
        return
    ctx.check(probe.fp_array(a['img']) == fp0, 'adc:input-untouched', 'adc|input-modified',
              "adc modified the caller's electron frame", wit)
    e = img0.astype(rm.LD)
    sat = a['saturation_capacity']
    if sat is not None:             # (a capacity of 0 is a capacity: everything is clipped to it)
        e = np.minimum(e, rm.LD(sat))
    p = poly_ld(gain, e)
    ref = np.maximum(np.floor(p), 0)
    got = np.asarray(result)
    if got.shape != ref.shape:
        ctx.check(False, 'adc=floor(poly)', 'adc|shape', 'adc changed the frame shape', wit)
        return
    frac_tie = np.abs(p - np.rint(p)) <= 1e-9 * np.maximum(np.abs(p), 1)
    if a['dtype'] is not None:
        ctx.check(got.dtype == np.dtype(a['dtype']), 'adc:dtype', 'adc|dtype', 'adc did not return the requested output type', wit)
        info = np.iinfo(got.dtype) if np.issubdtype(got.dtype, np.integer) else None
        if info is not None and float(ref.max()) > info.max:
            # a converter rails at full scale: the output stays non-decreasing in the input (it does not wrap around)
            ref = np.minimum(ref, rm.LD(info.max))
            ctx.bucket('adc:beyond-dtype-range')
    if got.dtype.kind == 'f' and got.dtype.itemsize < 8:
        # a floating point output type with fewer digits than the count (float32 beyond 2**24): the floor, stored in that type
        with np.errstate(all='ignore'):
            ref = ref.astype(got.dtype).astype(rm.LD)
    diff = got.astype(rm.LD) - ref
    # (beyond 2**53 counts neighbouring doubles are more than one count apart: the gain polynomial evaluated in double precision is
    # the floor only to a few ulp of its value)
    ulps = 4 * rm.EPS * np.abs(p) * (np.abs(p) > 2.0 ** 53)
    bad = (diff != 0) & ~(frac_tie & (np.abs(diff) <= 1)) & ~(np.abs(diff) <= ulps)
    if bad.any():
        k = np.unravel_index(int(np.argmax(bad)), bad.shape)
        ctx.check(False, 'adc=floor(poly)', f'adc|value|gain_ndim={gain.ndim}',
                  'DN is not max(floor(gain polynomial(min(e, saturation))), 0)',
                  dict(wit, at=[int(x) for x in k], e=float(img0[k]), got=float(got[k]), ref=float(ref[k]), poly=float(p[k])))
    else:
        ctx.check(True, 'adc=floor(poly)', 'ok', 'ok')


adc_oracle.before = adc_before


def install(ctx, lentil):
    d = lentil.detector
    probe.wrap_function(d.collect_charge, charge_oracle, ctx, 'collect_charge')
    probe.wrap_function(d.collect_charge_bayer, bayer_oracle, ctx, 'collect_charge_bayer')
    probe.wrap_function(d.adc, adc_oracle, ctx, 'adc')


# ---------------------------------------------------------------------------

def workload(ctx, lentil):
    defaults.run(ctx, lentil, 'C16', 'charge=sum')
    reuse.run(ctx, lentil, 'C16', 'charge=sum')
    argforms.run(ctx, lentil, 'C16', 'charge=sum')
    corners.run(ctx, lentil, 'C16', 'charge=sum')
    rng = ctx.rng
    D = lentil.detector
    R = lentil.radiometry
    n = ctx.count(120, 900)
    # ---- collect_charge ---------------------------------------------------------------------------------
    for i in range(n):
        nw = int(rng.integers(1, 7))
        shape = (int(rng.integers(1, 25)), int(rng.integers(1, 25)))
        img = gen.layout(rng, rng.uniform(0, 1e4, size=(nw,) + shape), 0.25)      # cubes in any memory layout
        wave_nm = np.sort(rng.uniform(400, 1000, size=nw))
        if nw > 1 and np.min(np.diff(wave_nm)) < 1e-3:
            wave_nm = np.linspace(400, 1000, nw)
        qv = rng.uniform(0, 1, size=nw)
        unit = sm.WAVE_CANON[int(rng.integers(0, 4))]
        qunit = sm.WAVE_CANON[int(rng.integers(0, 4))]
        wave = wave_nm * sm.wave_factor('nm', unit)
        kind = ['scalar', 'vector', 'spectrum'][i % 3]
        desc = {'charge': kind, 'img': list(img.shape), 'unit': unit, 'qunit': qunit, 'h': probe.fp_array(img)[:8]}
        ctx.case(desc, [f'qe:{kind}', f'unit:{unit}'], nontrivial=img[0].size > 1)
        try:
            if kind == 'scalar':
                q0 = float(rng.uniform(0, 1))
                out = D.collect_charge(img, wave, q0, waveunit=unit)
                ref = np.tensordot(np.full(nw, q0), img, axes=(0, 0))
            else:
                # spectrum sampled exactly at the slice wavelengths (plus extra samples outside), in its own unit
                # the slice wavelengths are interior samples of the spectrum: a slice sitting exactly on the spectrum's
                # first/last sample may fall outside it by one ulp after a unit conversion (a tie, not evidence)
                sw = np.concatenate([[wave_nm[0] - 50], wave_nm, [wave_nm[-1] + 50]])
                sv = np.concatenate([[0.2], qv, [0.3]])
                spec = R.Spectrum(sw * sm.wave_factor('nm', qunit), sv, waveunit=qunit)
                fps = probe.fingerprint(spec)
                out_v = D.collect_charge(img, wave, qv if kind == 'vector' else list(qv), waveunit=unit)
                unit_arg = unit
                if i % 3 == 1:
                    # any name Unit() accepts for the unit of the slice wavelengths
                    unit_arg = {'m': 'meter', 'um': 'micron', 'nm': 'nanometer', 'angstrom': 'Angstrom'}.get(unit.lower(), unit)
                    ctx.bucket('unit:alias')
                out_s = D.collect_charge(img, wave, spec, waveunit=unit_arg)
                ref = np.tensordot(qv, img, axes=(0, 0))
                out = out_v if kind == 'vector' else out_s
                ctx.close('charge:qe-forms', out_s, out_v, 1e-9, 'charge|spectrum-vs-vector',
                          'a spectrum QE sampled at the slice wavelengths differs from the equivalent vector QE',
                          dict(desc), scale=float(np.max(np.abs(ref))) + 1e-300)
                ctx.check(probe.fingerprint(spec) == fps, 'charge:qe-forms', 'charge|qe-spectrum-modified',
                          "collect_charge modified the caller's QE spectrum", desc)
            ctx.close('charge:qe-forms', out, ref, 1e-9, f'charge|{kind}', 'charge differs from sum photons*qe', desc,
                      scale=float(np.max(np.abs(ref))) + 1e-300)
            # linearity in photons and qe
            a, b = float(rng.uniform(0.5, 2)), float(rng.uniform(0.5, 2))
            img2 = rng.uniform(0, 1e4, size=img.shape)
            lin = D.collect_charge(a * img + b * img2, wave, qv, waveunit=unit)
            ctx.close('charge:linear', lin, a * D.collect_charge(img, wave, qv, waveunit=unit) +
                      b * D.collect_charge(img2, wave, qv, waveunit=unit), 1e-12, 'charge|linear-photons',
                      'charge is not linear in the photons', desc, scale=float(np.max(np.abs(lin))) + 1e-300)
            ctx.close('charge:linear', D.collect_charge(img, wave, a * qv, waveunit=unit),
                      a * D.collect_charge(img, wave, qv, waveunit=unit), 1e-12, 'charge|linear-qe',
                      'charge is not linear in the efficiency', desc, scale=float(np.max(np.abs(lin))) + 1e-300)
            if nw == 1 and i % 2:
                D.collect_charge(img[0], wave, qv, waveunit=unit)      # 2-D input form
        except Exception as e:
            ctx.check(False, 'charge:qe-forms', f'charge-driver|raises={type(e).__name__}', str(e), desc)
    # ---- QE tables with as many points as there are slices, tabulated a little off the slice wavelengths (bin edges versus
    # bin centres): the efficiency still has to be interpolated, in whatever unit table and call share or do not share
    for i in range(max(12, n // 4)):
        nw = int(rng.integers(2, 9))
        step = float(rng.uniform(5, 40))
        table_nm = 450 + step * np.arange(nw) + float(rng.uniform(0, 200))
        off = float(rng.uniform(0.05, 0.5)) * step * (1 if i % 2 else -1)
        wave_nm = table_nm + off                       # all but one slice inside the table; the outer one gets QE 0 (outside)
        qtab = rng.uniform(0, 1, size=nw)
        if i % 3 == 0:
            qtab = np.linspace(0.05, 0.95, nw) ** 2        # steep, monotonic
        unit = sm.WAVE_CANON[i % 4]
        qunit = unit if i % 8 < 6 else sm.WAVE_CANON[int(rng.integers(0, 4))]
        shape = (2 * int(rng.integers(1, 7)), 2 * int(rng.integers(1, 7)))       # whole Bayer cells
        img = rng.uniform(0, 1e4, size=(nw,) + shape)
        desc = {'charge': 'offset-table', 'nw': nw, 'unit': unit, 'qunit': qunit, 'offset_nm': off, 'step_nm': step}
        ctx.case(desc, ['qe:offset-table', f'unit:{unit}'])
        spec = R.Spectrum(table_nm * sm.wave_factor('nm', qunit), qtab, waveunit=qunit)
        try:
            out = D.collect_charge(img, wave_nm * sm.wave_factor('nm', unit), spec, waveunit=unit)      # probe decides too
            qi = sm.interp_linear(wave_nm, table_nm, qtab, 0.0)
            edge = np.abs(wave_nm - table_nm[0]) < 1e-9 * table_nm[0]
            edge |= np.abs(wave_nm - table_nm[-1]) < 1e-9 * table_nm[0]
            if not edge.any():
                ctx.close('charge:qe-forms', out, np.tensordot(qi, img, axes=(0, 0)), 1e-9, 'charge|offset-table',
                          'a QE table with as many points as slices, tabulated off the slice wavelengths, was not interpolated', desc,
                          scale=float(np.max(np.abs(img.sum(axis=0)))) + 1e-300)
            pat = 'RGGB'
            outb = D.collect_charge_bayer(img, wave_nm * sm.wave_factor('nm', unit), spec, spec, spec, pat, waveunit=unit)   # probe
        except Exception as e:
            ctx.check(False, 'charge:qe-forms', f'offset-table|raises={type(e).__name__}', str(e), desc)

    # ---- photon cubes held in single / half precision: the charge is the same number whichever of the three efficiency forms is used
    # (the sum over wavelength is formed in double precision, not in the cube's own type)
    for i in range(max(9, n // 8)):
        nw = int(rng.integers(3, 9))
        wave_nm = 400.0 + 40.0 * np.arange(nw)
        shape = (int(rng.integers(2, 7)), int(rng.integers(2, 7)))
        cdt = [np.float32, np.float16][i % 2]
        hi = 3e4 if cdt is np.float16 else 1e6           # half precision: the sum over slices exceeds 65504
        cube = rng.uniform(0.3 * hi, hi, size=(nw,) + shape).astype(cdt)
        q = float(rng.uniform(0.2, 0.95))
        form = i % 3
        desc = {'charge': 'narrow-float-cube', 'cube': np.dtype(cdt).name, 'form': ['scalar', 'vector', 'spectrum'][form], 'nw': nw}
        ctx.case(desc, ['cube:narrow-float'])
        ref = q * cube.astype(float).sum(axis=0)
        try:
            qe = [q, np.full(nw, q), R.Spectrum(wave_nm, np.full(nw, q))][form]
            out = D.collect_charge(cube, wave_nm, qe)                                  # probe decides as well
            ctx.close('charge:qe-forms', np.asarray(out, float), ref, 1e-12, f'charge|narrow-float-cube|{desc["form"]}',
                      'the charge collected from a single / half precision photon cube is not efficiency times the sum of its slices '
                      '(formed in double precision)', desc, scale=float(ref.max()))
        except Exception as e:
            ctx.check(False, 'charge:qe-forms', f'narrow-float-cube|raises={type(e).__name__}', str(e), desc)

    # ---- a Spectrum efficiency tabulated on a single / half precision wavelength grid (whole nanometres: exact in either type), the
    # cube's wavelengths given in another unit and exactly AT the tabulated wavelengths: no slice is dropped ----------------------
    for i in range(max(6, n // 12)):
        nw = int(rng.integers(2, 7))
        wave_nm = 400.0 + 50.0 * np.arange(nw)
        qtab = rng.uniform(0.2, 0.9, size=nw)
        wdt = [np.float32, np.float16][i % 2]
        unit = ['um', 'm', 'angstrom', 'nm'][(i // 2) % 4]
        div = {'um': 1e3, 'm': 1e9, 'angstrom': 0.1, 'nm': 1.0}[unit]
        cube = rng.uniform(1, 100, size=(nw,) + (int(rng.integers(1, 5)), int(rng.integers(1, 5))))
        desc = {'charge': 'spectrum-narrow-wave', 'dtype': np.dtype(wdt).name, 'unit': unit, 'nw': nw}
        ctx.case(desc, ['qe:spectrum-narrow-wave'])
        try:
            spec = R.Spectrum(wave_nm.astype(wdt), qtab, waveunit='nm')
            out = D.collect_charge(cube, wave_nm / div, spec, waveunit=unit)
            ref = np.tensordot(qtab, cube, axes=(0, 0))
            ctx.close('charge:qe-forms', np.asarray(out, float), ref, 1e-9, 'charge|spectrum-narrow-wave',
                      'a QE spectrum tabulated on a single / half precision wavelength grid loses slices when the cube is given in another unit',
                      desc, scale=float(ref.max()) + 1e-300)
        except Exception as e:
            ctx.check(False, 'charge:qe-forms', f'spectrum-narrow-wave|raises={type(e).__name__}', str(e), desc)

    # ---- efficiencies in the types and at the wavelengths users hand over: a 0/1 band-pass vector held as bool / uint8 together with an
    # integer photon cube; a table sampled exactly AT its own end wavelengths written in another unit; a single wavelength
    for i in range(max(12, n // 6)):
        nw = int(rng.integers(2, 8))
        wave_nm = 350.0 + 50.0 * np.arange(nw) + float(rng.integers(0, 40))
        shape = (2 * int(rng.integers(1, 5)), 2 * int(rng.integers(1, 5)))
        kindq = i % 3
        desc = {'charge': ['narrow-qe-vector', 'table-ends-other-unit', 'single-wavelength'][kindq], 'nw': nw}
        ctx.case(desc, [f'qe:{desc["charge"]}'])
        try:
            if kindq == 0:
                cdt, qdt = [(np.uint16, bool), (np.uint8, np.uint8), (np.uint16, np.uint8), (np.int16, bool)][(i // 3) % 4]
                cube = rng.integers(int(np.iinfo(cdt).max * 0.4), int(np.iinfo(cdt).max * 0.9), size=(nw,) + shape).astype(cdt)
                band = (rng.random(nw) < 0.7); band[0] = True; band[-1] = True
                out = D.collect_charge(cube, wave_nm, band.astype(qdt))                   # probe decides (float reference)
                D.collect_charge_bayer(cube, wave_nm, band.astype(qdt), band.astype(qdt), band.astype(qdt), 'RGGB')
                ref = np.tensordot(band.astype(float), cube.astype(float), axes=(0, 0))
                ctx.close('charge:qe-forms', np.asarray(out, float), ref, 1e-12, 'charge|narrow-qe-vector',
                          'an efficiency vector of boolean / small-integer type gives another charge than the same numbers as floats',
                          dict(desc, cube=np.dtype(cdt).name, qe=np.dtype(qdt).name), scale=float(ref.max()) + 1e-300)
            elif kindq == 1:
                unit = ['um', 'm', 'angstrom'][(i // 3) % 3]
                div = {'um': 1e3, 'm': 1e9, 'angstrom': 0.1}[unit]
                qtab = rng.uniform(0.2, 0.9, size=nw)
                spec = R.Spectrum(wave_nm, qtab, waveunit='nm')
                cube = rng.uniform(1, 100, size=(nw,) + shape)
                out = D.collect_charge(cube, wave_nm / div, spec, waveunit=unit)      # slices exactly at the tabulated wavelengths
                ref = np.tensordot(qtab, cube, axes=(0, 0))
                ctx.close('charge:qe-forms', np.asarray(out, float), ref, 1e-9, 'charge|table-ends-other-unit',
                          'a QE table sampled exactly at its own wavelengths, written in another unit, loses an end slice', dict(desc, unit=unit),
                          scale=float(ref.max()) + 1e-300)
            else:
                img2 = rng.uniform(1, 100, size=shape)
                spec = R.Spectrum([400., 900.], [0.5, 0.5])
                o_s = D.collect_charge(img2, 600, spec)
                o_v = D.collect_charge(img2, 600, 0.5)
                ctx.close('charge:qe-forms', np.asarray(o_s, float), np.asarray(o_v, float), 1e-12, 'charge|single-wavelength|spectrum',
                          'a single wavelength with a spectrum efficiency differs from the scalar efficiency', desc, scale=float(img2.max()))
        except Exception as e:
            ctx.check(False, 'charge:qe-forms', f'{desc["charge"]}|raises={type(e).__name__}', str(e), desc)

    # ---- collect_charge_bayer ------------------------------------------------------------------------------
    for i in range(n):
        k = int(rng.integers(1, 5))
        os_ = int(rng.integers(1, 7))
        nr, nc = int(rng.integers(1, 5)), int(rng.integers(1, 5))
        if rng.random() < 0.3:
            nc = nr
        pat = ''.join(rng.choice(list('RGB'), size=k * k))
        if k == 2 and rng.random() < 0.5:
            pat = ['RGGB', 'BGGR', 'GRBG', 'GBRG'][int(rng.integers(0, 4))]
        if rng.random() < 0.3:
            pat = pat.lower()
        nw = int(rng.integers(1, 5))
        shape = (nr * k * os_, nc * k * os_)
        if shape[0] * shape[1] > 40000:
            os_ = max(1, os_ // 2)
            shape = (nr * k * os_, nc * k * os_)
        img = gen.layout(rng, rng.uniform(0, 1e3, size=(nw,) + shape), 0.25)
        if i % 6 == 2:
            # photon cubes that are not float64: Poisson counts, camera integers, single precision
            dt_i = [np.int64, np.uint16, np.float32, np.int32][int(rng.integers(0, 4))]
            img = np.floor(img).astype(dt_i) if np.dtype(dt_i).kind in 'iu' else img.astype(dt_i)
            ctx.bucket('bayer:cube-not-float64')
        bunit = sm.WAVE_CANON[int(rng.integers(0, 4))] if rng.random() < 0.5 else 'nm'
        wave = (np.linspace(450, 800, nw) if nw > 1 else np.array([550.0])) * sm.wave_factor('nm', bunit)
        qes = [rng.uniform(0, 1, size=nw) if rng.random() < 0.6 else float(rng.uniform(0, 1)) for _ in range(3)]
        for ch in range(3):      # any channel may be given as a spectrum, in any wavelength unit
            if rng.random() < 0.3:
                qu = sm.WAVE_CANON[int(rng.integers(0, 4))]
                sw = np.linspace(400, 900, 12) * sm.wave_factor('nm', qu)
                qes[ch] = R.Spectrum(sw, rng.uniform(0.05, 1, size=12), waveunit=qu)
        flatten = bool(rng.random() < 0.6)
        desc = {'bayer': pat, 'k': k, 'os': os_, 'native': [nr * k, nc * k], 'nw': nw, 'flatten': flatten, 'unit': bunit,
                'qe': [type(q).__name__ + (':' + q.waveunit if hasattr(q, 'waveunit') else '') for q in qes]}
        bks = [f'bayer:k={k}', 'bayer:os>=3' if os_ >= 3 else f'bayer:os={os_}'] + (['bayer:nonsquare'] if nr != nc else []) \
            + ([] if flatten else ['bayer:channels']) + (['bayer:spectrum-qe'] if any(hasattr(q, 'waveunit') for q in qes) else []) \
            + (['bayer:unit!=nm'] if bunit != 'nm' else [])
        ctx.case(desc, bks, nontrivial=True)
        try:
            bkw = {} if bunit == 'nm' and rng.random() < 0.5 else {'waveunit': bunit}
            out = D.collect_charge_bayer(img, wave, qes[0], qes[1], qes[2], pat, oversample=os_, flatten=flatten, **bkw)   # probe
            # equal efficiencies reproduce the monochrome result
            q = rng.uniform(0, 1, size=nw)
            mono = D.collect_charge(img, wave, q, waveunit=bunit)
            eq = D.collect_charge_bayer(img, wave, q, q, q, pat, oversample=os_, waveunit=bunit)
            ctx.close('bayer:equal-qe=mono', eq, mono, 1e-12, 'bayer|equal-qe' + ('|os>=3' if os_ >= 3 else ''),
                      'equal efficiencies in all channels do not reproduce the monochrome result', desc,
                      scale=float(np.max(np.abs(mono))) + 1e-300)
            # channels sum to the flattened image
            fl = D.collect_charge_bayer(img, wave, qes[0], qes[1], qes[2], pat, oversample=os_, flatten=True, waveunit=bunit)
            ch = D.collect_charge_bayer(img, wave, qes[0], qes[1], qes[2], pat, oversample=os_, flatten=False, waveunit=bunit)
            ctx.close('bayer:channels-sum', ch[0] + ch[1] + ch[2], fl, 1e-12, 'bayer|channels-sum',
                      'the separate channel images do not sum to the flattened one', desc, scale=float(np.max(np.abs(fl))) + 1e-300)
        except Exception as e:
            ctx.check(False, 'bayer=pattern', f'bayer-driver|raises={type(e).__name__}', str(e), desc)
    # ---- adc ---------------------------------------------------------------------------------------------------
    for i in range(n * 2):
        shape = (int(rng.integers(1, 20)), int(rng.integers(1, 20)))
        form = ['scalar', 'poly', 'pixel', 'pixel-poly'][i % 4]
        order = int(rng.integers(1, 5))
        scale = 10 ** float(rng.uniform(1, 4.5))
        big = i % 13 == 6
        if big:
            # deep wells / co-added frames held as integers: counts whose third or fourth power leaves the 64-bit integers
            scale = 10 ** float(rng.uniform(4.8, 6.6))
            order = int(rng.integers(3, 5))
            form = ['poly', 'pixel-poly'][(i // 13) % 2]
        e = rng.uniform(-0.1, 1.0, size=shape) * scale
        if rng.random() < 0.3:
            e = np.floor(e)
        if rng.random() < 0.1:
            e = e.astype(np.int64)
        elif i % 7 == 3:
            # electron frames as integer arrays of the sizes cameras and Poisson generators deliver
            dt_e = [np.int16, np.uint16, np.int32, np.uint32][int(rng.integers(0, 4))]
            e = np.clip(np.floor(np.abs(e)), 0, np.iinfo(dt_e).max).astype(dt_e)
            ctx.bucket('adc:small-int-frame')
        elif i % 7 == 5:
            # electron frames in single / half precision (the capacity, a double, is NOT a number of that type)
            e = np.abs(e).astype(np.float32 if i % 2 else np.float16) if scale < 6e4 else np.abs(e).astype(np.float32)
            ctx.bucket('adc:narrow-float-frame')
        if big:
            e = np.floor(np.abs(np.asarray(e, float))).astype([np.int64, np.int32, np.uint32][(i // 26) % 3])
            e.flat[0] = int(scale)
            ctx.bucket('adc:large-integer-counts')
        neg = bool((e < 0).any())
        coef = lambda size=None: rng.uniform(0.0, 1.0, size=size)
        if form == 'scalar':
            gain = float(rng.uniform(0.01, 4)) if rng.random() < 0.8 else int(rng.integers(1, 4))
        elif form == 'poly':
            gain = np.array([coef() * scale ** (1 - (order - d)) for d in range(order)]) * rng.uniform(0.2, 2)
        elif form == 'pixel':
            gain = rng.uniform(0.01, 4, size=shape)
        else:
            gain = np.array([coef(shape) * scale ** (1 - (order - d)) for d in range(order)]) * rng.uniform(0.2, 2)
        if rng.random() < 0.15 and form in ('poly', 'pixel-poly'):
            gain = -gain if rng.random() < 0.3 else gain * rng.choice([-1, 1], size=gain.shape[:1] + (1,) * (gain.ndim - 1))
        sat = None if rng.random() < 0.4 else float(rng.uniform(0.3, 1.2) * scale)
        if sat is not None and (rng.random() < 0.3 or big):
            sat = int(sat)
        if sat is not None and i % 5 == 1:
            # the brightest pixel sits exactly AT the capacity (typical for integer electron frames): nothing exceeds it
            sat = float(e.max()) if e.dtype.kind == 'f' else int(e.max())
            if sat > 0:
                ctx.bucket('adc:max==capacity')
            else:
                sat = None
        if i % 23 == 7:
            sat = 0 if i % 2 else 0.0                    # degenerate but legal: nothing can be held
            ctx.bucket('adc:capacity=0')
        warn = bool(rng.random() < 0.5) or (sat is not None and i % 5 == 1) or i % 23 == 7
        dtype = [None, np.uint16, np.int32, np.uint32, np.float32, np.int64][int(rng.integers(0, 6))]
        if i % 11 == 4:
            dtype = [np.uint8, np.int8, np.uint16][i % 3]      # a converter with fewer bits than the signal needs
        if i % 29 == 9 and e.dtype.kind == 'f' and e.dtype.itemsize == 8:
            # counts beyond the range of a 64-bit output type rail at its largest value like those of any narrower type
            e = e.copy()
            e.flat[0] = float(10 ** rng.uniform(19.5, 30))
            e.flat[-1] = 9.3e18
            dtype = [np.int64, np.uint64, int][i % 3]
            sat = None
            ctx.bucket('adc:beyond-64-bit')
        # (compared as double precision numbers: a float32 pixel next to a double capacity must not be compared in single precision)
        saturated = sat is not None and bool((np.asarray(e).astype(np.longdouble) > np.longdouble(sat)).any())
        desc = {'adc': form, 'order': order, 'shape': list(shape), 'sat': sat, 'warn': warn, 'dtype': str(dtype),
                'h': probe.fp_array(e)[:8]}
        bks = [f'gain:{form}'] + (['adc:negative'] if neg else []) + (['adc:saturated'] if saturated else []) \
            + (['adc:dtype'] if dtype is not None else []) + (['adc:warn'] if warn else [])
        ctx.case(desc, bks, nontrivial=e.size > 1)
        frame = e.copy()
        with warnings.catch_warnings(record=True) as rec:
            warnings.simplefilter('always')
            try:
                with np.errstate(all='ignore'):
                    D.adc(frame, gain, saturation_capacity=sat, warn_saturate=warn, dtype=dtype)       # probe decides
            except Exception:
                continue
        sat_warn = [w for w in rec if 'saturat' in str(w.message).lower()]
        ctx.check(bool(sat_warn) == (warn and saturated), 'adc:warning', 'adc|warning',
                  'a saturation warning must be raised exactly when warn_saturate is set and a pixel exceeds capacity',
                  dict(desc, warned=bool(sat_warn), saturated=saturated))
        # monotone for increasing non-negative gain curves
        if form in ('scalar', 'poly') and np.all(np.asarray(gain) >= 0):
            # non-negative counts: a polynomial with non-negative coefficients is increasing there (not for e < 0)
            es = np.sort(rng.uniform(0.0, 1.0, size=(1, 64)) * scale)
            with np.errstate(all='ignore'):
                dn = np.asarray(D.adc(es.copy(), gain, saturation_capacity=sat), float)
            dec = np.diff(dn[0]) < 0
            if dec.any():
                p = poly_ld(np.asarray(gain), np.minimum(es, sat) if sat else es)[0]
                tie = np.abs(p - np.rint(p)) <= 1e-9 * np.maximum(np.abs(p), 1)
                dec &= ~(tie[1:] | tie[:-1])
            ctx.check(not dec.any(), 'adc:monotone', 'adc|monotone',
                      'DN decreases with increasing electrons for an increasing non-negative gain curve', desc)
        else:
            ctx.oracle_evals['adc:monotone'] += 0
