"""C09 — FFT propagation agrees with DFT propagation; scratch space is transparent.

Relational driver on the real code (FFT vs DFT of the *same input field* at the wavelength the FFT
propagator reports) plus the independent Fraunhofer model at that wavelength; scratch buffers of the
advertised size, larger, non-square, dirty and reused across cases of different grid size; refusals
(too-small scratch, shape larger than the grid, tilted wavefronts).
"""
import numpy as np

from vp import gen, probe, propmodel, refmodels as rm
from vp import defaults
from vp import reuse
from vp import forms as argforms
from vp import corners

RULE = ('seeded generator: pupils (even and odd, <= grid) with FFT grids 6..48 per side (..96 thorough) of either parity, '
        '1/alpha = grid + delta (|delta| < 0.45) so the reported wavelength differs from the input one, isotropic and '
        'commensurate anisotropic sampling, oversample 1..3, output shape None / explicit <= grid/os; scratch: none, exact, '
        'larger, non-square, dirty and reused.  distinct = distinct (pupil, grid, os, shape, scratch mode) descriptors; '
        'non-trivial = pupil with more than one non-zero sample.')
ASSUMPTIONS = ['both axes imply one propagation wavelength (isotropic dx*du, or commensurate anisotropic)',
               'pupil no larger than the FFT grid (the regime the FFT propagator supports)']
PLAN = {'quick': {'gen': 8}, 'thorough': {'gen': 16, 'tests': 1, 'docs': 1}}
REQUIRED_BUCKETS = ['defaults', 'corners', 'reuse', 'forms', 'scratch_shape:band', 'tilted:how=3', 'tilted:how=4', 'grid:even', 'grid:odd', 'pupil:even', 'pupil:odd', 'pupil-parity!=grid-parity', 'os=1', 'os=2', 'os=3',
                    'shape:none', 'shape:explicit', 'aniso', 'scratch:exact', 'scratch:larger', 'scratch:dirty',
                    'scratch:too-small', 'shape:too-large', 'tilted', 'dir:image->pupil', 'segmented', 'segmented:bbox-overlap', 'scratch:non-finite', 'canvas', 'shape:small-int', 'scalars:float32']
REQUIRED_ANCHORS = ['anchor:_fft_shape', 'anchor:_fft2', 'anchor:_has_tilt', 'anchor:scratch_shape', 'probe:propagate_fft',
                    'probe:propagate_dft']
REQUIRED_ORACLES = ['fft=dft', 'fft=model', 'scratch=transparent', 'scratch:exact-accepted', 'scratch:too-small-refused',
                    'shape:too-large-refused', 'tilt-refused', 'fft:meta', 'fft=fraunhofer', 'fft:canvas']


def anchors(lentil):
    p = lentil.propagate
    return [('_fft_shape', p._fft_shape), ('_fft2', p._fft2), ('_has_tilt', p._has_tilt),
            ('scratch_shape', p.scratch_shape), ('pad', lentil.util.pad)]


def dft_oracle(ctx, args, kwargs, result, exc, pre):
    a = propmodel.bind_dft(args, kwargs)
    propmodel.check_dft(ctx, 'propagate_dft', a['wavefront'], a, result, exc)


def fft_probe(ctx, args, kwargs, result, exc, pre):
    # every FFT propagation (padded or through a scratch buffer) against the Fraunhofer sum on its own grid
    propmodel.check_fft(ctx, 'propagate_fft', propmodel.bind_fft(args, kwargs), result, exc)


def install(ctx, lentil):
    probe.wrap_function(lentil.propagate.propagate_dft, dft_oracle, ctx, 'propagate_dft')
    probe.wrap_function(lentil.propagate.propagate_fft, fft_probe, ctx, 'propagate_fft')


def clone_at(lentil, w, wavelength):
    c = lentil.Wavefront.empty(wavelength=wavelength, pixelscale=w.pixelscale, focal_length=w.focal_length,
                               shape=w.shape, ptype=w.ptype)
    c.data = list(w.data)
    return c


def workload(ctx, lentil):
    defaults.run(ctx, lentil, 'C09', 'fft=dft')
    reuse.run(ctx, lentil, 'C09', 'fft=dft')
    argforms.run(ctx, lentil, 'C09', 'fft=dft')
    corners.run(ctx, lentil, 'C09', 'fft=dft')
    rng = ctx.rng
    n = ctx.count(90, 600)
    gmax = 48 if ctx.tier == 'quick' else 96
    dirty = None          # a scratch buffer kept across cases (history)
    for i in range(n):
        os_ = int(rng.integers(1, 4))
        G = [int(rng.integers(6, gmax + 1)), 0]
        aniso = rng.random() < 0.3
        G[1] = int(rng.integers(6, gmax + 1)) if aniso else G[0]
        pshape = (int(rng.integers(2, G[0] + 1)), int(rng.integers(2, G[1] + 1)))
        small_int = i % 11 == 4
        if small_int:
            # a grid of more than 127 samples and the output shape handed over as int8: the shape fits, shape * oversample does not
            os_ = int(rng.integers(2, 4))
            G = [int(rng.integers(130, 150))] * 2
            aniso = False
            pshape = (int(rng.integers(2, 25)), int(rng.integers(2, 25)))
        narrow = i % 7 == 2 and not aniso
        if rng.random() < 0.4:
            m = min(pshape)
            pshape = (m, m)
        wl = float(rng.uniform(4e-7, 2e-6))
        z = float(rng.uniform(0.5, 30))
        dx0 = float(rng.uniform(0.5e-3, 5e-3))
        delta = float(rng.uniform(-0.45, 0.45)) if rng.random() < 0.8 else 0.0
        # 1/alpha_row = G0 + delta  ->  du_row
        du0 = wl * z * os_ / (dx0 * (G[0] + delta))
        if aniso:
            dx1 = dx0 * float(rng.uniform(0.6, 1.6))
            # commensurate: G1*dx1*du1 == G0*dx0*du0 (one propagation wavelength for both axes)
            du1 = G[0] * dx0 * du0 / (G[1] * dx1)
            dx, du = (dx0, dx1), (du0, du1)
            inv1 = wl * z * os_ / (dx1 * du1)
            if abs(inv1 - G[1]) > 0.45:
                ctx.skip('aniso: second axis would round to another grid size')
                continue
        else:
            dx, du = dx0, du0
        A = gen.support(rng, pshape)
        amp = gen.amplitude(rng, A)
        opd = gen.opd(rng, pshape, wl)
        maxshape = (G[0] // os_, G[1] // os_)
        if min(maxshape) < 1:
            continue
        if rng.random() < 0.4:
            shape = None
        else:
            shape = (int(rng.integers(1, maxshape[0] + 1)), int(rng.integers(1, maxshape[1] + 1)))
        if small_int:
            shape = (maxshape[0] - int(rng.integers(0, 3)), maxshape[1] - int(rng.integers(0, 3)))
        if narrow:
            # the same system with its scalars held in single precision (1/alpha moves by 1e-7 at most: the same grid)
            wl, z, dx, du = (float(np.float32(v)) for v in (wl, z, dx, du))
        bks = ['grid:even' if G[0] % 2 == 0 else 'grid:odd', 'pupil:even' if pshape[0] % 2 == 0 else 'pupil:odd', f'os={os_}',
               'shape:none' if shape is None else 'shape:explicit']
        if pshape[0] % 2 != G[0] % 2 or pshape[1] % 2 != G[1] % 2:
            bks.append('pupil-parity!=grid-parity')
        if aniso:
            bks.append('aniso')
        desc = {'pupil': list(pshape), 'grid': G, 'os': os_, 'delta': delta, 'wl': wl, 'z': z, 'dx': dx, 'du': du,
                'shape': shape, 'data': probe.fp_array(amp)[:10]}
        ctx.case(desc, bks, nontrivial=int(np.count_nonzero(amp)) > 1)
        segkw = {}
        if i % 3 == 1:
            # segmented pupil: several fields (bounding boxes usually overlapping) have to be summed into the padded array
            segs, _ = gen.partition(rng, A, int(rng.integers(2, 6)))
            segkw['mask'] = segs.astype(float)
            ctx.bucket('segmented')
            if len(segs) > 1 and gen.bboxes_overlap(segs):
                ctx.bucket('segmented:bbox-overlap')
        back = i % 5 == 3
        wl_f, z_f, dx_f = wl, z, dx
        if narrow:
            wl, z, dx = np.float32(wl), np.float32(z), np.float32(dx)
            ctx.bucket('scalars:float32')
        if back:
            # the other direction: an image-plane wavefront taken (back) to a pupil - the same forward kernel for both propagators
            ctx.bucket('dir:image->pupil')
            w = lentil.Wavefront(wl, focal_length=z) * lentil.Image(amplitude=amp, opd=opd, pixelscale=dx, **segkw)
        else:
            w = lentil.Wavefront(wl) * lentil.Pupil(amplitude=amp, opd=opd, pixelscale=dx, focal_length=z, **segkw)
        kw = dict(oversample=os_)
        if shape is not None:
            kw['shape'] = shape
        if small_int:
            kw['shape'] = np.array(shape, dtype=np.int8) if i % 2 else tuple(np.int8(v) for v in shape)
            ctx.bucket('shape:small-int')
        try:
            of = lentil.propagate_fft(w, np.float32(du) if narrow else du, **kw)
        except Exception as e:
            ctx.check(False, 'fft=dft', f'fft|raises={type(e).__name__}', f'propagate_fft raised {type(e).__name__}: {e}', desc)
            continue
        wl, z, dx = wl_f, z_f, dx_f
        S = tuple(int(x) for x in of.shape)
        expS = (G[0], G[1]) if shape is None else (shape[0] * os_, shape[1] * os_)
        wl_rep = float(of.wavelength)
        dus = np.broadcast_to(np.asarray(du, float), (2,))
        dxs = np.broadcast_to(np.asarray(dx, float), (2,))
        wl_exp = G[0] / os_ * dxs[0] * dus[0] / z
        ok_meta = (S == expS and abs(wl_rep - wl_exp) <= 1e-12 * wl_exp and of.focal_length == w.focal_length
                   and np.allclose(np.asarray(of.pixelscale, float), dus / os_, rtol=1e-15, atol=0)
                   and str(of.ptype) == ('pupil' if back else 'image'))
        ctx.check(ok_meta, 'fft:meta', 'fft|meta',
                  'FFT result does not carry grid shape / reported wavelength / focal length / du/oversample / image type',
                  dict(desc, got={'shape': list(S), 'wl': wl_rep, 'wl_expected': wl_exp}))
        if S != expS:
            continue
        with probe.quiet():
            ff = of.field
        # DFT of the same input field at the reported wavelength (pixelscale du/os, oversample 1 -> any parity)
        w2 = clone_at(lentil, w, wl_rep)
        try:
            od = lentil.propagate_dft(w2, dus / os_, shape=S, oversample=1)      # online model check too
            with probe.quiet():
                fd = od.field
        except Exception as e:
            ctx.check(False, 'fft=dft', f'dft-side|raises={type(e).__name__}', str(e), desc)
            continue
        m = propmodel.expected_dft(w2, propmodel.bind_dft((w2, dus / os_), dict(shape=S, oversample=1)))
        tol = m['tol'] * 8 if isinstance(m, dict) and 'tol' in m else 1e-12
        par = 'odd' if (G[0] % 2 or G[1] % 2) else 'even'
        ctx.close('fft=dft', ff, fd, 1.0, f'fft-vs-dft|grid={par}',
                  'FFT propagation differs from DFT propagation at the wavelength it reports', desc, scale=tol)
        if isinstance(m, dict) and m.get('pts') is None and m.get('window') is not None:
            r0, r1, c0, c1 = m['window']
            ctx.close('fft=model', ff[r0:r1 + 1, c0:c1 + 1], m['ref'], 1.0, f'fft-vs-model|grid={par}',
                      'FFT propagation differs from the Fraunhofer sum at the wavelength it reports', desc, scale=tol)

        # the returned wavefront IS the field on its S output samples: placed on a larger canvas it lights the same samples
        # as the DFT result does (nothing of the FFT grid beyond the requested shape travels along)
        try:
            with probe.quiet():
                big = (S[0] + 6, S[1] + 4)
                ia, ib = of.insert(np.zeros(big)), od.insert(np.zeros(big))
            ctx.bucket('canvas')
            ctx.close('fft:canvas', ia, ib, 1e-9, 'fft|canvas' + ('' if shape is None else '|shape-explicit'),
                      'FFT result placed on a larger canvas differs from the DFT result placed there (samples outside the output shape kept)',
                      desc, scale=max(float(np.max(ib)), 1e-300))
        except Exception as e:
            ctx.check(False, 'fft:canvas', f'fft|canvas|raises={type(e).__name__}', str(e), desc)

        # ---- scratch ---------------------------------------------------------------
        mode = i % 4
        adv = lentil.scratch_shape(wl, dx, du, z, os_)
        ctx.check(tuple(int(x) for x in adv) == (G[0], G[1]), 'scratch:exact-accepted', 'scratch_shape|value',
                  'scratch_shape is not the FFT grid', dict(desc, got=[int(x) for x in adv]))
        # one buffer for a band: the advertised shape for a LIST of wavelengths serves every one of them (it is the largest grid),
        # in whatever order the list comes
        if not aniso:
            wl_f = float(wl)
            band = [wl_f * f_ for f_ in (float(rng.uniform(1.05, 1.6)), 1.0, float(rng.uniform(1.7, 2.4)), float(rng.uniform(0.6, 0.95)))]
            grids = [int(np.floor(b * float(z) * os_ / (float(np.asarray(dx, float).flat[0]) * float(np.asarray(du, float).flat[0])) + 0.5)) for b in band]
            frac = [abs((b * float(z) * os_ / (float(np.asarray(dx, float).flat[0]) * float(np.asarray(du, float).flat[0]))) % 1.0 - 0.5) for b in band]
            if min(frac) > 1e-6:
                ctx.bucket('scratch_shape:band')
                try:
                    advb = tuple(int(x) for x in lentil.scratch_shape(band if i % 2 else np.array(band), dx, du, z, os_))
                    ctx.check(advb == (max(grids), max(grids)), 'scratch:exact-accepted', 'scratch_shape|band',
                              'scratch_shape for a list of wavelengths is not the largest of their FFT grids', dict(desc, band=band, got=list(advb), grids=grids))
                except Exception as e:
                    ctx.check(False, 'scratch:exact-accepted', f'scratch_shape|band|raises={type(e).__name__}', str(e), desc)
        scs = max(float(np.max(np.abs(ff))), 1e-300)

        def run_scratch(buf, label, bucket):
            ctx.bucket(bucket)
            # a result obtained earlier through the same buffer must not change when the buffer is used again
            held = ctx.notes.get('_held')
            try:
                o = lentil.propagate_fft(w, du, scratch=buf, **kw)
            except Exception as e:
                ctx.check(False, 'scratch:exact-accepted' if label == 'exact' else 'scratch=transparent',
                          f'scratch|{label}|raises={type(e).__name__}',
                          f'a sufficient scratch buffer ({label}) was refused: {type(e).__name__}: {e}',
                          dict(desc, scratch=list(buf.shape)))
                return
            if label == 'exact':
                ctx.check(True, 'scratch:exact-accepted', 'ok', 'ok')
            with probe.quiet():
                fs = o.field
            ctx.close('scratch=transparent', fs, ff, 1e-13, f'scratch|{label}|value',
                      'supplying a scratch buffer changed the result', dict(desc, scratch=list(buf.shape)), scale=scs)
            if held is not None and held[0] is buf:
                with probe.quiet():
                    again = held[1].field
                ctx.check(np.array_equal(again, held[2]), 'scratch=transparent', 'scratch|earlier-result-changed',
                          'a wavefront returned earlier changed when its scratch buffer was used for another propagation',
                          dict(desc, scratch=list(buf.shape)))
            buf_before = None
            ctx.notes['_held'] = (buf, o, fs.copy())
            # ... nor when the caller overwrites the buffer afterwards
            buf[...] = 7.0 - 3.0j
            with probe.quiet():
                after = o.field
            ctx.check(np.array_equal(after, fs), 'scratch=transparent', 'scratch|result-aliases-buffer',
                      'the returned field is a view of the scratch buffer (overwriting the buffer changed the result)',
                      dict(desc, scratch=list(buf.shape)))

        run_scratch(np.zeros(tuple(int(x) for x in adv), complex), 'exact', 'scratch:exact')
        if mode in (0, 1):
            big = (G[0] + int(rng.integers(1, 9)), G[1] + int(rng.integers(1, 30)))
            buf = np.zeros(big, complex)
            if mode == 1:
                buf[:] = rng.normal(size=big) + 1j * rng.normal(size=big)
            run_scratch(buf, 'larger-dirty' if mode == 1 else 'larger', 'scratch:dirty' if mode == 1 else 'scratch:larger')
        if mode == 2:
            # "any prior content": uninitialised memory may hold NaN / inf
            big = (G[0] + int(rng.integers(0, 4)), G[1] + int(rng.integers(0, 4)))
            buf = np.full(big, [np.nan, np.inf, complex(np.nan, -np.inf)][i % 3], complex)
            run_scratch(buf, 'non-finite', 'scratch:non-finite')
        if dirty is not None and dirty.shape[0] > G[0] and dirty.shape[1] > G[1]:
            run_scratch(dirty, 'reused', 'scratch:dirty')        # content left by earlier, differently sized cases
        if dirty is None or rng.random() < 0.2:
            dirty = (rng.normal(size=(gmax + 8, gmax + 12)) + 0j)
        # too small -> ValueError
        ctx.bucket('scratch:too-small')
        small = (max(1, G[0] - int(rng.integers(1, 4))), G[1] + 3) if rng.random() < 0.5 else (G[0] + 3, max(1, G[1] - 1))
        ctx.expect_raises('scratch:too-small-refused', (ValueError,),
                          lambda: lentil.propagate_fft(w, du, scratch=np.zeros(small, complex), **kw),
                          'scratch|too-small', 'a scratch buffer smaller than the grid was not refused with ValueError',
                          dict(desc, scratch=list(small)))
        # shape larger than the grid
        ctx.bucket('shape:too-large')
        bigshape = (maxshape[0] + int(rng.integers(1, 4)), maxshape[1]) if rng.random() < 0.5 else \
            (maxshape[0], maxshape[1] + int(rng.integers(1, 4)))
        ctx.expect_raises('shape:too-large-refused', (ValueError,),
                          lambda: lentil.propagate_fft(w, du, shape=bigshape, oversample=os_),
                          'shape|too-large', 'an output shape larger than the FFT grid was not refused with ValueError',
                          dict(desc, shape=list(bigshape)))
        # tilt metadata -> refused
        if i % 3 == 0:
            ctx.bucket('tilted')
            how = i % 15 // 3
            if how == 3:
                # tilt metadata of the other kinds: a dispersive element (no x / y angles at all) ...
                import warnings as _w
                with _w.catch_warnings():
                    _w.simplefilter('ignore')
                    wt = w * [lentil.DispersiveTilt, lentil.Grism][(i // 15) % 2](trace=[1.0, 0.0], dispersion=[1e-4, 5e-7])
            elif how == 4:
                # ... and a user's own implementation of the tilt interface
                class _MyTilt(lentil.plane.TiltInterface):
                    def shift(self, xs=0, ys=0, z=0, **kwargs):
                        return xs + 1e-6 * z, ys
                wt = w * _MyTilt()
            elif how == 0:
                wt = w * lentil.Tilt(x=1e-6, y=-2e-6)
            elif how == 1:
                wt = lentil.Wavefront(wl, tilt=[1e-6, 0]) * lentil.Pupil(amplitude=amp, opd=opd, pixelscale=dx, focal_length=z)
            else:
                rr = (np.arange(pshape[0]) - pshape[0] // 2)[:, None] * 1e-9 + np.zeros(pshape)
                wt = lentil.Wavefront(wl) * lentil.Pupil(amplitude=amp, opd=opd + rr, pixelscale=dx, focal_length=z).fit_tilt()
            ctx.bucket(f'tilted:how={how}')
            ctx.expect_raises('tilt-refused', (NotImplementedError,),
                              lambda: lentil.propagate_fft(wt, du, **kw), 'tilt|refusal',
                              'a wavefront carrying tilt metadata was not refused by propagate_fft', dict(desc, how=how))
            # several fields of which only one (first, middle or last) carries tilt metadata
            segs, _ = gen.partition(rng, A, 3)
            if len(segs) >= 2:
                wseg = lentil.Wavefront(wl) * lentil.Pupil(amplitude=amp, opd=opd, mask=segs.astype(float), pixelscale=dx,
                                                          focal_length=z)
                which = int(rng.integers(0, len(wseg.data)))
                wseg.data[which].tilt = [lentil.Tilt(x=1e-6, y=2e-6)]
                ctx.expect_raises('tilt-refused', (NotImplementedError,),
                                  lambda: lentil.propagate_fft(wseg, du, **kw), 'tilt|refusal|one-field-of-many',
                                  'a wavefront in which only one of several fields carries tilt metadata was not refused',
                                  dict(desc, tilted_field=which, fields=len(wseg.data)))


def finish(ctx, lentil):
    ctx.notes.pop('_held', None)
