"""C14 — unit conversions are consistent and Planck's law is unit-independent.

Complete enumeration of all ordered triples of wavelength-unit names (with aliases) and of flux units on
random vectors; Spectrum.to on random spectra (integral / values preserved, round trips); Planck radiance and
exitance in all 4 x 3 unit pairs converted to SI with the monitor's own factors and compared with an independent
Planck evaluation (CODATA constants); Wien peak; Stefan-Boltzmann total; Vega zero points across units.
"""
import itertools

import numpy as np

from vp import probe, specmodel as sm
from vp import defaults
from vp import reuse
from vp import forms as argforms
from vp import corners

RULE = ('all 7^3 ordered triples of wavelength unit names (4 units + 3 aliases) and all 3^3 flux-unit triples, each on fresh '
        'random wavelength/flux vectors (enumerated completely, sharded); random spectra for Spectrum.to; temperatures '
        '50..50000 K for Planck in all 4x3 unit pairs.  distinct = distinct (triple | spectrum hash | temperature, units).')
ASSUMPTIONS = ["lentil's physical constants differ from CODATA by < 1e-6 relative (tolerance 1e-5 on absolute Planck values)"]
EXHAUSTIVE = True
PLAN = {'quick': {'gen': 4}, 'thorough': {'gen': 8, 'tests': 1, 'docs': 1}}
REQUIRED_BUCKETS = ['defaults', 'corners', 'reuse', 'forms', 'wave-triple', 'flux-triple', 'spectrum.to:density', 'spectrum.to:unitless', 'spectrum.to:flux-roundtrip', 'spectrum.to:multi', 'spectrum.sample:unit', 'blackbody:converted',
                    'planck:radiance', 'planck:exitance', 'planck:forms', 'planck:argument-types', 'planck:rayleigh-jeans', 'spectrum.to:refused-tail', 'same-numbers:mixed-units', 'wien', 'stefan-boltzmann', 'vega', 'spectrum.to:edit-in-place', 'spectrum.bin:unit', 'unit:aliases', 'spectrum:narrow-columns', 'spectrum:narrow-columns:assigned', 'spectrum:narrow-columns:resampled', 'spectrum.to:blackbody-objects', 'spectrum.to:sub-range-integral', 'planck:temperature-vector-types']
REQUIRED_ANCHORS = ['anchor:Spectrum.to', 'anchor:planck_radiance', 'anchor:planck_exitance', 'anchor:vegaflux',
                    'anchor:Photlam.to', 'anchor:Micron.to']
REQUIRED_ORACLES = ['wave:compose', 'wave:identity', 'wave:roundtrip', 'wave=si', 'flux:compose', 'flux:identity',
                    'flux:roundtrip', 'flux=si', 'to:integral', 'to:values', 'to:flux-roundtrip', 'to:multi', 'planck=si', 'planck:forms',
                    'exitance=pi*radiance', 'wien', 'stefan-boltzmann', 'vega', 'planck=formula', 'flux=formula']


def anchors(lentil):
    R = lentil.radiometry
    return [('Spectrum.to', R.Spectrum.to), ('planck_radiance', R.planck_radiance), ('planck_exitance', R.planck_exitance),
            ('vegaflux', R.vegaflux), ('Photlam.to', R.Photlam.to), ('Flam.to', R.Flam.to), ('Wlam.to', R.Wlam.to),
            ('Micron.to', R.Micron.to), ('Meter.to', R.Meter.to), ('Nanometer.to', R.Nanometer.to),
            ('Angstrom.to', R.Angstrom.to)]


NAMES = ['m', 'meter', 'um', 'micron', 'nm', 'nanometer', 'angstrom']


def workload(ctx, lentil):
    defaults.run(ctx, lentil, 'C14', 'wave:compose')
    reuse.run(ctx, lentil, 'C14', 'wave:compose')
    argforms.run(ctx, lentil, 'C14', 'wave:compose')
    corners.run(ctx, lentil, 'C14', 'wave:compose')
    rng = ctx.rng
    R = lentil.radiometry
    k = 0
    # ---- wavelength unit triples ------------------------------------------------------------------
    for a, b, c in itertools.product(NAMES, repeat=3):
        k += 1
        if k % ctx.nshards != ctx.shard:
            continue
        ctx.case({'wave-triple': [a, b, c]}, ['wave-triple'])
        try:
            ab, bc, ac = R.Unit(a).to(b), R.Unit(b).to(c), R.Unit(a).to(c)
            aa, ba = R.Unit(a).to(a), R.Unit(b).to(a)
        except Exception as e:
            ctx.check(False, 'wave:compose', f'wave|raises={type(e).__name__}', str(e), {'triple': [a, b, c]})
            continue
        w = {'triple': [a, b, c], 'ab': ab, 'bc': bc, 'ac': ac}
        ctx.close('wave:compose', np.array([ab * bc]), np.array([ac]), 1e-12, 'wave|compose', 'A->B->C differs from A->C', w, scale=abs(ac))
        ctx.check(aa == 1, 'wave:identity', 'wave|identity', 'A->A is not the identity', w)
        ctx.close('wave:roundtrip', np.array([ab * ba]), np.array([1.0]), 1e-12, 'wave|roundtrip', 'A->B->A is not the identity', w, scale=1.0)
        ctx.close('wave=si', np.array([ab]), np.array([sm.wave_factor(a, b)]), 1e-12, f'wave|si|{R.Unit(a).name}->{R.Unit(b).name}',
                  'wavelength conversion factor is wrong', w, scale=sm.wave_factor(a, b))
    # ---- flux unit triples --------------------------------------------------------------------------
    for rep in range(ctx.count(4, 20)):
        for a, b, c in itertools.product(sm.FLUX, repeat=3):
            k += 1
            if k % ctx.nshards != ctx.shard:
                continue
            wave = rng.uniform(1e-7, 3e-5, size=5)             # metres
            flux = np.exp(rng.uniform(-5, 25, size=5))
            ctx.case({'flux-triple': [a, b, c], 'rep': rep, 'v': probe.fp_array(flux)[:8]}, ['flux-triple'])
            try:
                fab = R.Unit(a).to(flux, b, wave)
                fabc = R.Unit(b).to(fab, c, wave)
                fac = R.Unit(a).to(flux, c, wave)
                faa = R.Unit(a).to(flux, a, wave)
                faba = R.Unit(b).to(fab, a, wave)
            except Exception as e:
                ctx.check(False, 'flux:compose', f'flux|raises={type(e).__name__}', str(e), {'triple': [a, b, c]})
                continue
            w = {'triple': [a, b, c]}
            ctx.close('flux:compose', fabc, fac, 1e-12, 'flux|compose', 'A->B->C differs from A->C', w, scale=float(np.max(np.abs(fac))))
            ctx.check(np.array_equal(faa, flux), 'flux:identity', 'flux|identity', 'A->A is not the identity', w)
            ctx.close('flux:roundtrip', faba / flux, np.ones(5), 1e-12, 'flux|roundtrip', 'A->B->A does not restore the flux', w, scale=1.0)
            ctx.close('flux=si', sm.flux_to_wlam_si(fab, b, wave) / sm.flux_to_wlam_si(flux, a, wave), np.ones(5), 1e-6,
                      f'flux|si|{a}->{b}', 'flux conversion does not describe the same physical flux', w, scale=1.0)
            # the same with the photon energy formed from the module's own constants: to rounding
            hc_ = float(R.H) * float(R.C)
            ctx.close('flux=formula', sm.flux_to_wlam_si(fab, b, wave, hc=hc_) / sm.flux_to_wlam_si(flux, a, wave, hc=hc_), np.ones(5), 1e-12,
                      f'flux|formula|{a}->{b}', "flux conversion is not the textbook relation (photon energy hc/lambda, 1 erg/s/cm^2 = 1e-3 W/m^2) "
                      "with the module's constants", w, scale=1.0)
    # ---- Spectrum.to ----------------------------------------------------------------------------------
    n = ctx.count(60, 500)
    for i in range(n):
        npts = int(rng.integers(2, 30))
        u0 = sm.WAVE_CANON[int(rng.integers(0, 4))]
        wave_nm = np.cumsum(rng.uniform(0.5, 30, size=npts)) + rng.uniform(200, 900)
        wave = wave_nm * sm.wave_factor('nm', u0)
        value = rng.uniform(0, 5, size=npts)
        vu = [None, 'photlam', 'flam', 'wlam'][int(rng.integers(0, 4))]
        chain = [sm.WAVE_CANON[int(rng.integers(0, 4))] for _ in range(int(rng.integers(1, 4)))]   # Spectrum.to documents the short names only
        desc = {'spectrum.to': chain, 'from': u0, 'valueunit': vu, 'n': npts, 'h': probe.fp_array(value)[:8]}
        ctx.case(desc, ['spectrum.to:unitless' if vu is None else 'spectrum.to:density'])
        s = R.Spectrum(wave.copy(), value.copy(), waveunit=u0, valueunit=vu)
        I0 = float(np.trapz(value, wave))
        try:
            if len(chain) > 1 and rng.random() < 0.5:
                s.to(*chain)
            else:
                for u in chain:
                    s.to(u)
        except Exception as e:
            ctx.check(False, 'to:integral', f'to|raises={type(e).__name__}', str(e), desc)
            continue
        f = sm.wave_factor(u0, chain[-1])
        ctx.close('to:values', s.wave, wave * f, 1e-12, 'to|wave', 'Spectrum.to did not rescale the wavelengths', desc,
                  scale=float(np.max(wave * f)))
        ctx.check(sm.WAVE_M[s.waveunit] == sm.WAVE_M[chain[-1]], 'to:values', 'to|waveunit', 'waveunit not updated', desc)
        if npts >= 3:
            # the converted spectrum's own integrate() over a sub-range whose ends fall between samples (given in the new unit)
            k0 = int(rng.integers(0, npts - 1))
            k1 = int(rng.integers(k0, npts - 1))
            lo0 = wave[k0] + 0.37 * (wave[k0 + 1] - wave[k0])
            hi0 = wave[k1] + 0.61 * (wave[k1 + 1] - wave[k1])
            ex0 = sm.integral_pl(wave, value, lo0, hi0)
            try:
                gotI = float(s.integrate(lo0 * f, hi0 * f, 'trapz'))
                ctx.bucket('spectrum.to:sub-range-integral')
                ctx.close('to:integral', np.array([gotI]), np.array([ex0 if vu is not None else ex0 * f]), 1e-10, 'to|sub-range-integral',
                          'the integral over a sub-range (ends between samples) is not preserved (density) / scaled with the unit (unitless) by a '
                          'wavelength-unit conversion', dict(desc, bounds=[float(lo0), float(hi0)]), scale=abs(ex0 if vu is not None else ex0 * f) + 1e-300)
            except Exception as e:
                ctx.check(False, 'to:integral', f'to|sub-range-integral|raises={type(e).__name__}', str(e), desc)
        if vu is None:
            ctx.close('to:values', s.value, value, 1e-13, 'to|unitless-values', 'unitless values changed under a wavelength-unit conversion',
                      desc, scale=float(np.max(value)) + 1e-300)
        else:
            ctx.close('to:integral', np.array([np.trapz(s.value, s.wave)]), np.array([I0]), 1e-11, 'to|integral',
                      'the integral of a per-wavelength density changed under a wavelength-unit conversion', desc, scale=abs(I0) + 1e-300)
            # flux-unit round trip
            others = [x for x in sm.FLUX if x != vu]
            seq = [others[int(rng.integers(0, 2))], others[int(rng.integers(0, 2))], vu]
            before = (s.wave.copy(), s.value.copy())
            ctx.case(dict(desc, flux_roundtrip=seq), ['spectrum.to:flux-roundtrip'])
            try:
                mid = None
                for q, u in enumerate(seq):
                    s.to(u)
                    if q == 0:
                        mid = s.value.copy()
                ctx.close('to:flux-roundtrip', s.value, before[1], 1e-11, 'to|flux-roundtrip',
                          'a flux-unit round trip does not restore the spectrum', desc, scale=float(np.max(before[1])) + 1e-300)
                ctx.check(np.array_equal(s.wave, before[0]) and s.valueunit == vu, 'to:flux-roundtrip', 'to|flux-roundtrip|wave',
                          'flux-unit conversion changed the wavelengths', desc)
                # physical check of the first hop
                wm = before[0] * sm.WAVE_M[s.waveunit]
                per_m_a = before[1] / sm.WAVE_M[s.waveunit]
                per_m_b = mid / sm.WAVE_M[s.waveunit]
                ctx.close('flux=si', sm.flux_to_wlam_si(per_m_b, seq[0], wm), sm.flux_to_wlam_si(per_m_a, vu, wm), 1e-6,
                          f'to|flux|{vu}->{seq[0]}', 'Spectrum.to(flux unit) does not describe the same physical flux', desc,
                          scale=float(np.max(np.abs(sm.flux_to_wlam_si(per_m_a, vu, wm)))) + 1e-300)
            except Exception as e:
                ctx.check(False, 'to:flux-roundtrip', f'to|flux|raises={type(e).__name__}', str(e), desc)
    # ---- Spectrum.to with several units in one call == the same conversions one after the other ---------------------
    for i in range(n):
        npts = int(rng.integers(2, 20))
        u0 = sm.WAVE_CANON[int(rng.integers(0, 4))]
        wave = (np.cumsum(rng.uniform(0.5, 30, size=npts)) + rng.uniform(200, 900)) * sm.wave_factor('nm', u0)
        value = rng.uniform(0.1, 5, size=npts)
        vu = sm.FLUX[int(rng.integers(0, 3))]
        seq = []
        for _ in range(int(rng.integers(2, 5))):
            seq.append(sm.WAVE_CANON[int(rng.integers(0, 4))] if rng.random() < 0.5 else sm.FLUX[int(rng.integers(0, 3))])
        desc = {'spectrum.to-multi': seq, 'from': [u0, vu], 'n': npts}
        ctx.case(desc, ['spectrum.to:multi'])
        a = R.Spectrum(wave.copy(), value.copy(), waveunit=u0, valueunit=vu)
        b = R.Spectrum(wave.copy(), value.copy(), waveunit=u0, valueunit=vu)
        try:
            a.to(*seq)
            for u in seq:
                b.to(u)
        except Exception as e:
            ctx.check(False, 'to:multi', f'to-multi|raises={type(e).__name__}', str(e), desc)
            continue
        ctx.close('to:multi', a.value / b.value, np.ones(npts), 1e-11, 'to-multi|value',
                  'Spectrum.to(u1, u2, ...) differs from the same conversions applied one after the other', desc, scale=1.0)
        ctx.check(np.allclose(a.wave, b.wave, rtol=1e-13, atol=0) and a.waveunit == b.waveunit and a.valueunit == b.valueunit,
                  'to:multi', 'to-multi|wave', 'Spectrum.to(u1, u2, ...) leaves other wavelengths/units than sequential conversion', desc)
        # and both describe the original physical spectrum (per metre, SI)
        wm0 = wave * sm.WAVE_M[u0]
        si0 = sm.flux_to_wlam_si(value / sm.WAVE_M[u0], vu, wm0)
        wm1 = np.asarray(a.wave, float) * sm.WAVE_M[a.waveunit]
        si1 = sm.flux_to_wlam_si(np.asarray(a.value, float) / sm.WAVE_M[a.waveunit], a.valueunit, wm1)
        ctx.close('flux=si', si1 / si0, np.ones(npts), 1e-6, 'to-multi|physical',
                  'a spectrum converted with Spectrum.to(u1, u2, ...) no longer describes the same physical flux', desc, scale=1.0)
        # a call whose LAST unit is refused (unknown unit; a flux unit for a unitless curve): whatever was converted before the
        # refusal is labelled accordingly - the spectrum still describes the same physical data and converts back to its values
        if i % 2 == 0:
            unitless = i % 4 == 0
            vu2 = None if unitless else vu
            c = R.Spectrum(wave.copy(), value.copy(), waveunit=u0, valueunit=vu2)
            good = [u for u in seq if (u in sm.WAVE_CANON or not unitless)][:2] or ['um' if u0 != 'um' else 'nm']
            bad = 'photlam' if unitless else 'jansky'
            ctx.case({'spectrum.to-refused-tail': good + [bad], 'from': [u0, vu2]}, ['spectrum.to:refused-tail'])
            try:
                c.to(*good, bad)
                ctx.skip('to: tail unit expected to be refused was accepted')
            except Exception:
                pass
            try:
                wm2 = np.asarray(c.wave, float) * sm.WAVE_M[c.waveunit]
                okw = np.allclose(wm2, wm0, rtol=1e-12, atol=0)
                if unitless:
                    okv = c.valueunit is None and np.allclose(np.asarray(c.value, float), value, rtol=1e-12, atol=0)
                else:
                    si2 = sm.flux_to_wlam_si(np.asarray(c.value, float) / sm.WAVE_M[c.waveunit], c.valueunit, wm2)
                    okv = np.allclose(si2 / si0, 1.0, rtol=1e-6, atol=0)
                ctx.check(okw and okv, 'to:multi', 'to-multi|refused-tail|physical',
                          'after a multi-unit conversion whose last unit was refused the spectrum (numbers + unit labels) no longer describes '
                          'the same physical data', {'seq': good + [bad], 'from': [u0, vu2], 'now': [c.waveunit, c.valueunit]})
                back = [u0] if unitless else [u0, vu]
                c.to(*back)
                ctx.check(np.allclose(np.asarray(c.wave, float), wave, rtol=1e-12, atol=0) and
                          np.allclose(np.asarray(c.value, float), value, rtol=1e-10, atol=0), 'to:flux-roundtrip', 'to-multi|refused-tail|roundtrip',
                          'converting back after a refused multi-unit call does not return the original values',
                          {'seq': good + [bad], 'from': [u0, vu2]})
            except Exception as e:
                ctx.check(False, 'to:multi', f'to-multi|refused-tail|raises={type(e).__name__}', str(e), {'seq': good + [bad]})
    # ---- operands tabulated on the same NUMBERS in different wavelength units (10..30 um and 10..30 nm): arithmetic converts the
    # second operand like any other, i.e. a op b == a op (b expressed in a's unit first)
    for i in range(max(6, n // 4)):
        npts = int(rng.integers(3, 15))
        ua, ub = [('um', 'nm'), ('nm', 'angstrom'), ('angstrom', 'nm'), ('nm', 'um')][i % 4]
        if 'um' in (ua, ub):      # (numbers chosen so that the union grid at the finer sampling stays below ~1e5 points)
            nums = np.cumsum(rng.uniform(0.05, 0.3, size=npts)) + rng.uniform(1, 2)
        else:
            nums = np.cumsum(rng.uniform(5, 30, size=npts)) + rng.uniform(300, 900)
        va, vb = rng.uniform(0.1, 5, size=npts), rng.uniform(0.1, 5, size=npts)
        vu = [None, 'photlam', 'wlam'][i % 3]
        opn = ['add', 'multiply', 'subtract'][i % 3]
        ctx.case({'same-numbers-other-unit': [ua, ub], 'op': opn, 'valueunit': vu, 'n': npts}, ['same-numbers:mixed-units'])
        try:
            A = R.Spectrum(nums.copy(), va.copy(), waveunit=ua, valueunit=vu)
            B = R.Spectrum(nums.copy(), vb.copy(), waveunit=ub, valueunit=vu)
            Bc = R.Spectrum(nums.copy(), vb.copy(), waveunit=ub, valueunit=vu)
            Bc.to(ua)
            r1 = getattr(A, opn)(B)
            r2 = getattr(A, opn)(Bc)
            same = r1.waveunit == r2.waveunit and len(r1.wave) == len(r2.wave) and \
                np.allclose(r1.wave, r2.wave, rtol=1e-9, atol=0)
            if same:
                tie = np.zeros(len(r1.wave), bool)
                for e_ in (A.wave[0], A.wave[-1], Bc.wave[0], Bc.wave[-1]):
                    tie |= np.abs(np.asarray(r1.wave) - e_) <= 1e-9 * e_
                v1, v2 = np.asarray(r1.value, float), np.asarray(r2.value, float)
                sc_ = max(float(np.max(np.abs(v2))), 1e-300)
                same = bool(np.all(np.isclose(v1, v2, rtol=1e-8, atol=1e-11 * sc_) | tie))
            elif r1.waveunit == r2.waveunit and abs(len(r1.wave) - len(r2.wave)) == 1:
                ctx.skip('same-numbers: step count at a ceil() tie')
                continue
            ctx.check(same, 'to:values', 'same-numbers|mixed-units',
                      'operands that hold the same numbers in different wavelength units were combined without converting the second one',
                      {'units': [ua, ub], 'op': opn, 'n': [len(r1.wave), len(r2.wave)]})
        except Exception as e:
            ctx.check(False, 'to:values', f'same-numbers|raises={type(e).__name__}', str(e), {'units': [ua, ub], 'op': opn})
    # ---- every name Unit() accepts for a wavelength unit ('meter', 'micron', 'nanometer', any letter case) means that unit wherever
    # a unit is asked for: Spectrum.to, sample, resample, bin --------------------------------------------------------------------
    ALIASES = {'m': ['meter', 'Meter', 'M'], 'um': ['micron', 'MICRON', 'Um'], 'nm': ['nanometer', 'Nanometer', 'NM'], 'angstrom': ['Angstrom', 'ANGSTROM']}
    for i in range(max(8, n // 6)):
        npts = int(rng.integers(6, 20))
        u0, u1 = sm.WAVE_CANON[int(rng.integers(0, 4))], sm.WAVE_CANON[int(rng.integers(0, 4))]
        alias = ALIASES[u1][int(rng.integers(0, len(ALIASES[u1])))]
        wave_nm = np.linspace(float(rng.uniform(300, 500)), float(rng.uniform(900, 1500)), npts)
        value = rng.uniform(0.1, 5, size=npts)
        vu = [None, 'photlam'][i % 2]
        desc = {'unit-alias': alias, 'means': u1, 'spectrum-in': u0, 'valueunit': vu}
        ctx.case(desc, ['unit:aliases'])
        mk = lambda: R.Spectrum(wave_nm * sm.wave_factor('nm', u0), value.copy(), waveunit=u0, valueunit=vu)
        q = np.linspace(wave_nm[1], wave_nm[-2], 5) * sm.wave_factor('nm', u1)
        cen = np.linspace(wave_nm[2], wave_nm[-3], 4) * sm.wave_factor('nm', u1)
        for what, fn in (('to', lambda sp, u: (sp.to(u), np.r_[np.asarray(sp.wave, float), np.asarray(sp.value, float)])[1]),
                         ('sample', lambda sp, u: np.asarray(sp.sample(q, waveunit=u), float)),
                         ('resample', lambda sp, u: (sp.resample(q, waveunit=u), np.r_[np.asarray(sp.wave, float), np.asarray(sp.value, float)])[1]),
                         ('bin', lambda sp, u: np.asarray(sp.bin(cen, interp_method='trapz', waveunit=u), float))):
            try:
                ref = fn(mk(), u1)
            except Exception:
                continue                      # (the canonical name itself is checked elsewhere)
            try:
                got = fn(mk(), alias)
                ctx.close('to:values', got, ref, 1e-13, f'unit-alias|{what}', f'Spectrum.{what} with a unit name that Unit() accepts as an alias '
                          'gives another result than with the canonical name', desc, scale=float(np.max(np.abs(ref))) + 1e-300)
            except Exception as e:
                ctx.check(False, 'to:values', f'unit-alias|{what}|raises={type(e).__name__}',
                          f'Spectrum.{what} refuses the unit name {alias!r} that Unit() accepts: {e}', desc)
    # ---- wavelength / value columns held in single or half precision (FITS 'E' columns): the same numbers as doubles, so the same
    # spectrum in every unit - conversions, samples AT the end wavelengths expressed in another unit, integrals, flux round trips ----
    for i in range(max(10, n // 3)):
        npts = int(rng.integers(3, 12))
        u0, u1 = sm.WAVE_CANON[int(rng.integers(0, 4))], sm.WAVE_CANON[int(rng.integers(0, 4))]
        wdt = [np.float32, np.float32, np.float16][i % 3]
        # wavelengths that are exact in the narrow type (whole nanometres / quarter micrometres ...)
        base = {'nm': (400, 50), 'um': (0.5, 0.125), 'm': (2.0 ** -21, 2.0 ** -24), 'angstrom': (4000, 250)}[u0]
        w_n = (base[0] + base[1] * np.arange(npts)).astype(wdt)
        v_n = (rng.integers(1, 200, size=npts) / 8.0).astype(wdt if i % 2 else float)
        vu = [None, 'photlam', 'wlam', 'flam'][i % 4]
        desc = {'narrow-columns': [np.dtype(wdt).name, str(v_n.dtype)], 'units': [u0, u1], 'valueunit': vu, 'n': npts}
        ctx.case(desc, ['spectrum:narrow-columns'])
        try:
            route = (i // 4) % 3
            if route == 0:
                a = R.Spectrum(w_n.copy(), v_n.copy(), waveunit=u0, valueunit=vu)
                b = R.Spectrum(w_n.astype(float), v_n.astype(float), waveunit=u0, valueunit=vu)
            elif route == 1:
                # the narrow columns reach an existing spectrum by attribute assignment
                a = R.Spectrum(w_n.astype(float) * 1.0, np.ones(npts), waveunit=u0, valueunit=vu)
                a.wave = w_n.copy()
                a.value = v_n.copy()
                b = R.Spectrum(w_n.astype(float), v_n.astype(float), waveunit=u0, valueunit=vu)
                ctx.bucket('spectrum:narrow-columns:assigned')
            else:
                # ... or as the grid of a resample()
                w_d = np.linspace(float(w_n[0]), float(w_n[-1]), npts + 3)
                v_d = rng.integers(1, 200, size=npts + 3) / 8.0
                a = R.Spectrum(w_d.copy(), v_d.copy(), waveunit=u0, valueunit=vu)
                b = R.Spectrum(w_d.copy(), v_d.copy(), waveunit=u0, valueunit=vu)
                a.resample(w_n.copy(), waveunit=u0)
                b.resample(w_n.astype(float), waveunit=u0)
                ctx.bucket('spectrum:narrow-columns:resampled')
            desc['route'] = ['constructor', 'assignment', 'resample'][route]
            q = np.asarray(b.wave, float) * sm.wave_factor(u0, u1)          # its own wavelengths, end samples included, in u1
            sa, sb = np.asarray(a.sample(q, waveunit=u1), float), np.asarray(b.sample(q, waveunit=u1), float)
            ctx.close('to:values', sa, sb, 1e-12, 'narrow-columns|sample-other-unit',
                      'a spectrum whose columns are held in single / half precision samples differently (end samples lost?) from the same '
                      'numbers held as doubles', desc, scale=float(np.max(np.abs(sb))) + 1e-300)
            a.to(u1); b.to(u1)
            ctx.close('to:values', np.r_[np.asarray(a.wave, float), np.asarray(a.value, float)], np.r_[np.asarray(b.wave, float), np.asarray(b.value, float)],
                      1e-13, 'narrow-columns|to', 'Spectrum.to on single / half precision columns differs from the conversion of the same numbers as doubles',
                      desc, scale=1.0 if False else float(np.max(np.abs(np.r_[np.asarray(b.wave, float), np.asarray(b.value, float)]))))
            Ia, Ib = float(a.integrate(method='trapz')), float(b.integrate(method='trapz'))
            ctx.close('to:integral', np.array([Ia]), np.array([Ib]), 1e-12, 'narrow-columns|integral',
                      'the integral of a converted single / half precision spectrum differs from that of the same numbers as doubles', desc,
                      scale=abs(Ib) + 1e-300)
            if vu is not None:
                other = [x for x in sm.FLUX if x != vu][i % 2]
                a.to(other); a.to(vu); b.to(other); b.to(vu)
                ctx.close('to:flux-roundtrip', np.asarray(a.value, float), np.asarray(b.value, float), 1e-12, 'narrow-columns|flux-roundtrip',
                          'a flux-unit round trip of single / half precision values differs from that of the same numbers as doubles', desc,
                          scale=float(np.max(np.abs(np.asarray(b.value, float)))) + 1e-300)
        except Exception as e:
            ctx.check(False, 'to:values', f'narrow-columns|raises={type(e).__name__}', str(e), desc)
    # ---- convert, edit the arrays in place, convert straight back: the spectrum as it is NOW is what is converted ------------------
    for i in range(max(10, n // 3)):
        npts = int(rng.integers(3, 20))
        u0, u1 = sm.WAVE_CANON[int(rng.integers(0, 4))], sm.WAVE_CANON[int(rng.integers(0, 4))]
        wave = (np.cumsum(rng.uniform(2, 30, size=npts)) + rng.uniform(200, 900)) * sm.wave_factor('nm', u0)
        value = rng.uniform(0.1, 5, size=npts)
        vu = ['photlam', 'flam', 'wlam', None][i % 4]
        flux_hop = vu is not None and i % 2 == 0
        other = [x for x in sm.FLUX if x != vu][int(rng.integers(0, 2))] if vu is not None else None
        desc = {'edit-between-conversions': [u0, u1], 'valueunit': vu, 'via': other if flux_hop else u1, 'n': npts}
        ctx.case(desc, ['spectrum.to:edit-in-place'])
        sp = R.Spectrum(wave.copy(), value.copy(), waveunit=u0, valueunit=vu)
        try:
            sp.to(other) if flux_hop else sp.to(u1)
            k = int(rng.integers(0, npts))
            sp.value[k:] *= 0.5                      # in-place edits of the caller's own spectrum
            sp.value[0] = 0.0
            if not flux_hop:
                sp.wave[...] = sp.wave * 1.0
            sp.to(vu) if flux_hop else sp.to(u0)
            want = value.copy(); want[k:] *= 0.5; want[0] = 0.0
            ctx.close('to:flux-roundtrip', np.asarray(sp.value, float), want, 1e-11, 'to|edit-in-place|values',
                      'an in-place edit made between a conversion and the conversion back is lost (or altered)', desc,
                      scale=float(np.max(value)))
            ctx.close('to:values', np.asarray(sp.wave, float), wave, 1e-12, 'to|edit-in-place|wave',
                      'the wavelengths are not restored by converting there and back around an in-place edit', desc, scale=float(np.max(wave)))
        except Exception as e:
            ctx.check(False, 'to:flux-roundtrip', f'to|edit-in-place|raises={type(e).__name__}', str(e), desc)
    # ---- binning in another wavelength unit == converting to that unit, then binning there (all value units, both power options) ----
    for i in range(max(10, n // 3)):
        npts = int(rng.integers(12, 40))
        u0, u1 = sm.WAVE_CANON[int(rng.integers(0, 4))], sm.WAVE_CANON[int(rng.integers(0, 4))]
        wave_nm = np.linspace(float(rng.uniform(300, 500)), float(rng.uniform(900, 1500)), npts)
        value = rng.uniform(0.1, 5, size=npts)
        vu = [None, 'photlam', None, 'wlam', 'flam'][i % 5]
        pp = bool(i % 2 == 0)
        cen_nm = np.linspace(wave_nm[2], wave_nm[-3], int(rng.integers(3, 8)))
        desc = {'bin-in-unit': [u0, u1], 'valueunit': vu, 'preserve_power': pp, 'n': npts}
        ctx.case(desc, ['spectrum.bin:unit'])
        try:
            a = R.Spectrum(wave_nm * sm.wave_factor('nm', u0), value.copy(), waveunit=u0, valueunit=vu)
            b = R.Spectrum(wave_nm * sm.wave_factor('nm', u0), value.copy(), waveunit=u0, valueunit=vu)
            b.to(u1)
            cen = cen_nm * sm.wave_factor('nm', u1)
            ba = np.asarray(a.bin(cen, interp_method='trapz', preserve_power=pp, waveunit=u1), float)
            bb = np.asarray(b.bin(cen, interp_method='trapz', preserve_power=pp, waveunit=u1), float)
            ctx.close('to:integral', ba, bb, 1e-9, 'bin|other-unit' + ('|density' if vu else '|unitless') + ('|power' if pp else ''),
                      'binning a spectrum in another wavelength unit differs from converting it to that unit and binning there', desc,
                      scale=float(np.max(np.abs(bb))) + 1e-300)
        except Exception as e:
            ctx.check(False, 'to:integral', f'bin-unit|raises={type(e).__name__}', str(e), desc)
    # ---- sampling / resampling a per-wavelength density in another wavelength unit == converting, then sampling -------------
    for i in range(n):
        npts = int(rng.integers(3, 20))
        u0, u1 = sm.WAVE_CANON[int(rng.integers(0, 4))], sm.WAVE_CANON[int(rng.integers(0, 4))]
        wave_nm = np.cumsum(rng.uniform(2, 30, size=npts)) + rng.uniform(200, 900)
        value = rng.uniform(0.1, 5, size=npts)
        vu = [None, 'photlam', 'flam', 'wlam'][int(rng.integers(0, 4))]
        desc = {'sample-in-unit': [u0, u1], 'valueunit': vu, 'n': npts}
        ctx.case(desc, ['spectrum.sample:unit'])
        s0 = R.Spectrum(wave_nm * sm.wave_factor('nm', u0), value.copy(), waveunit=u0, valueunit=vu)
        q_nm = np.sort(rng.uniform(wave_nm[0] + 1, wave_nm[-1] - 1, size=6))
        q = q_nm * sm.wave_factor('nm', u1)
        try:
            got = np.asarray(s0.sample(q, waveunit=u1), float)
            # reference: the density per unit u1 is the density per unit u0 divided by (u1 per u0)
            dens = value / sm.wave_factor(u0, u1) if vu is not None else value
            ref = sm.interp_linear(q_nm, wave_nm, dens, 0.0)
            ctx.close('to:integral', got, ref, 1e-9, 'sample|other-unit' + ('|density' if vu else ''),
                      'sampling a spectrum in another wavelength unit differs from converting it to that unit and sampling', desc,
                      scale=float(np.max(np.abs(ref))))
            s1 = R.Spectrum(wave_nm * sm.wave_factor('nm', u0), value.copy(), waveunit=u0, valueunit=vu)
            grid_nm = np.linspace(wave_nm[0], wave_nm[-1], 4 * npts)
            I0 = sm.integral_pl(wave_nm * sm.wave_factor('nm', u0), value, wave_nm[0] * sm.wave_factor('nm', u0), wave_nm[-1] * sm.wave_factor('nm', u0))
            s1.resample(grid_nm * sm.wave_factor('nm', u1), waveunit=u1)
            I1 = float(np.trapz(np.asarray(s1.value, float), np.asarray(s1.wave, float)))
            if vu is not None:
                ctx.close('to:integral', np.array([I1]), np.array([I0]), 0.25, 'resample|other-unit|integral',   # rough data on a new grid: interpolation accuracy only
                          'resampling a per-wavelength density into another wavelength unit does not preserve its integral', desc,
                          scale=abs(I0))
        except Exception as e:
            ctx.check(False, 'to:integral', f'sample-unit|raises={type(e).__name__}', str(e), desc)
    # ---- a Blackbody converted to other units still samples Planck's law in its *current* units -------------------------------
    for i in range(max(8, n // 3)):
        T = float(rng.uniform(2000, 12000))
        u0, u1 = sm.WAVE_CANON[int(rng.integers(0, 4))], sm.WAVE_CANON[int(rng.integers(0, 4))]
        v0, v1 = sm.FLUX[int(rng.integers(0, 3))], sm.FLUX[int(rng.integers(0, 3))]
        wave_nm = np.linspace(400, 2000, int(rng.integers(5, 30)))
        desc = {'blackbody-after-to': [u0, v0, u1, v1], 'T': T}
        ctx.case(desc, ['blackbody:converted'])
        try:
            bb = R.Blackbody(wave_nm * sm.wave_factor('nm', u0), T, waveunit=u0, valueunit=v0)
            order = [u1, v1] if i % 2 else [v1, u1]
            for u in order:
                bb.to(u)
            q_nm = np.array([450.0, 777.0, 1500.0])
            wm = q_nm * 1e-9
            ref_si = sm.planck_radiance_si(wm, T)
            stored = sm.flux_to_wlam_si(np.interp(q_nm, wave_nm, np.asarray(bb.value, float)) / sm.WAVE_M[u1], v1, wm)
            # the wavelength unit is the second parameter of Blackbody.sample: by keyword or by position
            got = np.asarray(bb.sample(q_nm * sm.wave_factor('nm', u1), waveunit=u1) if i % 2 else
                             bb.sample(q_nm * sm.wave_factor('nm', u1), u1), float)
            got_si = sm.flux_to_wlam_si(got / sm.WAVE_M[u1], v1, wm)
            ctx.close('planck=si', got_si / ref_si, np.ones(3), 1e-5, 'blackbody|sample-after-to',
                      'a Blackbody converted to other units no longer samples Planck\'s law in its current units', desc, scale=1.0)
        except Exception as e:
            ctx.check(False, 'planck=si', f'blackbody-to|raises={type(e).__name__}', str(e), desc)
    # ---- Planck ---------------------------------------------------------------------------------------
    ctx.check(abs(R.H / sm.H - 1) < 1e-6 and abs(R.C / sm.C - 1) < 1e-6 and abs(R.K / sm.KB - 1) < 2e-6, 'planck=formula', 'planck|constants',
              'the physical constants of the radiometry module differ from CODATA by more than 1e-6', {'H': R.H, 'C': R.C, 'K': R.K})
    nT = ctx.count(25, 200)
    for i in range(nT):
        T = float(np.exp(rng.uniform(np.log(50), np.log(50000))))
        peak = sm.WIEN_B / T
        wave_m = peak * np.exp(np.linspace(np.log(0.05), np.log(400), 6000))
        for wu in sm.WAVE_CANON:
            for vu in sm.FLUX:
                desc = {'planck': T, 'waveunit': wu, 'valueunit': vu}
                wave = wave_m / sm.WAVE_M[wu]
                sub = slice(None, None, 97)
                ctx.case(desc, ['planck:radiance', 'planck:exitance'])
                try:
                    L = R.planck_radiance(wave[sub], T, wu, vu)
                    M = R.planck_exitance(wave[sub], T, wu, vu)
                except Exception as e:
                    ctx.check(False, 'planck=si', f'planck|raises={type(e).__name__}', str(e), desc)
                    continue
                ref = sm.planck_radiance_si(wave_m[sub], T)
                # lentil value is per <wu>: per metre = value / (metres per wu)
                L_si = sm.flux_to_wlam_si(np.asarray(L, float) / sm.WAVE_M[wu], vu, wave_m[sub])
                ok = ref > ref.max() * 1e-200
                ctx.close('planck=si', (L_si / np.where(ok, ref, 1))[ok], np.ones(int(ok.sum())), 1e-5, f'planck|radiance|{wu}|{vu}',
                          'Planck radiance does not describe the same physical quantity in these units', desc, scale=1.0)
                if vu == 'wlam':
                    # the formula itself, with the module's own constants (whatever CODATA vintage they are), to rounding: the
                    # comparison above cannot resolve anything below the 1e-6 by which the vintages differ
                    LD = np.longdouble
                    h_, c_, k_ = LD(R.H), LD(R.C), LD(R.K)
                    wl_ = np.asarray(wave_m[sub], LD)
                    own = (2 * h_ * c_ ** 2 / wl_ ** 5 / np.expm1(h_ * c_ / (wl_ * k_ * LD(T)))).astype(float)
                    ctx.close('planck=formula', (L_si / np.where(ok, own, 1))[ok], np.ones(int(ok.sum())), 1e-11, f'planck|formula|{wu}',
                              "Planck radiance is not 2hc^2/lambda^5/(exp(hc/(lambda k T)) - 1) with the module's constants", desc, scale=1.0)
                nz = np.asarray(L, float) != 0
                ctx.close('exitance=pi*radiance', (np.asarray(M, float)[nz] / np.asarray(L, float)[nz]), np.full(int(nz.sum()), np.pi), 1e-12,
                          f'planck|exitance|{wu}|{vu}', 'exitance is not pi times radiance', desc, scale=np.pi)
        # the three flux forms of Planck's law agree with each other through lentil's own converters to rounding (one set of
        # constants everywhere), far tighter than the comparison with the CODATA reference above can resolve
        for wu in sm.WAVE_CANON:
            wave = (wave_m / sm.WAVE_M[wu])[::397]
            ctx.case({'planck-forms': T, 'waveunit': wu}, ['planck:forms'])
            try:
                forms = {}
                for vu in sm.FLUX:
                    sp = R.Spectrum(wave, np.asarray(R.planck_radiance(wave, T, wu, vu), float), waveunit=wu, valueunit=vu)
                    sp.to('wlam')
                    forms[vu] = np.asarray(sp.value, float)
                    bbv = R.Blackbody(wave, T, waveunit=wu, valueunit=vu)
                    bbv.to('wlam')
                    forms['bb:' + vu] = np.asarray(bbv.value, float) * np.pi / np.pi
                ok = forms['wlam'] > forms['wlam'].max() * 1e-250
                for vu in ('photlam', 'flam', 'bb:photlam', 'bb:flam', 'bb:wlam'):
                    ctx.close('planck:forms', (forms[vu] / np.where(ok, forms['wlam'], 1))[ok], np.ones(int(ok.sum())), 1e-10,
                              f'planck|forms|{vu}', 'Planck radiance requested in one flux unit and converted with lentil\'s own unit '
                              'conversion differs from Planck radiance requested in the other', {'T': T, 'waveunit': wu, 'form': vu}, scale=1.0)
            except Exception as e:
                ctx.check(False, 'planck:forms', f'planck-forms|raises={type(e).__name__}', str(e), {'T': T, 'waveunit': wu})
        # the TYPE in which wavelengths arrive does not matter (single precision arrays, integer arrays, plain lists), and
        # neither does the regime: in the Rayleigh-Jeans limit (lambda*T large) exp(x) - 1 has to be evaluated as expm1(x)
        try:
            wsel = (wave_m / sm.WAVE_M['nm'])[1000:4000:600]
            w_exact = np.round(wsel).astype(np.float64)                 # whole nanometres: exactly representable in every type
            base = np.asarray(R.planck_radiance(w_exact, T, 'nm', 'wlam'), float)
            forms = {'float32': w_exact.astype(np.float32), 'int64': w_exact.astype(np.int64), 'list': [float(x) for x in w_exact],
                     'tuple': tuple(float(x) for x in w_exact)}
            ctx.case({'planck-types': T}, ['planck:argument-types'])
            for nm_, wf in forms.items():
                if nm_ == 'float32' and float(w_exact.max()) >= 2 ** 24:
                    continue
                try:
                    gotf = np.asarray(R.planck_radiance(wf, T, 'nm', 'wlam'), float)
                    okp = base > base.max() * 1e-200
                    ctx.close('planck:forms', (gotf / np.where(okp, base, 1))[okp], np.ones(int(okp.sum())), 1e-10, f'planck|argument-type|{nm_}',
                              'Planck radiance depends on the type in which the wavelengths are handed over', {'T': T, 'type': nm_}, scale=1.0)
                except Exception as e:
                    ctx.check(False, 'planck:forms', f'planck|argument-type|{nm_}|raises={type(e).__name__}', str(e), {'T': T, 'type': nm_})
            # a vector of temperatures (a temperature sweep at one wavelength, or paired with a wavelength vector) in every type the
            # numbers may be held in - values exactly representable in half precision
            Tv = np.array([1000.0, 2048.0, 5504.0])
            for fn_, fnm in ((R.planck_radiance, 'radiance'), (R.planck_exitance, 'exitance')):
                for wl_arg, wnm in ((500.0, 'scalar-wavelength'), (np.array([450.0, 500.0, 700.0]), 'vector-wavelength')):
                    ref_t = np.asarray(fn_(wl_arg, Tv, 'nm', 'wlam'), float)
                    for tt in (np.float32, np.float16, np.int32, np.longdouble):
                        ctx.bucket('planck:temperature-vector-types')
                        try:
                            got_t = np.asarray(fn_(wl_arg, Tv.astype(tt), 'nm', 'wlam'), float)
                            ctx.close('planck:forms', got_t / ref_t, np.ones(3), 1e-10, f'planck|temperature-type|{wnm}',
                                      'Planck radiance / exitance depends on the type in which a vector of temperatures is handed over',
                                      {'type': np.dtype(tt).name, 'fn': fnm, 'wavelength': wnm, 'got': got_t.tolist(), 'ref': ref_t.tolist()}, scale=1.0)
                        except Exception as e:
                            ctx.check(False, 'planck:forms', f'planck|temperature-type|raises={type(e).__name__}', str(e), {'type': np.dtype(tt).name})
            # integer wavelengths in metres (long-wave regime)
            wm_int = np.array([1, 2, 5, 10, 40], dtype=np.int64)
            g_i = np.asarray(R.planck_radiance(wm_int, T, 'm', 'wlam'), float)
            g_f = np.asarray(R.planck_radiance(wm_int.astype(float), T, 'm', 'wlam'), float)
            ctx.close('planck:forms', g_i / g_f, np.ones(5), 1e-10, 'planck|argument-type|int64-metres',
                      'Planck radiance of integer-typed wavelengths in metres differs from the same wavelengths as floats', {'T': T}, scale=1.0)
            # Rayleigh-Jeans regime
            lam_rj = np.array([1.0, 100.0, 1e4]) * max(1.0, 1e6 / T)
            ref_rj = sm.planck_radiance_si(lam_rj, T)
            got_rj = np.asarray(R.planck_radiance(lam_rj, T, 'm', 'wlam'), float)
            ctx.case({'planck-rayleigh-jeans': T}, ['planck:rayleigh-jeans'])
            ctx.close('planck=si', got_rj / ref_rj, np.ones(3), 1e-5, 'planck|rayleigh-jeans',
                      'Planck radiance loses accuracy (or overflows) in the Rayleigh-Jeans regime', {'T': T, 'lambda_m': lam_rj}, scale=1.0)
        except Exception as e:
            ctx.check(False, 'planck:forms', f'planck|types|raises={type(e).__name__}', str(e), {'T': T})
        # Wien peak (energy and photon form) on the dense grid, SI units via nm/wlam and nm/photlam
        ctx.case({'wien': T}, ['wien'])
        wave_nm = wave_m / 1e-9
        Lw = np.asarray(R.planck_radiance(wave_nm, T, 'nm', 'wlam'), float)
        Lp = np.asarray(R.planck_radiance(wave_nm, T, 'nm', 'photlam'), float)
        step = np.exp(np.log(400 / 0.05) / 5999)
        for nm_, arr, b in (('energy', Lw, sm.WIEN_B), ('photon', Lp, sm.WIEN_B_PHOTON)):
            pk = wave_m[int(np.argmax(arr))]
            ctx.check(b / T / step ** 1.5 <= pk <= b / T * step ** 1.5, 'wien', f'wien|{nm_}',
                      "Planck curve does not peak where Wien's law says", {'T': T, 'peak': pk, 'wien': b / T})
        # Stefan-Boltzmann
        ctx.case({'stefan-boltzmann': T}, ['stefan-boltzmann'])
        wu = sm.WAVE_CANON[i % 4]
        Mw = np.asarray(R.planck_exitance(wave_m / sm.WAVE_M[wu], T, wu, 'wlam'), float)
        tot = float(np.trapz(Mw, wave_m / sm.WAVE_M[wu]))
        ctx.close('stefan-boltzmann', np.array([tot]), np.array([sm.SIGMA * T ** 4]), 1e-5, 'stefan-boltzmann',
                  'exitance does not integrate to sigma*T^4', {'T': T, 'unit': wu}, scale=sm.SIGMA * T ** 4)
    # ---- Vega zero points -------------------------------------------------------------------------------
    bands = ['U', 'B', 'V', 'R', 'I', 'J', 'H', 'K', 'W1', 'W2', 'W3', 'W4']
    # (band, central wavelength in nm, zero-point flux density in Jy) as tabulated in the documentation of vegaflux
    VEGA_DOC = {'U': (360, 1790), 'B': (438, 4036), 'V': (545, 3636), 'R': (641, 3064), 'I': (798, 2416), 'J': (1220, 1589), 'H': (1630, 1021),
                'K': (2190, 640), 'W1': (3353, 310), 'W2': (4603, 172), 'W3': (11561, 31.7), 'W4': (22088, 8.36)}
    for band in bands:
        ctx.case({'vega': band}, ['vega'])
        ref_f, ref_w = R.vegaflux(band, 'm', 'photlam')
        # the tabulated zero point itself: F_nu [Jy] -> photons s^-1 m^-2 m^-1 is F_nu * 1e-26 / (h * lambda)
        lam_doc, jy_doc = VEGA_DOC[band]
        want_ph = jy_doc * 1e-26 / (float(R.H) * lam_doc * 1e-9)
        ctx.close('vega', np.array([ref_f / want_ph, ref_w / (lam_doc * 1e-9)]), np.ones(2), 1e-12, 'vega|zero-point-table',
                  'vegaflux is not the documented zero point (Jy at the band wavelength) expressed in photons s^-1 m^-2 m^-1', {'band': band,
                  'got': [float(ref_f), float(ref_w)], 'want': [want_ph, lam_doc * 1e-9]}, scale=1.0)
        for wu in NAMES:
            for vu in sm.FLUX:
                try:
                    f, w = R.vegaflux(band, wu, vu)
                except Exception as e:
                    ctx.check(False, 'vega', f'vega|raises={type(e).__name__}', str(e), {'band': band, 'wu': wu, 'vu': vu})
                    continue
                wm = w * sm.WAVE_M[wu]
                si = sm.flux_to_wlam_si(f / sm.WAVE_M[wu], vu, wm)
                si0 = sm.flux_to_wlam_si(ref_f, 'photlam', ref_w)
                ctx.close('vega', np.array([si / si0, wm / ref_w]), np.ones(2), 1e-6, f'vega|{R.Unit(wu).name}|{vu}',
                          'Vega zero point differs between units', {'band': band, 'wu': wu, 'vu': vu}, scale=1.0)
        # Blackbody.vegamag hits the zero-point flux at the band wavelength (default photlam)
        wu = sm.WAVE_CANON[int(rng.integers(0, 4))]
        E0, w0 = R.vegaflux(band, wu)
        mag = float(rng.uniform(-2, 12))
        T = float(rng.uniform(2500, 12000))
        grid = np.array([w0 * 0.8, w0, w0 * 1.3])
        try:
            bb = R.Blackbody.vegamag(grid, T, mag, band, waveunit=wu)
            ctx.close('vega', np.array([bb.value[1]]), np.array([E0 * 10 ** (-0.4 * mag)]), 1e-10, 'vegamag|zero-point',
                      'Blackbody.vegamag does not hit the zero-point flux at the band wavelength', {'band': band, 'wu': wu, 'mag': mag},
                      scale=E0 * 10 ** (-0.4 * mag))
            # ... and away from it follows the Planck curve of its temperature (photon exitance ratio)
            gm = grid * sm.WAVE_M[wu]
            # (photon exitance ~ lambda^-4 / (exp(hc / lambda k T) - 1), with the module's own constants: a ratio of Planck
            # curves amplifies a 1e-7 difference in hc/k by hc / lambda k T)
            x_ = lambda lam_: np.asarray(float(R.H) * float(R.C) / (np.asarray(lam_, np.longdouble) * float(R.K) * T), np.longdouble)
            ph = lambda lam_: np.asarray(np.asarray(lam_, np.longdouble) ** -4 / np.expm1(x_(lam_)), float)
            ctx.close('vega', np.asarray(bb.value, float) / float(bb.value[1]), ph(gm) / ph(gm[1:2]), 1e-10, 'vegamag|shape',
                      'Blackbody.vegamag does not follow the Planck curve of its temperature away from the band wavelength',
                      {'band': band, 'wu': wu, 'T': T}, scale=1.0)
            # the conversions of the first clauses apply to every kind of spectrum object: a Vega-scaled blackbody (and a plain one)
            # converted to another flux unit is the same physical spectrum, through one step or two, and comes back on the way home
            plain = R.Blackbody(grid, T, waveunit=wu)
            for kind_, obj in (('vegamag', bb), ('blackbody', plain)):
                wm_ = np.asarray(obj.wave, float) * sm.WAVE_M[wu]
                hcm = float(R.H) * float(R.C)        # (the photon energy with the module's own constants: to rounding)
                si_ref = sm.flux_to_wlam_si(np.asarray(obj.value, float) / sm.WAVE_M[wu], 'photlam', wm_, hc=hcm)
                v_ref = np.asarray(obj.value, float).copy()
                for v1 in ('wlam', 'flam'):
                    v2 = 'flam' if v1 == 'wlam' else 'wlam'
                    o1 = obj.copy()
                    o1.to(v1)
                    si1 = sm.flux_to_wlam_si(np.asarray(o1.value, float) / sm.WAVE_M[wu], v1, wm_, hc=hcm)
                    o1.to(v2)
                    si2 = sm.flux_to_wlam_si(np.asarray(o1.value, float) / sm.WAVE_M[wu], v2, wm_, hc=hcm)
                    o1.to('photlam')
                    ctx.bucket('spectrum.to:blackbody-objects')
                    ctx.close('to:flux-roundtrip', np.r_[si1 / si_ref, si2 / si_ref, np.asarray(o1.value, float) / v_ref], np.ones(9), 1e-12,
                              f'to|{kind_}-object|flux',
                              'a blackbody object converted to another flux unit (one step, two steps, and back) is no longer the same physical spectrum',
                              {'band': band, 'wu': wu, 'via': [v1, v2], 'kind': kind_}, scale=1.0)
        except Exception as e:
            ctx.check(False, 'vega', f'vegamag|raises={type(e).__name__}', str(e), {'band': band, 'wu': wu})
