"""C01 — matrix-triple-product DFT equals the defining Fourier sum and is invertible.

Online oracle on every lentil.fourier.dft2 / idft2 call (whoever makes it):
recompute the defining double sum in extended precision.  Relational driver:
full-period round trip and Parseval under both normalisation flags; out= buffer.
"""
import numpy as np

from vp import gen
from vp import defaults
from vp import reuse
from vp import forms as argforms
from vp import corners
from vp.gen import layout as gen_layout

from vp import probe, refmodels as rm

RULE = ('seeded generator over input shape (1x1..24x24 quick / ..64 thorough; even, odd, non-square), '
        'complex data, independent alpha_row/alpha_col of either sign, unrelated output shapes, real shifts '
        'together with integer offsets, both unitary flags, with/without out=, scalar and pair parameter '
        'forms; plus full-period round trips.  A case is non-trivial when the input has >1 sample; distinct '
        '= distinct (shapes, alpha, shift, offset, flags, data hash) descriptors.')
ASSUMPTIONS = ['numpy longdouble (80-bit) arithmetic is the reference for the defining sum',
               'phase arguments bounded (|2 pi alpha x u| < 1e4 rad)']
PLAN = {'quick': {'gen': 8}, 'thorough': {'gen': 16, 'tests': 1, 'docs': 1}}
REQUIRED_BUCKETS = ['defaults', 'corners', 'reuse', 'forms', 'shift:nearby', 'out:view', 'out:extended-precision-input', 'out:unaligned', 'alpha:narrow-float', 'alpha:extreme', 'in:1x1', 'in:even', 'in:odd', 'in:nonsquare', 'alpha:iso', 'alpha:aniso',
                    'shift0', 'shift+offset', 'unitary:True', 'unitary:False', 'out:given', 'out:none',
                    'inverse:unitary', 'inverse:nonunitary', 'inverse:general', 'cache:evict', 'sweep', 'out:aliased-tall',
                    'refused-then-reused']
REQUIRED_ANCHORS = ['anchor:_dft2_coords', 'anchor:_dft2_matrices', 'probe:dft2', 'probe:idft2']
REQUIRED_ORACLES = ['dft2=sum', 'idft2=sum', 'roundtrip', 'parseval', 'out=same']


def anchors(lentil):
    f = lentil.fourier
    return [('_dft2_coords', f._dft2_coords), ('_dft2_matrices', f._dft2_matrices),
            ('dft2', f.dft2), ('idft2', f.idft2)]


def _bind_dft2(args, kwargs):
    names = ['f', 'alpha', 'shape', 'shift', 'offset', 'unitary', 'out']
    d = {'shape': None, 'shift': (0, 0), 'offset': (0, 0), 'unitary': True, 'out': None}
    d.update(dict(zip(names, args)))
    d.update(kwargs)
    return d


def _bind_idft2(args, kwargs):
    names = ['F', 'alpha', 'shape', 'shift', 'unitary', 'out']
    d = {'shape': None, 'shift': (0, 0), 'unitary': True, 'out': None}
    d.update(dict(zip(names, args)))
    d.update(kwargs)
    return d


def _pick_points(ctx, M, N, limit):
    if M * N <= limit:
        return None
    k = 48
    # deterministic per call: corners, centre, plus pseudo-random points from the shapes
    r = np.random.default_rng([M, N, 12345])
    rows = np.concatenate([[0, M - 1, M // 2, 0, M - 1], r.integers(0, M, k)])
    cols = np.concatenate([[0, N - 1, N // 2, N - 1, 0], r.integers(0, N, k)])
    return rows, cols


def dft2_before(ctx, args, kwargs):
    # the caller may pass its input as the output buffer (the repository's own test does): keep the input
    a = _bind_dft2(args, kwargs)
    if a['out'] is not None and isinstance(a['f'], np.ndarray) and np.shares_memory(a['out'], a['f']):
        return np.array(a['f'], copy=True)
    return None


def dft2_oracle(ctx, args, kwargs, result, exc, pre):
    a = _bind_dft2(args, kwargs)
    try:
        f = np.asarray(a['f']) if pre is None else pre
        ar, ac = (float(x) for x in np.broadcast_to(a['alpha'], (2,)))
        shape = f.shape if a['shape'] is None else tuple(int(x) for x in np.broadcast_to(a['shape'], (2,)))
        shift = tuple(float(x) for x in np.broadcast_to(a['shift'], (2,)))
        offset = tuple(float(x) for x in np.broadcast_to(a['offset'], (2,)))
    except Exception:
        ctx.skip('dft2: arguments outside the domain')
        return
    if f.ndim != 2 or f.size == 0:
        ctx.skip('dft2: non 2-D input')
        return
    wit = {'in_shape': list(f.shape), 'alpha': [ar, ac], 'shape': list(shape), 'shift': list(shift),
           'offset': list(offset), 'unitary': bool(a['unitary']), 'out': a['out'] is not None}
    if exc is not None and a['out'] is not None and (np.shape(a['out']) != tuple(shape) or not np.iscomplexobj(a['out'])):
        ctx.skip('dft2: malformed out buffer refused')
        return
    if exc is not None:
        ctx.check(False, 'dft2=sum', f'dft2|raises={type(exc).__name__}',
                  f'dft2 raised {type(exc).__name__}: {exc}', wit)
        return
    if any(abs(o - round(o)) > 0 for o in offset):
        ctx.skip('dft2: non-integer offset')
        return
    limit = 4096 if f.size <= 4096 else 0
    pts = _pick_points(ctx, shape[0], shape[1], limit)
    ref, maxphase = rm.dft_sum(f, ar, ac, shape, shift, offset, bool(a['unitary']), points=pts)
    if maxphase > 1e4:
        ctx.skip('dft2: phase beyond 1e4 rad')
        return
    tol = rm.dft_tol(f, ar, ac, maxphase, bool(a['unitary']))
    got = np.asarray(result)
    if got.shape != tuple(shape):
        ctx.check(False, 'dft2=sum', 'dft2|shape', f'dft2 output shape {got.shape} != {shape}', wit)
        return
    g = got if pts is None else got[pts[0], pts[1]]
    ctx.close('dft2=sum', g, ref, 1.0, 'dft2|value', 'dft2 differs from the defining Fourier sum',
              wit, scale=tol)
    if a['out'] is not None:
        ctx.check(result is a['out'], 'out=same', 'dft2|out-identity',
                  'dft2(out=buf) did not return the supplied buffer', wit)


def idft2_oracle(ctx, args, kwargs, result, exc, pre):
    a = _bind_idft2(args, kwargs)
    try:
        F = np.asarray(a['F']) if pre is None else pre
        ar, ac = (float(x) for x in np.broadcast_to(a['alpha'], (2,)))
        shape = F.shape if a['shape'] is None else tuple(int(x) for x in np.broadcast_to(a['shape'], (2,)))
        shift = tuple(float(x) for x in np.broadcast_to(a['shift'], (2,)))
    except Exception:
        ctx.skip('idft2: arguments outside the domain')
        return
    if F.ndim != 2 or F.size == 0:
        return
    unitary = bool(a['unitary'])
    wit = {'in_shape': list(F.shape), 'alpha': [ar, ac], 'shape': list(shape), 'shift': list(shift),
           'unitary': unitary}
    if exc is not None and a['out'] is not None and (np.shape(a['out']) != tuple(shape) or not np.iscomplexobj(a['out'])):
        ctx.skip('idft2: malformed out buffer refused')
        return
    if exc is not None:
        ctx.check(False, 'idft2=sum', f'idft2|raises={type(exc).__name__}',
                  f'idft2 raised {type(exc).__name__}: {exc}', wit)
        return
    full = (tuple(shape) == F.shape and abs(ar * F.shape[0] - 1) < 1e-12 and abs(ac * F.shape[1] - 1) < 1e-12)
    if not unitary and not full:
        # 1/N scaling of a partial-period, non-unitary inverse is not pinned by the property
        ctx.skip('idft2: non-unitary partial period (scaling not pinned by the property)')
        return
    limit = 4096 if F.size <= 4096 else 0
    pts = _pick_points(ctx, shape[0], shape[1], limit)
    ref, maxphase = rm.dft_sum(F, ar, ac, shape, shift, (0, 0), unitary, sign=+1, points=pts)
    if not unitary:
        ref = ref / rm.LD(F.size)
    if maxphase > 1e4:
        return
    tol = rm.dft_tol(F, ar, ac, maxphase, unitary) / (1 if unitary else F.size)
    got = np.asarray(result)
    g = got if pts is None else got[pts[0], pts[1]]
    key = 'idft2|unitary' if unitary else 'idft2|nonunitary'
    ctx.close('idft2=sum', g, ref, 1.0, key + '|value',
              'idft2 differs from the inverse Fourier sum with the normalisation the flag selects',
              wit, scale=tol)


def idft2_before(ctx, args, kwargs):
    a = _bind_idft2(args, kwargs)
    if a['out'] is not None and isinstance(a['F'], np.ndarray) and np.shares_memory(a['out'], a['F']):
        return np.array(a['F'], copy=True)
    return None


dft2_oracle.before = dft2_before
idft2_oracle.before = idft2_before


def install(ctx, lentil):
    probe.wrap_function(lentil.fourier.dft2, dft2_oracle, ctx, 'dft2')
    probe.wrap_function(lentil.fourier.idft2, idft2_oracle, ctx, 'idft2')


def _rand_complex(rng, shape):
    kind = rng.integers(0, 4)
    if kind == 0:
        return rng.normal(size=shape) + 1j * rng.normal(size=shape)
    if kind == 1:
        return rng.normal(size=shape) * (rng.random(shape) < 0.5) + 0j
    if kind == 2:
        a = np.zeros(shape, complex)
        a[rng.integers(0, shape[0]), rng.integers(0, shape[1])] = 1 + 0.5j
        return a
    return np.exp(2j * np.pi * rng.random(shape)) * rng.random(shape)


def _shape(rng, hi):
    k = rng.integers(0, 6)
    if k == 0:
        return (1, 1)
    if k == 1:
        n = 2 * int(rng.integers(1, hi // 2 + 1))
        return (n, n)
    if k == 2:
        n = 2 * int(rng.integers(0, (hi - 1) // 2 + 1)) + 1
        return (n, n)
    return (int(rng.integers(1, hi + 1)), int(rng.integers(1, hi + 1)))


def workload(ctx, lentil):
    defaults.run(ctx, lentil, 'C01', 'dft2=sum')
    reuse.run(ctx, lentil, 'C01', 'dft2=sum')
    argforms.run(ctx, lentil, 'C01', 'dft2=sum')
    corners.run(ctx, lentil, 'C01', 'dft2=sum')
    rng = ctx.rng
    dft2, idft2 = lentil.fourier.dft2, lentil.fourier.idft2
    hi = 24 if ctx.tier == 'quick' else 64
    ncases = ctx.count(260, 1500)
    coords_fn = lentil.fourier._dft2_coords
    seen_keys = set()
    recent = []
    for i in range(ncases):
        if recent and rng.random() < 0.25:
            # reuse an earlier shape key in scrambled order (cache reuse)
            m, n, M, N = recent[int(rng.integers(0, len(recent)))]
            ctx.bucket('cache:reuse')
        else:
            m, n = _shape(rng, hi)
            if rng.random() < 0.3:
                M, N = m, n
            else:
                M, N = _shape(rng, hi)
            recent.append((m, n, M, N))
            recent = recent[-80:]
        seen_keys.add((m, n, M, N))
        f = _rand_complex(rng, (m, n))
        r_ = rng.random()
        if r_ < 0.15:
            f = f.real.copy()
        elif r_ < 0.22:
            f = np.round(f.real * 10).astype(np.int64)          # integer / boolean / single-precision inputs are arrays too
        elif r_ < 0.27:
            f = f.astype(np.complex64)
        elif r_ < 0.3:
            f = f.real > 0
        iso = rng.random() < 0.35
        def _alpha(size):
            k = rng.integers(0, 5)
            if k == 0:
                return 1.0 / size
            if k == 4:
                # a few parts per million away from critical sampling: still an ordinary alpha
                return (1.0 / size) * (1 + float(rng.choice([-1, 1])) * 10 ** float(rng.uniform(-9, -4)))
            a = float(np.exp(rng.uniform(np.log(0.002), np.log(0.6))))
            return a if rng.random() < 0.75 else -a
        ar = _alpha(M)
        ac = ar if iso else _alpha(N)
        if not iso and ac == ar:
            ac = ar * 0.77
        narrow = None
        if rng.random() < 0.12:
            # the sampling interval held in a narrower float type (e.g. derived from single-precision data): the same number
            narrow = [np.float32, np.float16][int(rng.integers(0, 2))]
            ar, ac = float(narrow(ar)), float(narrow(ac))
            ctx.bucket('alpha:narrow-float')
        zero_shift = rng.random() < 0.3
        if zero_shift:
            shift, offset = (0, 0), (0, 0)
        else:
            shift = (float(rng.uniform(-6, 6)), float(rng.uniform(-6, 6)))
            offset = (int(rng.integers(-9, 10)), int(rng.integers(-9, 10)))
            if offset == (0, 0):
                offset = (3, -2)
        unitary = bool(rng.random() < 0.5)
        if rng.random() < 0.2:
            # any truthy / falsy flag selects the normalisation (numpy booleans, 0/1), not only the True/False singletons
            unitary = [np.bool_(unitary), np.True_ if unitary else np.False_, int(unitary)][int(rng.integers(0, 3))]
        use_out = bool(rng.random() < 0.4)
        form = int(rng.integers(0, 3))
        desc = {'in': [m, n], 'out': [M, N], 'alpha': [ar, ac], 'shift': list(shift), 'offset': list(offset),
                'unitary': bool(unitary), 'flag_type': type(unitary).__name__, 'use_out': use_out, 'form': form,
                'data': probe.fp_array(f)[:12]}
        bks = ['in:1x1' if (m, n) == (1, 1) else ('in:nonsquare' if m != n else ('in:even' if m % 2 == 0 else 'in:odd')),
               'alpha:iso' if iso else 'alpha:aniso',
               'shift0' if zero_shift else 'shift+offset',
               f'unitary:{bool(unitary)}', 'out:given' if use_out else 'out:none']
        ctx.case(desc, bks, nontrivial=f.size > 1)
        alpha_arg = ar if (iso and form == 0) else ([ar, ac] if form == 1 else np.array([ar, ac]))
        if narrow is not None:
            alpha_arg = narrow(ar) if (iso and form == 0) else ([narrow(ar), narrow(ac)] if form == 1 else np.array([ar, ac], dtype=narrow))
        shape_arg = (M, N) if not (M == N and form == 0) else M
        if (M, N) == (m, n) and form == 2:
            shape_arg = None
        kwargs = dict(shape=shape_arg, shift=shift, offset=list(offset) if form == 1 else offset,
                      unitary=unitary)
        f = gen_layout(rng, f)                            # same values, any memory layout (F order, strided views)
        fresh = dft2(f, alpha_arg, **kwargs)             # probe checks against the sum
        if i % 6 == 0:
            # the same call with every argument passed by position (the documented order)
            pos = dft2(f, alpha_arg, kwargs['shape'], kwargs['shift'], kwargs['offset'], kwargs['unitary'])
            ctx.check(np.array_equal(pos, fresh), 'out=same', 'dft2|positional', 'dft2 called positionally differs from the keyword call', desc)
        if use_out:
            buf = (rng.normal(size=(M, N)) + 1j * rng.normal(size=(M, N))).astype(complex)
            big = None
            if i % 3 == 1:
                # the buffer is a tile of a larger image, or a Fortran-ordered array: right shape, right dtype
                if i % 2:
                    big = np.full((M + 5, N + 4), 7 - 3j)
                    buf = big[2:2 + M, 3:3 + N]
                else:
                    buf = np.asfortranarray(buf)
                ctx.bucket('out:view')
            f_out = f
            if i % 3 == 2 and big is None:
                if i % 2:
                    # the plain documented buffer (C-contiguous complex128) for an input held in extended precision
                    f_out = np.asarray(f).astype(np.clongdouble)
                    ctx.bucket('out:extended-precision-input')
                else:
                    # a buffer that is contiguous but not aligned (a memory-mapped file with a header, a field of a record array)
                    raw = np.zeros(M * N * 16 + 1, dtype=np.uint8)
                    buf = raw[1:].view(complex).reshape(M, N)
                    ctx.bucket('out:unaligned')
            try:
                res = dft2(f_out, alpha_arg, out=buf, **kwargs)
            except ValueError:
                continue                                  # the probe has recorded the refusal
            if f_out is not f:
                # (an extended-precision product rounded into a complex128 buffer: the same values to double rounding)
                # (yardstick: the rounding of a double-precision evaluation of the sum, not the size of a result that may have cancelled)
                same_vals = bool(np.allclose(buf, fresh, rtol=0, atol=rm.dft_tol(np.asarray(f), ar, ac, 0.0, bool(unitary))))
            else:
                same_vals = np.array_equal(buf, fresh)
            ctx.check(res is buf and same_vals, 'out=same', 'dft2|out-values',
                      'dft2 with out= differs from a fresh allocation', desc)
            if big is not None:
                big[2:2 + M, 3:3 + N] = 7 - 3j
                ctx.check(bool(np.all(big == 7 - 3j)), 'out=same', 'dft2|out-view-spill', 'dft2 with out= wrote outside the supplied tile', desc)
        # integrity of the shared coordinate cache after the call (invariant at a hook)
        with probe.quiet():
            R, S, U, V = coords_fn(m, n, M, N)
        ok = (np.array_equal(R, np.arange(m) - m // 2) and np.array_equal(S, np.arange(n) - n // 2)
              and np.array_equal(U, np.arange(M) - M // 2) and np.array_equal(V, np.arange(N) - N // 2))
        ctx.check(ok, 'cache-intact', 'dft2|coords-cache',
                  'cached DFT coordinate vectors differ from arange(n)-floor(n/2)', desc)
    if len(seen_keys) > 32:
        ctx.bucket('cache:evict')

    # consecutive transforms that differ only by a shift of less than a millionth of a sample (finite differences of a centroid):
    # each is its own defining sum
    for i in range(ctx.count(8, 50)):
        m, n = gen.rshape(rng, 2, 12)
        M, N = gen.rshape(rng, 2, 12)
        f = rng.normal(size=(m, n)) + 1j * rng.normal(size=(m, n))
        al = (float(rng.uniform(0.05, 0.3)), float(rng.uniform(0.05, 0.3)))
        s1 = (float(rng.uniform(-3, 3)), float(rng.uniform(-3, 3)))
        ctx.case({'nearby-shifts': [m, n, M, N], 'alpha': list(al), 'shift': list(s1)}, ['shift:nearby'])
        for k in range(3):
            d = float(10 ** rng.uniform(-9, -6.4)) * k
            dft2(f, al, shape=(M, N), shift=(s1[0] + d, s1[1] - d), offset=(1, -2))     # probe checks against the sum

    # sampling intervals whose product leaves the float64 range although the normalisation sqrt|ar*ac| itself does not
    for i in range(ctx.count(6, 40)):
        m, n = gen.rshape(rng, 1, 6)
        f = rng.normal(size=(m, n)) + 1j * rng.normal(size=(m, n))
        k = i % 3
        if k == 0:
            a = float(10 ** -rng.uniform(155, 250))
            alpha_arg, shp = (a if i % 2 else [a, a * 0.5]), (int(rng.integers(1, 6)), int(rng.integers(1, 6)))
        elif k == 1:
            a = float(10 ** rng.uniform(100, 150))
            alpha_arg, shp = [a, 1.0 / a * float(rng.uniform(0.01, 0.3)) / max(m, n)], (1, int(rng.integers(1, 6)))
            f = f[:1]
        else:
            a = float(10 ** rng.uniform(155, 250))
            alpha_arg, shp, f = a, (1, 1), f[:1, :1]
        ctx.case({'extreme-alpha': alpha_arg, 'in': list(f.shape), 'out': list(shp)}, ['alpha:extreme'])
        with np.errstate(all='ignore'):
            dft2(f, alpha_arg, shape=shp)                # probe checks against the sum

    # inverse transforms away from the full-period case (general alpha, unrelated shapes, shifts): the online oracle
    # decides the unitary ones (same normalisation as the forward transform); non-unitary partial periods are skipped there
    for i in range(ctx.count(60, 300)):
        m, n = _shape(rng, hi)
        M, N = (m, n) if rng.random() < 0.3 else _shape(rng, hi)
        F = _rand_complex(rng, (m, n))
        ar = float(np.exp(rng.uniform(np.log(0.002), np.log(0.6)))) * (1 if rng.random() < 0.8 else -1)
        ac = ar if rng.random() < 0.4 else float(np.exp(rng.uniform(np.log(0.002), np.log(0.6))))
        shift = (0, 0) if rng.random() < 0.4 else (float(rng.uniform(-4, 4)), float(rng.uniform(-4, 4)))
        unitary = bool(rng.random() < 0.7)
        ctx.case({'idft2': [m, n], 'out': [M, N], 'alpha': [ar, ac], 'shift': list(shift), 'unitary': unitary,
                  'data': probe.fp_array(F)[:12]}, ['inverse:general'], nontrivial=F.size > 1)
        kw = {} if rng.random() < 0.5 else {'out': np.zeros((M, N), complex)}
        try:
            aarg = (ar, ac) if ar != ac else ar
            r_kw = idft2(F, aarg, shape=(M, N), shift=shift, unitary=unitary, **kw)
            # documented positional order: idft2(F, alpha, shape, shift, unitary, out)
            r_pos = idft2(F, aarg, (M, N), shift, unitary)
            ctx.check(np.array_equal(r_pos, r_kw), 'out=same', 'idft2|positional', 'idft2 called positionally differs from the keyword call',
                      {'unitary': unitary})
            buf = np.full((M, N), 3 + 1j)
            if i % 3 == 2:
                buf = np.full((M + 2, N + 3), 3 + 1j)[1:1 + M, 2:2 + N] if i % 2 else np.asfortranarray(buf)
                ctx.bucket('out:view')
            r_buf = idft2(F, aarg, (M, N), shift, unitary, buf)
            ctx.check(r_buf is buf and np.array_equal(buf, r_kw), 'out=same', 'idft2|positional-out',
                      'idft2 with a positional out buffer does not fill it with the values a fresh allocation returns', {'unitary': unitary})
        except Exception as e:
            ctx.check(False, 'idft2=sum', f'idft2-driver|raises={type(e).__name__}', str(e), {'shape': [M, N]})

    # full-period round trips and Parseval, both flags
    nrt = ctx.count(60, 300)
    for i in range(nrt):
        m, n = _shape(rng, hi)
        f = _rand_complex(rng, (m, n))
        unitary = bool(i % 2)
        alpha = (1.0 / m, 1.0 / n)
        desc = {'roundtrip': [m, n], 'unitary': unitary, 'data': probe.fp_array(f)[:12]}
        ctx.case(desc, ['inverse:unitary' if unitary else 'inverse:nonunitary'], nontrivial=f.size > 1)
        F = dft2(f, alpha, unitary=unitary)
        g = idft2(F, alpha, unitary=unitary)
        if i % 3 == 0:
            # inverse into a caller-supplied buffer: same values as a fresh allocation, in the buffer itself
            buf = (rng.normal(size=(m, n)) + 1j * rng.normal(size=(m, n))).astype(complex)
            gb = idft2(F, alpha, unitary=unitary, out=buf)
            ctx.check(gb is buf and np.array_equal(buf, g), 'out=same', f'idft2|out-values|unitary={unitary}',
                      'idft2 with out= leaves other values in the buffer than a fresh allocation returns', desc)
        scale = max(float(np.max(np.abs(f))), 1e-300)
        ctx.close('roundtrip', g, f, 1e-11, f'roundtrip|unitary={unitary}',
                  'idft2(dft2(f)) with alpha=1/n, equal shapes and the same flag does not recover f',
                  desc, scale=scale * max(1.0, np.sqrt(m * n)))
        if unitary:
            e_in = float(np.sum(np.abs(f) ** 2))
            e_F = float(np.sum(np.abs(F) ** 2))
            e_g = float(np.sum(np.abs(g) ** 2))
            ctx.close('parseval', np.array([e_F, e_g]), np.array([e_in, e_in]), 1e-11,
                      'parseval|unitary', 'unitary forward/inverse transform does not conserve energy',
                      desc, scale=max(e_in, 1e-300))
        else:
            ctx.oracle_evals['parseval'] += 0

    # ---- sweeps over one argument with everything else fixed (integer offsets / whole-pixel shifts of either sign): every
    # call is checked online, so a result carried over from a neighbouring geometry shows
    for i in range(ctx.count(6, 40)):
        m, n = _shape(rng, 10)
        M, N = _shape(rng, 10)
        f = _rand_complex(rng, (m, n))
        ar, ac = float(rng.uniform(0.02, 0.3)), float(rng.uniform(0.02, 0.3))
        c = int(rng.integers(-3, 4))
        ctx.case({'sweep': [m, n, M, N], 'alpha': [ar, ac], 'fixed': c}, ['sweep'])
        which = i % 4
        for o in ([-1, -2, -3, 0, 1, 2, 3, -2, -1] if i % 2 else range(-3, 4)):
            if which == 0:
                dft2(f, (ar, ac), shape=(M, N), offset=(o, c))
            elif which == 1:
                dft2(f, (ar, ac), shape=(M, N), offset=(c, o), shift=(0.5, -1.0))
            elif which == 2:
                dft2(f, (ar, ac), shape=(M, N), shift=(float(o), float(c)))
            else:
                idft2(f, (ar, ac), shape=(M, N), shift=(float(c), float(o)))

    # ---- tall outputs (several hundred rows) whose buffer overlaps the input through another view object
    for i in range(ctx.count(3, 12)):
        M = int(rng.integers(257, 340))
        N = int(rng.integers(1, 4))
        kind = i % 3
        if kind == 0:                       # out is another view of the whole input
            base = _rand_complex(rng, (M, N))
            f, out = base, base[:]
        elif kind == 1:                     # one plane of a cube, transformed in place
            cube = np.stack([_rand_complex(rng, (M, N)) for _ in range(2)])
            f, out = cube[1], cube[1]
        else:                               # partially overlapping windows of one buffer
            m = int(rng.integers(200, M))
            buf = _rand_complex(rng, (M + 40, N))
            f, out = buf[:m], buf[20:20 + M]
        ar, ac = 1.0 / M * float(rng.uniform(0.5, 1.0)), float(rng.uniform(0.05, 0.5))
        ctx.case({'tall-aliased': [int(x) for x in f.shape], 'out': [M, N], 'kind': kind}, ['out:aliased-tall'])
        fresh = dft2(np.array(f, copy=True), (ar, ac), shape=(M, N))
        try:
            res = dft2(f, (ar, ac), shape=(M, N), out=out)
            ctx.close('out=same', res, fresh, 1e-12, 'dft2|out-aliased|tall',
                      'dft2 into a buffer that overlaps the input differs from a fresh allocation', {'shape': [M, N], 'kind': kind},
                      scale=max(float(np.max(np.abs(fresh))), 1e-300))
        except Exception as e:
            ctx.skip(f'aliased out refused ({type(e).__name__})')

    # ---- a refused call (its exception caught by the caller) leaves the input as it was; the next legal call is right
    for i in range(ctx.count(8, 40)):
        m, n = _shape(rng, 8)
        F = _rand_complex(rng, (m, n))
        fp = probe.fp_array(F)
        alpha = (1.0 / m, 1.0 / n)
        ctx.case({'refused-then-reused': [m, n], 'which': i % 4}, ['refused-then-reused'])
        fn = idft2 if i % 2 else dft2
        bad = [dict(out=np.zeros((m + 1, n + 2), complex)), dict(out=np.zeros((m, n))), dict(shape=(2, 3, 4)),
               dict(out=np.zeros((m + 1, n), complex))][i % 4]
        try:
            fn(F, alpha, **bad)
            ctx.skip('call expected to be refused was accepted')
        except Exception:
            pass
        ctx.check(probe.fp_array(F) == fp, 'out=same', f'{fn.__name__}|refused-call-modified-input',
                  'a refused transform left its input array modified', {'shape': [m, n], 'bad': sorted(bad)})
        g = fn(F, alpha)                    # online oracle: still the transform of F
        ctx.check(probe.fp_array(F) == fp, 'out=same', f'{fn.__name__}|input-modified', 'a transform modified its input array',
                  {'shape': [m, n]})
