"""C08 — plane-type state machine follows the documented table.

The automaton is parsed at run time from the documentation of the tree under test
(docs/user/fundamentals/wavefront.rst multiplication table, planes.rst class table,
diffraction.rst propagation table).  Programs (all sequences up to a length bound over
the 8 public plane classes and the two propagators, from each of the three start types,
plus random longer ones) are executed on the real objects; every step is logged as
(ptype before, symbol, ptype after | exception type) and the log is replayed offline
through the automaton.  Refused steps must leave both operands byte-identical.
"""
import copy
import itertools
import os
import pickle
import re
import warnings

import numpy as np

from vp import core, probe
from vp import defaults
from vp import reuse
from vp import forms as argforms
from vp import corners

RULE = ('complete enumeration of all programs of length <= 3 (quick) / <= 4 (thorough) over {Plane, Pupil, Image, Tilt, '
        'DispersiveTilt, Grism, Rotate, Flip, bare Plane(ptype=t) for the 5 plane types, propagate_dft, propagate_fft} from each of the start types none/pupil/image, '
        'plus seeded random programs of length 5..10; a program is non-trivial when it has at least one step; distinct = '
        'distinct (start, symbol sequence).')
ASSUMPTIONS = ['the documentation tables of the tree under test are the specification',
               'propagate_fft refusing tilt-carrying wavefronts (NotImplementedError) is C09\'s rule, not a table entry']
EXHAUSTIVE = True
PLAN = {'quick': {'gen': 8}, 'thorough': {'gen': 16, 'tests': 1}}
REQUIRED_BUCKETS = ['defaults', 'corners', 'reuse', 'forms', 'sampling:decimal-ratio', 'sampling:decimal-ratio:one-ulp-off', 'propagate:field-less', 'other-process', 'form:shared-plane-object', 'form:scalar+sampling', 'form:other-focal', 'form:no-focal', 'form:reassigned', 'typed-tilt-class', 'start:none+focal', 'form:mismatch', 'copy-step', 'form:scalar', 'form:disjoint', 'start:none', 'start:pupil', 'start:image', 'len:1', 'len:2', 'len:3', 'random-long',
                    'cell:allowed', 'cell:refused', 'propagate:allowed', 'propagate:refused']
REQUIRED_ANCHORS = ['anchor:_can_mul_ptype', 'anchor:_mul_result_ptype', 'anchor:_propagate_ptype', 'anchor:Image.multiply',
                    'anchor:PType.__eq__']
REQUIRED_ORACLES = ['trace=automaton', 'refused=unchanged', 'class-ptype', 'docs-parsed']

PLANES = ['Plane', 'Pupil', 'Image', 'Tilt', 'DispersiveTilt', 'Grism', 'Rotate', 'Flip']
# a bare Plane constructed with each of the five plane types ("every plane type" of the quantifier; the only
# way to reach the transform row, whose two public classes cannot be applied at all)
GENERIC = ['ptype:none', 'ptype:pupil', 'ptype:image', 'ptype:tilt', 'ptype:transform']
PROPS = ['propagate_dft', 'propagate_fft']
SYMBOLS = PLANES + GENERIC + PROPS
# copying a wavefront (deep copy, pickle round trip) is the identity on its plane type
COPIES = ['deepcopy', 'pickle']
_SHARED = {}      # tilt-like plane instances shared by every program of a shard (a plane must not remember its callers)


def anchors(lentil):
    P = lentil.plane
    return [('_can_mul_ptype', P._can_mul_ptype), ('_mul_result_ptype', P._mul_result_ptype),
            ('_propagate_ptype', lentil.propagate._propagate_ptype), ('Image.multiply', P.Image.multiply),
            ('Pupil.multiply', P.Pupil.multiply), ('TiltInterface.multiply', P.TiltInterface.multiply),
            ('PType.__eq__', __import__('sys').modules['lentil.ptype'].PType.__eq__)]


# ---------------------------------------------------------------------------
# specification parsed from the documentation

def parse_docs():
    base = os.path.join(core.repo_dir(), 'docs', 'user', 'fundamentals')
    wf = open(os.path.join(base, 'wavefront.rst')).read()
    sect = wf[wf.index('Multiplication rules'):]
    rows = [l for l in sect.splitlines() if l.startswith('|')]
    header = None
    table = {}
    for l in rows:
        cells = [c.strip().strip('`') for c in l.strip().strip('|').split('|')]
        names = [c for c in cells]
        if header is None and sum(c in ('none', 'pupil', 'image') for c in names) == 3:
            header = [c for c in names if c in ('none', 'pupil', 'image')]
            continue
        if header is not None and names and names[0] in ('none', 'pupil', 'image', 'tilt', 'transform') \
                and len(names) == 4:
            table[names[0]] = {w: (None if 'not allowed' in v.lower() else v) for w, v in zip(header, names[1:])}
    pl = open(os.path.join(base, 'planes.rst')).read()
    cls = {}
    for m in re.finditer(r'^:class:`(\w+)`\s+(.*)$', pl, re.M):
        pt = m.group(1)
        for c in re.findall(r':class:`~lentil\.(\w+)`', m.group(2)):
            cls[c] = pt
    df = open(os.path.join(base, 'diffraction.rst')).read()
    prop = {}
    for m in re.finditer(r'^``(\w+)``\s+``(\w+)``\s+(.*)$', df, re.M):
        if 'propagate_dft' in m.group(3):
            prop[m.group(1)] = m.group(2)
    return table, cls, prop


# ---------------------------------------------------------------------------

DX, Z, WL, DU = 1e-3, 2.0, 6e-7, 2e-4


def make_plane(lentil, name, w, form='array'):
    """form 'array': 4x4 amplitude; 'scalar': no array data at all (amplitude 1, OPD 0, no pixel scale);
    'left'/'right': arrays supported on disjoint halves (two of them in a row leave a field-less wavefront)."""
    ps = None if w.pixelscale is not None else DX
    a = np.ones((4, 4))
    if form == 'mismatch':
        # a pixel scale that contradicts the wavefront's: a forbidden pair must still be refused with TypeError
        ps = DX * 1.5 if w.pixelscale is None else tuple(float(x) * 1.5 for x in w.pixelscale)
    if form == 'reassigned':
        # "once a plane is defined its attributes can be modified at any time": the same plane after its amplitude / OPD were
        # assigned again keeps its class's plane type
        pl = make_plane(lentil, name, w, 'fresh')
        try:
            pl.amplitude = np.array(pl.amplitude, dtype=float) * 1.0
            pl.opd = np.array(pl.opd, dtype=float) + 0.0
        except Exception:
            pass
        return pl
    if form in ('array', 'scalar') and name in ('Tilt', 'DispersiveTilt', 'Grism'):
        if name not in _SHARED:
            _SHARED[name] = make_plane(lentil, name, w, 'fresh')
        return _SHARED[name]
    if form == 'shared':
        # one plane object without a pixel scale of its own ("sampling is automatically selected"), used by every program of the
        # shard with wavefronts of whatever sampling: a plane does not remember the wavefronts it was applied to
        if name in ('Plane', 'Pupil', 'Image'):
            key = name + ':shared'
            if key not in _SHARED:
                _SHARED[key] = {'Plane': lambda: lentil.Plane(amplitude=np.ones((4, 4))),
                                'Pupil': lambda: lentil.Pupil(amplitude=np.ones((4, 4)), focal_length=Z),
                                'Image': lambda: lentil.Image(amplitude=np.ones((4, 4)))}[name]()
            return _SHARED[key]
        return make_plane(lentil, name, w, 'array')
    if form == 'scalar':
        a, ps = 1, None
    elif form == 'scalar+sampling':
        # a uniform, unbounded plane (no array at all) that still knows its physical sampling
        a, ps = 1, (DX if w.pixelscale is None else tuple(float(x) for x in w.pixelscale))
    elif form == 'left':
        a = np.zeros((4, 4)); a[:, :2] = 1
    elif form == 'right':
        a = np.zeros((4, 4)); a[:, 2:] = 1
    if name.startswith('ptype:'):
        return lentil.Plane(amplitude=a, pixelscale=ps, ptype=getattr(lentil, name.split(':')[1]))
    if '@' in name:
        # a tilt-class plane given an explicit plane type, as a type object ('@') or by name ('@@')
        base, t = name.replace('@@', '@').split('@')
        pt = t if '@@' in name else getattr(lentil, t)
        if base == 'Tilt':
            return lentil.Tilt(x=1e-6, y=-1e-6, ptype=pt)
        with warnings.catch_warnings():
            warnings.simplefilter('ignore')
            return getattr(lentil, base)(trace=[1.0, 0.0], dispersion=[1e-4, 5e-7], ptype=pt)
    if name == 'Plane':
        return lentil.Plane(amplitude=a, pixelscale=ps)
    if name == 'Pupil':
        # (a second pupil of another focal length is the normal case of a relay: the product takes the new pupil's focal length)
        if form == 'no-focal':
            # a pupil-plane element that has nothing to say about the focal length (a stop, a mask): the wavefront keeps its own
            return lentil.Pupil(amplitude=a, pixelscale=ps)
        return lentil.Pupil(amplitude=a, pixelscale=ps, focal_length=Z * 1.75 if form == 'other-focal' else Z)
    if name == 'Image':
        return lentil.Image(amplitude=a, pixelscale=ps)
    if name == 'Tilt':
        return lentil.Tilt(x=1e-6, y=-1e-6)
    if name == 'DispersiveTilt':
        return lentil.DispersiveTilt(trace=[1.0, 0.0], dispersion=[1e-4, 5e-7])
    if name == 'Grism':
        with warnings.catch_warnings():
            warnings.simplefilter('ignore')
            return lentil.Grism(trace=[1.0, 0.0], dispersion=[1e-4, 5e-7])
    if name == 'Rotate':
        return lentil.Rotate(angle=90)
    if name == 'Flip':
        return lentil.Flip(axis=0)
    raise ValueError(name)


def start_wavefront(lentil, start):
    if start == 'none':
        return lentil.Wavefront(WL)
    if start == 'none:focal':
        # an untyped wavefront may carry sampling, a finite focal length and data: it is still not a pupil
        w = lentil.Wavefront(WL, pixelscale=DX, focal_length=Z)
        w.data = [lentil.field.Field(np.ones((4, 4), complex), pixelscale=DX)]
        w.shape = (4, 4)
        return w
    w = lentil.Wavefront(WL, pixelscale=DX, focal_length=Z, ptype=getattr(lentil, start))
    # give it real data so that later steps act on an array
    w.data = [lentil.field.Field(np.ones((4, 4), complex), pixelscale=DX)]
    w.shape = (4, 4)
    return w


def run_program(ctx, lentil, start, prog, traces, forms=None):
    w = start_wavefront(lentil, start)
    trace = []
    for k, sym in enumerate(prog):
        form = forms[k] if forms else 'array'
        before = str(w.ptype)
        has_tilt = any(f.tilt for f in w.data)
        if sym in COPIES:
            try:
                w2 = copy.deepcopy(w) if sym == 'deepcopy' else pickle.loads(pickle.dumps(w))
                trace.append((before, sym, str(w2.ptype), None))
                w = w2
            except Exception as e:
                trace.append((before, sym, 'raise:' + type(e).__name__, {'msg': str(e)[:120]}))
                break
            continue
        if sym in PROPS:
            fw = probe.fingerprint(w)
            try:
                if w.pixelscale is None or not np.isfinite(w.focal_length):
                    # cannot express a propagation without sampling/focal length; type-none wavefronts fall here
                    if before != 'none':
                        trace.append((before, sym, 'skip:no-sampling', None))
                        break
                if before != 'none' and w.data and not any(np.ndim(f.data) == 2 for f in w.data):
                    # a wavefront without any extent (constant fields only) has no samples to transform: outside the table
                    trace.append((before, sym, 'skip:no-extent', None))
                    break
                if before != 'none' and not w.data:
                    ctx.bucket('propagate:field-less')        # (two disjoint apertures emptied the wavefront: still a pupil / an image)
                if sym == 'propagate_dft':
                    out = lentil.propagate_dft(w, DU, shape=4, oversample=1)
                else:
                    out = lentil.propagate_fft(w, DU, shape=2, oversample=1)
                trace.append((before, sym, str(out.ptype), None))
                w = out
            except Exception as e:
                unchanged = probe.fingerprint(w) == fw
                trace.append((before, sym, 'raise:' + type(e).__name__, {'unchanged': unchanged, 'tilt': has_tilt,
                                                                          'msg': str(e)[:120]}))
                if not isinstance(e, TypeError):
                    break
        else:
            try:
                plane = make_plane(lentil, sym, w, form)
            except Exception as e:
                trace.append((before, sym, 'construct-raise:' + type(e).__name__, {'msg': str(e)[:120]}))
                break
            fw, fp = probe.fingerprint(w), probe.fingerprint(plane)
            try:
                out = plane.multiply(w) if len(trace) % 2 else w * plane
                trace.append((before, sym, str(out.ptype), {'plane_ptype': str(plane.ptype), 'form': form}))
                w = out
            except Exception as e:
                unchanged = probe.fingerprint(w) == fw and probe.fingerprint(plane) == fp
                trace.append((before, sym, 'raise:' + type(e).__name__, {'unchanged': unchanged, 'form': form,
                                                                          'plane_ptype': str(plane.ptype),
                                                                          'msg': str(e)[:120]}))
                if not isinstance(e, TypeError):
                    break
    traces.append((start, tuple(prog), trace))


_CHILD = r'''
import pickle, sys, warnings
sys.path[:0] = [%(repo)r, %(verif)r]
warnings.simplefilter('ignore')
import lentil
from vp import probe
from vp.monitors import C08
blob = pickle.load(open(%(path)r, 'rb'))
out = []
for start, w_l in blob['w'].items():
    for name, p_l in blob['p'][start].items():
        for crossed in ('both', 'plane', 'wavefront'):
            try:
                w = w_l if crossed != 'plane' else C08.start_wavefront(lentil, start)
                p = p_l if crossed != 'wavefront' else C08.make_plane(lentil, name, w, 'fresh')
                before = str(w.ptype)
                fw, fp = probe.fingerprint(w), probe.fingerprint(p)
            except Exception as e:
                out.append((start, (name,), [('?', name, 'construct-raise:' + type(e).__name__, {'msg': str(e)[:120], 'crossed': crossed})]))
                continue
            for how in ('w*p', 'p.multiply(w)'):
                try:
                    o = w * p if how == 'w*p' else p.multiply(w)
                    out.append((start, (name,), [(before, name, str(o.ptype), {'plane_ptype': str(p.ptype), 'form': 'other-process', 'crossed': crossed, 'how': how})]))
                except Exception as e:
                    unchanged = probe.fingerprint(w) == fw and probe.fingerprint(p) == fp
                    out.append((start, (name,), [(before, name, 'raise:' + type(e).__name__,
                                                  {'unchanged': unchanged, 'form': 'other-process', 'plane_ptype': str(p.ptype), 'crossed': crossed, 'how': how,
                                                   'msg': str(e)[:120]})]))
pickle.dump(out, open(%(path)r + '.out', 'wb'))
'''


def other_process(ctx, lentil, traces):
    """Planes and wavefronts that crossed a process boundary by pickle (a saved model, spawn / forkserver workers) into an interpreter
    with another string-hash seed behave as the table says: loaded x loaded, loaded plane x fresh wavefront, fresh plane x loaded
    wavefront, both call forms.  The child's observations are replayed through the automaton like every other trace."""
    import os
    import subprocess
    import sys
    import tempfile
    from vp import core
    names = ['Plane', 'Pupil', 'Image', 'Tilt', 'DispersiveTilt', 'Grism'] + GENERIC
    blob = {'w': {}, 'p': {}}
    with warnings.catch_warnings():
        warnings.simplefilter('ignore')
        for start in ('none', 'pupil', 'image'):
            w = start_wavefront(lentil, start)
            blob['w'][start] = w
            blob['p'][start] = {n: make_plane(lentil, n, w, 'fresh') for n in names}
    tmp = tempfile.mkdtemp(prefix='vpc08-')
    try:
        path = os.path.join(tmp, 'objects.pkl')
        with open(path, 'wb') as f:
            pickle.dump(blob, f)
        for hs in (4242, 977):
            env = dict(os.environ, PYTHONHASHSEED=str(hs + ctx.seed))
            code = _CHILD % {'repo': core.repo_dir(), 'verif': core.VERIF_DIR, 'path': path}
            try:
                p = subprocess.run([sys.executable, '-c', code], timeout=300, stdout=subprocess.PIPE, stderr=subprocess.STDOUT, env=env)
            except subprocess.TimeoutExpired:
                ctx.skip('other-process child timed out')
                continue
            if p.returncode != 0 or not os.path.exists(path + '.out'):
                ctx.skip('other-process child failed: ' + p.stdout.decode(errors='replace')[-300:])
                continue
            with open(path + '.out', 'rb') as f:
                got = pickle.load(f)
            os.remove(path + '.out')
            for t in got:
                ctx.case({'other-process': hs, 'start': t[0], 'plane': t[1][0], 'crossed': t[2][0][3].get('crossed'), 'how': t[2][0][3].get('how')},
                         ['other-process'])
            traces.extend(got)
    finally:
        import shutil
        shutil.rmtree(tmp, ignore_errors=True)


def workload(ctx, lentil):
    defaults.run(ctx, lentil, 'C08', 'trace=automaton')
    reuse.run(ctx, lentil, 'C08', 'trace=automaton')
    argforms.run(ctx, lentil, 'C08', 'trace=automaton')
    corners.run(ctx, lentil, 'C08', 'trace=automaton')
    rng = ctx.rng
    maxlen = 3 if ctx.tier == 'quick' else 4
    traces = []
    idx = 0
    for start in ('none', 'pupil', 'image'):
        for L in range(1, maxlen + 1):
            for prog in itertools.product(SYMBOLS, repeat=L):
                idx += 1
                if idx % ctx.nshards != ctx.shard:
                    continue
                ctx.case({'start': start, 'prog': list(prog)}, [f'start:{start}', f'len:{L}'])
                run_program(ctx, lentil, start, prog, traces)
                if L <= 3:
                    # the same program with planes that carry no array data at all (scalar attributes, no pixel scale)
                    ctx.case({'start': start, 'prog': list(prog), 'form': 'scalar'}, ['form:scalar'])
                    run_program(ctx, lentil, start, prog, traces, forms=['scalar'] * L)
    # the same pairs with array-less planes that carry their own sampling, and with pupils whose focal length differs from the one
    # the wavefront already carries (relays, pupil -> image -> pupil round trips)
    k = 0
    for form in ('scalar+sampling', 'other-focal', 'no-focal'):
        for start in (('none', 'pupil', 'image', 'none:focal') if form != 'no-focal' else ('pupil', 'image', 'none:focal')):
            for L in range(1, 4):
                for prog in itertools.product(['Plane', 'Pupil', 'Image', 'Tilt', 'propagate_dft', 'propagate_fft'], repeat=L):
                    k += 1
                    if k % ctx.nshards != ctx.shard or 'Pupil' not in prog and form in ('other-focal', 'no-focal'):
                        continue
                    ctx.case({'start': start, 'prog': list(prog), 'form': form}, [f'form:{form}'])
                    run_program(ctx, lentil, start, prog, traces, forms=[form] * L)
    # forbidden and allowed pairs again with a plane whose pixel scale contradicts the wavefront's
    k = 0
    for start in ('pupil', 'image'):
        for L in range(1, 3):
            for prog in itertools.product(['Plane', 'Pupil', 'Image', 'ptype:tilt', 'ptype:transform', 'propagate_dft'], repeat=L):
                k += 1
                if k % ctx.nshards != ctx.shard:
                    continue
                ctx.case({'start': start, 'prog': list(prog), 'form': 'mismatch'}, ['form:mismatch'])
                run_program(ctx, lentil, start, prog, traces, forms=['mismatch'] * L)
    # tilt-class planes constructed with an explicit plane type (object and string form) take that type's row of the table
    typed = [f'{b}{sep}{t}' for b in ('Tilt', 'DispersiveTilt', 'Grism') for sep in ('@', '@@')
             for t in ('none', 'pupil', 'image', 'tilt', 'transform')]
    k = 0
    for start in ('none', 'pupil', 'image', 'none:focal'):
        for sym in typed:
            for tail in ([], ['Pupil'], ['propagate_dft'], ['Image']):
                k += 1
                if k % ctx.nshards != ctx.shard:
                    continue
                prog = [sym] + tail
                ctx.case({'start': start, 'prog': prog}, ['typed-tilt-class'])
                run_program(ctx, lentil, start, prog, traces)
    # untyped wavefronts that carry sampling, data and a finite focal length
    k = 0
    for L in range(1, 4):
        for prog in itertools.product(['Plane', 'Tilt', 'ptype:transform', 'ptype:none', 'propagate_dft', 'propagate_fft', 'Pupil'], repeat=L):
            k += 1
            if k % ctx.nshards != ctx.shard:
                continue
            ctx.case({'start': 'none:focal', 'prog': list(prog)}, ['start:none+focal'])
            run_program(ctx, lentil, 'none:focal', prog, traces)
    # planes whose attributes were assigned again after construction
    k = 0
    for start in ('none', 'pupil', 'image'):
        for L in range(1, 3):
            for prog in itertools.product(['Plane', 'Pupil', 'Image', 'Tilt', 'DispersiveTilt', 'ptype:pupil', 'ptype:tilt', 'Tilt@image',
                                           'propagate_dft'], repeat=L):
                k += 1
                if k % ctx.nshards != ctx.shard:
                    continue
                ctx.case({'start': start, 'prog': list(prog), 'form': 'reassigned'}, ['form:reassigned'])
                run_program(ctx, lentil, start, prog, traces, forms=['reassigned'] * L)
    # plane objects without their own sampling shared by all programs (wavefronts sampled at DX and at DU meet the same object)
    k = 0
    for rep in range(2):
        for start in ('image', 'pupil', 'none'):
            for L in range(1, 4):
                for prog in itertools.product(['Plane', 'Pupil', 'Image', 'propagate_dft'], repeat=L):
                    k += 1
                    if k % ctx.nshards != ctx.shard:
                        continue
                    ctx.case({'start': start, 'prog': list(prog), 'form': 'shared', 'rep': rep}, ['form:shared-plane-object'])
                    run_program(ctx, lentil, start, prog, traces, forms=['shared'] * L)
    if ctx.shard == 0:
        other_process(ctx, lentil, traces)
    # the sampling a propagation hands its result is a COMPUTED number (pixelscale / oversample): a plane that carries the same
    # sampling as the number a user types (5 um pixels oversampled 5 times: 1e-6) is compatible with it
    k = 0
    for kk in range(1, 61):
        for nn in range(2, 11):
            if kk % nn:
                continue
            k += 1
            if k % ctx.nshards != ctx.shard:
                continue
            ctx.case({'sampling-decimal-ratio': [kk, nn]}, ['sampling:decimal-ratio'])
            typed = (kk // nn) * 1e-6
            try:
                w0 = lentil.Wavefront(WL) * lentil.Pupil(amplitude=np.ones((4, 4)), pixelscale=DX, focal_length=Z)
                out = lentil.propagate_dft(w0, pixelscale=kk * 1e-6, shape=3, oversample=nn)
                exact = float(np.asarray(out.pixelscale, float)[0]) == typed
                ctx.bucket('sampling:decimal-ratio:' + ('exact' if exact else 'one-ulp-off'))
                for pl in (lentil.Image(pixelscale=typed), lentil.Image(amplitude=np.ones((3 * nn, 3 * nn)), pixelscale=(typed, typed))):
                    try:
                        res = out * pl
                        ctx.check(str(res.ptype) == 'image', 'trace=automaton', 'step|sampling-decimal-ratio|type',
                                  'image wavefront times image plane at the same sampling is not an image', {'k': kk, 'n': nn})
                    except Exception as e:
                        ctx.check(False, 'trace=automaton', f'step|sampling-decimal-ratio|raises={type(e).__name__}',
                                  f'a plane carrying the sampling {typed!r} is refused by the wavefront that propagate_dft(pixelscale={kk}e-6, '
                                  f'oversample={nn}) returned (sampling {np.asarray(out.pixelscale).tolist()!r}): {e}', {'k': kk, 'n': nn})
            except Exception as e:
                ctx.check(False, 'trace=automaton', f'sampling-decimal-ratio|raises={type(e).__name__}', str(e), {'k': kk, 'n': nn})
    # copies of the wavefront (deepcopy / pickle round trip) anywhere in a program
    k = 0
    for start in ('none', 'pupil', 'image'):
        for L in range(1, 5):
            for prog in itertools.product(['Pupil', 'Image', 'Tilt', 'deepcopy', 'pickle', 'propagate_dft', 'propagate_fft'], repeat=L):
                k += 1
                if k % ctx.nshards != ctx.shard or not (set(prog) & set(COPIES)):
                    continue
                ctx.case({'start': start, 'prog': list(prog)}, ['copy-step'])
                run_program(ctx, lentil, start, prog, traces)
    # programs that empty the wavefront (two apertures with disjoint support) before propagating
    mini = ['Pupil', 'Image', 'Tilt', 'propagate_dft', 'propagate_fft']
    k = 0
    for start in ('none', 'pupil', 'image'):
        for L in range(2, 5):
            for prog in itertools.product(mini, repeat=L):
                k += 1
                if k % ctx.nshards != ctx.shard or 'Pupil' not in prog[:2] and 'Image' not in prog[:2]:
                    continue
                forms = []
                side = 'left'
                for sym in prog:
                    if sym in ('Pupil', 'Image'):
                        forms.append(side)
                        side = 'right' if side == 'left' else 'left'
                    else:
                        forms.append('array')
                ctx.case({'start': start, 'prog': list(prog), 'form': 'disjoint'}, ['form:disjoint'])
                run_program(ctx, lentil, start, prog, traces, forms=forms)
    nrand = ctx.count(150, 1500)
    for i in range(nrand):
        start = ['none', 'pupil', 'image'][int(rng.integers(0, 3))]
        L = int(rng.integers(5, 11))
        # bias towards programs that stay alive: mostly legal-looking symbols
        prog = [SYMBOLS[int(rng.integers(0, len(SYMBOLS)))] for _ in range(L)]
        ctx.case({'start': start, 'prog': prog}, ['random-long', f'start:{start}'])
        run_program(ctx, lentil, start, prog, traces)
    ctx.notes['_traces'] = traces


def finish(ctx, lentil):
    """Offline: replay every recorded trace through the documented automaton."""
    traces = ctx.notes.pop('_traces', [])
    try:
        table, cls, prop = parse_docs()
        ok = (set(table) == {'none', 'pupil', 'image', 'tilt', 'transform'} and
              all(set(v) == {'none', 'pupil', 'image'} for v in table.values()) and
              {'Plane', 'Pupil', 'Image', 'Tilt', 'DispersiveTilt', 'Rotate', 'Flip'} <= set(cls) and
              prop == {'pupil': 'image', 'image': 'pupil'})
    except Exception as e:
        ok = False
        table, cls, prop = {}, {}, {}
        ctx.notes['docs_error'] = repr(e)
    ctx.check(ok, 'docs-parsed', 'docs|unparsable',
              'the documented tables could not be parsed into a 5x3 multiplication table, a class table and the '
              'propagation rule', {'table': table, 'classes': cls, 'propagation': prop})
    if not ok:
        return
    cls = dict(cls)
    cls.setdefault('Grism', cls['DispersiveTilt'])        # deprecated alias of DispersiveTilt
    for g in GENERIC:
        cls[g] = g.split(':')[1]
    for b in ('Tilt', 'DispersiveTilt', 'Grism'):
        for t in ('none', 'pupil', 'image', 'tilt', 'transform'):
            cls[f'{b}@{t}'] = cls[f'{b}@@{t}'] = t
    ctx.notes['automaton'] = {'table': table, 'classes': cls, 'propagation': prop}
    # class -> ptype as documented
    for name in PLANES:
        try:
            with warnings.catch_warnings():
                warnings.simplefilter('ignore')
                w0 = lentil.Wavefront(WL)
                p = make_plane(lentil, name, w0)
            ctx.check(str(p.ptype) == cls[name], 'class-ptype', f'class-ptype|{name}',
                      f'{name} does not carry its documented plane type', {'class': name, 'got': str(p.ptype),
                                                                           'documented': cls[name]})
        except Exception as e:
            ctx.check(False, 'class-ptype', f'class-ptype|{name}|raises={type(e).__name__}', str(e), {'class': name})
    for start, prog, trace in traces:
        for (before, sym, outcome, info) in trace:
            wit = {'start': start, 'program': list(prog), 'step': [before, sym, outcome], 'info': info}
            if outcome.startswith('skip:'):
                ctx.skip(outcome)
                continue
            if sym in COPIES:
                ctx.check(outcome == before, 'trace=automaton', f'copy|{sym}|{outcome.split(":")[0]}',
                          'copying a wavefront changed its plane type (or failed)', wit)
                continue
            if sym in PROPS:
                if before in prop:
                    if outcome == 'raise:NotImplementedError' and sym == 'propagate_fft' and info and info.get('tilt'):
                        ctx.skip('propagate_fft refused a tilted wavefront (C09)')
                        continue
                    ctx.bucket('propagate:allowed')
                    ctx.check(outcome == prop[before], 'trace=automaton', f'propagate|from={before}|{outcome.split(":")[0]}',
                              f'propagation from {before} must give {prop[before]}', wit)
                else:
                    ctx.bucket('propagate:refused')
                    fft_tilt = (outcome == 'raise:NotImplementedError' and sym == 'propagate_fft' and info
                                and info.get('tilt'))     # refused all the same (C09's tilt guard fires first)
                    ctx.check(outcome == 'raise:TypeError' or fft_tilt, 'trace=automaton',
                              f'propagate|from={before}|not-refused',
                              'propagation is permitted only from a pupil or an image (TypeError otherwise)', wit)
                    if outcome.startswith('raise:'):
                        ctx.check(bool(info and info.get('unchanged')), 'refused=unchanged', 'propagate|refused|changed',
                                  'a refused propagation changed its operand', wit)
                continue
            want = table[cls[sym]][before]
            if want is None:
                ctx.bucket('cell:refused')
                ctx.check(outcome == 'raise:TypeError', 'trace=automaton',
                          f'step|class={sym}|wavefront={before}|not-refused:{outcome}',
                          f'{cls[sym]} plane times {before} wavefront is documented as not allowed (TypeError)', wit)
                if outcome.startswith('raise:'):
                    ctx.check(bool(info and info.get('unchanged')), 'refused=unchanged',
                              f'step|class={sym}|refused|changed', 'a refused multiplication changed an operand', wit)
            else:
                ctx.bucket('cell:allowed')
                if info and info.get('form') == 'mismatch':
                    ctx.skip('allowed pair with contradicting pixel scales (refusal is C07\'s clause)')
                    continue
                if outcome.startswith('raise:') or outcome.startswith('construct-raise:'):
                    ctx.check(False, 'trace=automaton', f'step|class={sym}|{outcome.replace("raise:", "raises=")}',
                              f'documented plane class {sym} could not be applied to a compatible ({before}) wavefront', wit)
                else:
                    ctx.check(outcome == want, 'trace=automaton',
                              f'step|plane={cls[sym]}|wavefront={before}|got={outcome}',
                              f'{cls[sym]} plane times {before} wavefront must give {want}', wit)
