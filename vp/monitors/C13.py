"""C13 — Spectrum arithmetic is pointwise, commutative and unit-agnostic.

Online oracle on the five public methods Spectrum.add/subtract/multiply/divide/power (the operators call these), by any workload:
the result grid must be uniform, span the union of the operands' ranges with the minimal number of steps
no coarser than the requested sampling; every value must be op(interp_a(w), interp_b(w)) with the monitor's
own piecewise-linear interpolation (polynomial operands for the higher-order spline methods) and the fill
value outside an operand's range; the result is a new object.  Relational driver: commutativity, the same
physical operands expressed in nm / um / m / angstrom (same unit and mixed) must give the same physical
result, and both operands must still describe the same physical spectrum afterwards.
"""
import numpy as np

from vp import probe, specmodel as sm
from vp import defaults
from vp import reuse
from vp import forms as argforms
from vp import corners

RULE = ('seeded generator: pairs of spectra with identical / nested / partially overlapping / disjoint ranges on uniform and '
        'non-uniform grids (2..40 samples), the five operators, sampling min/left/right/float, methods linear/quadratic/cubic '
        '(polynomial operands), fill 0 / non-zero, units nm/um/m/angstrom (same and mixed), scalar and vector operands, '
        'Blackbody operands.  distinct = distinct (grids hash, operator, options, units) descriptors; non-trivial = both '
        'operands with >= 2 samples.')
ASSUMPTIONS = ['grid points within 1e-9 (relative) of an operand end point, but farther than 2e-15 from it, may take either the interpolated or '
               'the fill value (closer than 2e-15 they ARE the end sample)',
               'a divisor that interpolates to zero only to rounding is not evidence; a zero fill value outside the divisor range is an exact zero '
               '(a / 0 = inf, 0 / 0 = nan are required there)']
PLAN = {'quick': {'gen': 8}, 'thorough': {'gen': 16, 'tests': 1, 'docs': 1}}
REQUIRED_BUCKETS = ['defaults', 'corners', 'reuse', 'forms', 'range:identical', 'range:nested', 'range:overlap', 'range:disjoint', 'grid:uniform', 'grid:nonuniform',
                    'op:add', 'op:subtract', 'op:multiply', 'op:divide', 'op:power', 'sampling:min', 'sampling:left',
                    'sampling:right', 'sampling:float', 'fill:0', 'fill:nonzero', 'fill:pair', 'unit:nm', 'unit:um', 'unit:m',
                    'unit:angstrom', 'unit:mixed', 'scalar', 'vector', 'method:quadratic', 'method:cubic', 'blackbody', 'density', 'update-sequence', 'values:integer', 'scalar:numpy-type', 'scalar:integer-values', 'scalar:narrow-float-values', 'same-spectrum:two-units', 'grid:decimal-step', 'grid:huge', 'scalar-on-the-left:nonuniform-grid', 'scalar:boolean-values', 'grid:line-profile']
REQUIRED_ANCHORS = ['probe:Spectrum.add', 'probe:Spectrum.subtract', 'probe:Spectrum.multiply', 'probe:Spectrum.divide', 'probe:Spectrum.power', 'anchor:Spectrum._ufunc', 'anchor:_interp_common', 'anchor:_sampling', 'anchor:Spectrum.sample']
REQUIRED_ORACLES = ['grid', 'value=op(interp)', 'new-object', 'commutative', 'unit-agnostic', 'operands-physically-unchanged',
                    'scalar-elementwise']
OPS = {'add': np.add, 'subtract': np.subtract, 'multiply': np.multiply, 'divide': np.divide, 'power': np.power}


def anchors(lentil):
    R = lentil.radiometry
    return [('_interp_common', R._interp_common), ('_sampling', R._sampling), ('_intersect', R._intersect),
            ('Spectrum.sample', R.Spectrum.sample), ('Spectrum._ufunc', R.Spectrum._ufunc)]


def phys(s):
    """(wave in nm, value per nm if a density else as is) on private copies."""
    f = sm.wave_factor(s.waveunit, 'nm')
    w = np.array(s.wave, float) * f
    v = np.array(s.value, float)
    if s.valueunit is not None:
        v = v / f
    return w, v


def ufunc_before(ctx, args, kwargs):
    self, other = args[0], args[2] if len(args) > 2 else kwargs.get('other')
    pre = {'self': (np.array(self.wave, float), np.array(self.value, float), self.waveunit, phys(self))}
    if hasattr(other, 'wave'):
        pre['other'] = (np.array(other.wave, float), np.array(other.value, float), other.waveunit, phys(other))
    return pre


def _bind(args, kwargs):
    names = ['self', 'ufunc', 'other', 'sampling', 'method', 'fill_value']
    d = {'sampling': 'min', 'method': 'linear', 'fill_value': 0}
    d.update(dict(zip(names, args)))
    d.update(kwargs)
    return d


def ufunc_oracle(ctx, args, kwargs, result, exc, pre):
    a = _bind(args, kwargs)
    self, other, uf = a['self'], a['other'], a['ufunc']
    if pre is None:
        return
    sw, sv, su, sphys = pre['self']
    if not hasattr(other, 'wave'):
        vec_ = (not isinstance(other, (str, bytes)) and np.ndim(other) == 1 and len(other) == len(sv)
                and np.asarray(other).dtype.kind in 'biuf')
        if exc is not None and sv.dtype.kind in 'biu' and ((np.ndim(other) == 0 and isinstance(other, (int, float, np.number))) or vec_):
            ctx.check(False, 'scalar-elementwise', f'scalar|integer-values|raises={type(exc).__name__}',
                      f'operation of an integer-valued spectrum with a scalar raised {type(exc).__name__}: {exc}', {'op': uf.__name__, 'other': repr(other)})
            return
        if exc is not None:
            ctx.skip('scalar/vector operand refused')
            return
        with np.errstate(all='ignore'):
            try:
                # values are real numbers whatever integer type a hand-typed table arrives in
                narrow_ = sv.dtype.kind in 'biu' or (sv.dtype.kind == 'f' and sv.dtype.itemsize < 8)
                ref = uf(sv.astype(float) if narrow_ else sv, other)
            except Exception:
                return
        if narrow_:
            okv = np.shape(result.value) == np.shape(ref) and np.allclose(np.asarray(result.value, float), ref, rtol=1e-14, atol=0, equal_nan=True)
        else:
            okv = np.array_equal(result.value, ref, equal_nan=True)
        ok = np.array_equal(result.wave, sw) and okv and result is not self
        ctx.check(ok, 'scalar-elementwise', 'scalar|elementwise',
                  'operation with a scalar/vector is not element-wise on the unchanged grid', {'op': uf.__name__})
        return
    ow, ov, ou, ophys = pre['other']
    is_bb = type(other).__name__ == 'Blackbody' or type(self).__name__ == 'Blackbody'
    desc = {'op': uf.__name__, 'sampling': a['sampling'], 'method': a['method'], 'fill': a['fill_value'],
            'units': [su, ou], 'n': [len(sw), len(ow)]}
    if exc is not None:
        ctx.check(False, 'value=op(interp)', f'ufunc|raises={type(exc).__name__}',
                  f'binary operation raised {type(exc).__name__}: {exc}', desc)
        return
    # operands still describe the same physical spectrum
    for nm_, obj, ph in (('self', self, sphys), ('other', other, ophys)):
        w2, v2 = phys(obj)
        same = w2.shape == ph[0].shape and np.allclose(w2, ph[0], rtol=1e-12, atol=0) and \
            np.allclose(v2, ph[1], rtol=1e-12, atol=1e-300)
        ctx.check(same, 'operands-physically-unchanged', f'ufunc|operand-changed|{nm_}',
                  'an operand no longer describes the same physical spectrum after the operation', desc)
    ctx.check(result is not self and result is not other, 'new-object', 'ufunc|new-object', 'result is not a new spectrum', desc)
    if su != ou:
        ctx.skip('online value oracle: mixed units (decided by the relational unit driver)')
        return
    if a['method'] != 'linear' or is_bb:
        ctx.skip('online value oracle: non-linear method / Blackbody (decided by the driver with polynomial operands)')
        # grid is still checked below
    # ---- grid --------------------------------------------------------------------------------------------
    lo, hi = min(sw[0], ow[0]), max(sw[-1], ow[-1])
    smp = a['sampling']
    if smp == 'min':
        dw = min(np.diff(sw).min() if len(sw) > 1 else np.inf, np.diff(ow).min() if len(ow) > 1 else np.inf)
    elif smp == 'left':
        dw = np.diff(sw).min()
    elif smp == 'right':
        dw = np.diff(ow).min()
    else:
        dw = float(smp)
    g = np.asarray(result.wave, float)
    steps = len(g) - 1
    q = (hi - lo) / dw
    # number of steps = ceil(range / sampling); when that ratio is an integer up to rounding (0.1-steps: 1.0/0.1 = 10.000000000000002)
    # it IS that integer - identical grids are then combined sample by sample, without an extra point
    # "up to rounding" is up to the rounding of the inputs: the step is a difference of wavelengths and carries eps * lambda / step
    # relative (1e-8 for picometre steps at a micrometre).  Inside that band the ratio does not say which of the two integers is
    # meant, so either is accepted - unless the two operands sit on the very same uniform grid, which settles it
    band = max(1e-9, 16 * np.finfo(float).eps * max(abs(lo), abs(hi)) / dw) * max(1, q)
    near_int = abs(q - round(q)) < min(band, 0.45)
    same_grid = (len(sw) == len(ow) and len(sw) > 2 and np.array_equal(sw, ow) and smp in ('min', 'left', 'right')
                 and float(np.max(np.abs(np.diff(sw) - (sw[-1] - sw[0]) / (len(sw) - 1)))) <= 4 * np.finfo(float).eps * max(abs(lo), abs(hi)))
    if same_grid:
        okn = steps == len(sw) - 1
    elif near_int:
        okn = steps in (round(q), int(np.ceil(q)))
    else:
        okn = steps == int(np.ceil(q))
    # (uniform to the spacing of the doubles at these wavelengths)
    uniform = len(g) < 3 or float(np.max(np.abs(np.diff(g) - (hi - lo) / max(steps, 1)))) <= max(1e-9 * (hi - lo), 4 * np.finfo(float).eps * max(abs(lo), abs(hi)))
    # the ends of the union are samples of the operands themselves (same unit): the grid starts and ends on them exactly
    ctx.check(len(g) >= 2 and g[0] == lo and g[-1] == hi and uniform and okn,
              'grid', 'ufunc|grid',
              'result grid is not the uniform grid spanning the union of the ranges at the finer (or requested) sampling',
              dict(desc, lo=lo, hi=hi, dw=dw, steps=steps))
    ctx.check(result.waveunit == su, 'grid', 'ufunc|unit', 'result does not carry the left operand\'s wavelength unit', desc)
    if a['method'] != 'linear' or is_bb:
        return
    fill = a['fill_value']
    va = sm.interp_linear(g, sw, sv, fill)
    vb = sm.interp_linear(g, ow, ov, fill)
    with np.errstate(all='ignore'):
        ref = uf(va, vb)
        # tie tolerance at operand end points: alternative with the other side's choice
        def near(x, e):
            # a grid point that IS the end sample (bit for bit) belongs to the operand's range; only near misses are ties
            return (np.abs(x - e) <= 1e-9 * abs(e)) & (np.abs(x - e) > sm.NOMINAL * abs(e))
        tie = near(g, sw[0]) | near(g, sw[-1]) | near(g, ow[0]) | near(g, ow[-1])
        got = np.asarray(result.value, float)
        fin = np.isfinite(ref) & np.isfinite(got)
        scale = max(float(np.max(np.abs(ref[fin]))) if fin.any() else 1.0, 1e-300)
        ma_, mb_ = float(np.max(np.abs(np.r_[sv, fill]))), float(np.max(np.abs(np.r_[ov, fill])))
        if uf is np.multiply:       # results that cancelled to rounding are measured against the operands
            scale = max(scale, ma_ * mb_)
        elif uf in (np.add, np.subtract):
            scale = max(scale, ma_ + mb_)
        bad = ~np.isclose(got, ref, rtol=1e-9, atol=1e-11 * scale, equal_nan=True)
        if uf is np.divide:
            # a numerator that interpolates to zero-up-to-rounding gives a quotient that is zero up to rounding: measured against
            # (largest numerator) / |denominator| at that sample
            bad &= np.abs(got - ref) > 1e-11 * ma_ / np.maximum(np.abs(vb), 1e-300)
    bad &= ~tie
    if uf is np.divide:     # a denominator that is zero to rounding: inf vs 1e16 are both 'the quotient'
        # ... but outside the divisor's range a zero fill value IS zero: the quotient there is a / 0 (inf, or nan for 0 / 0), not a number
        exact0 = (vb == 0) & ((g < ow[0] * (1 - 1e-9)) | (g > ow[-1] * (1 + 1e-9))) if np.ndim(fill) == 0 and fill == 0 else np.zeros(len(g), bool)
        bad &= (np.abs(vb) > 1e-9 * max(float(np.max(np.abs(ov))), 1e-300)) | exact0
    if uf is np.power:      # 0**0 = 1 but 0**1e-17 = 0: base and exponent both zero to rounding is ill-conditioned
        # ... and 0**negative = inf but (1e-17)**negative is merely huge
        # ... and a base of 1e-14 raised to 0.3 is 6e-5: x**y with y < 1 has an infinite slope at x = 0, so a base that is zero to
        # rounding is ill-conditioned whatever the exponent (for y >= 1 the result is zero to rounding anyway)
        bad &= ~(np.abs(va) <= 1e-9 * max(float(np.max(np.abs(sv))), 1e-300))
        # a negative base has a real power only for exactly integer exponents: an interpolated exponent that is an integer
        # to rounding gives a number or NaN depending on the last bit (discontinuous everywhere, not evidence)
        bad &= ~(va < 0)
    if bad.any():
        k = int(np.argmax(bad))
        ctx.check(False, 'value=op(interp)', f'ufunc|value|{uf.__name__}',
                  'result is not the operation applied to the interpolated (or fill) values of the operands',
                  dict(desc, at=float(g[k]), got=float(got[k]), ref=float(ref[k]), a=float(va[k]), b=float(vb[k])))
    else:
        ctx.check(True, 'value=op(interp)', 'ok', 'ok')


ufunc_oracle.before = ufunc_before


def public_oracle(uf):
    """The oracle at the public boundary: Spectrum.add / subtract / multiply / divide / power (the operators call these), so
    that whatever a method does to the result after the shared machinery returns is observed too."""
    def orc(ctx, args, kwargs, result, exc, pre):
        return ufunc_oracle(ctx, (args[0], uf) + tuple(args[1:]), kwargs, result, exc, pre)

    def before(ctx, args, kwargs):
        return ufunc_before(ctx, (args[0], uf) + tuple(args[1:]), kwargs)
    orc.before = before
    return orc


def install(ctx, lentil):
    for name, uf in (('add', np.add), ('subtract', np.subtract), ('multiply', np.multiply), ('divide', np.divide), ('power', np.power)):
        probe.wrap_method(lentil.radiometry.Spectrum, name, public_oracle(uf), ctx)


# ---------------------------------------------------------------------------

def make_grid(rng, lo, hi, n, uniform):
    if uniform or n < 3:
        return np.linspace(lo, hi, n)
    g = np.sort(rng.uniform(lo, hi, n - 2))
    g = np.concatenate([[lo], g, [hi]])
    # keep the smallest step sane
    d = np.diff(g)
    if d.min() < (hi - lo) / (n * 20):
        return np.linspace(lo, hi, n)
    return g


def pair(rng, relation):
    lo = float(rng.uniform(300, 900))
    span = float(rng.uniform(50, 600))
    if relation == 'identical':
        r1 = r2 = (lo, lo + span)
    elif relation == 'nested':
        r1 = (lo, lo + span)
        a = lo + span * rng.uniform(0.05, 0.4)
        r2 = (a, a + span * rng.uniform(0.2, 0.5))
    elif relation == 'overlap':
        r1 = (lo, lo + span)
        r2 = (lo + span * rng.uniform(0.3, 0.8), lo + span * rng.uniform(1.1, 1.8))
    else:
        r1 = (lo, lo + span)
        r2 = (lo + span * rng.uniform(1.1, 1.5), lo + span * rng.uniform(1.6, 2.2))
    if rng.random() < 0.5:
        r1, r2 = r2, r1
    return r1, r2


def in_unit(R, wave_nm, value, unit, valueunit=None):
    f = sm.wave_factor('nm', unit)
    v = np.array(value)              # keeps an integer dtype when the caller supplied one
    if valueunit is not None:
        v = v.astype(float) / f
    return R.Spectrum(np.array(wave_nm, float) * f, v, waveunit=unit, valueunit=valueunit)


def workload(ctx, lentil):
    defaults.run(ctx, lentil, 'C13', 'grid')
    reuse.run(ctx, lentil, 'C13', 'grid')
    argforms.run(ctx, lentil, 'C13', 'grid')
    corners.run(ctx, lentil, 'C13', 'grid')
    rng = ctx.rng
    R = lentil.radiometry
    n = ctx.count(160, 1200)
    rels = ['identical', 'nested', 'overlap', 'disjoint']
    units = sm.WAVE_CANON
    for i in range(n):
        rel = rels[i % 4]
        (a0, a1), (b0, b1) = pair(rng, rel)
        na, nb = int(rng.integers(2, 41)), int(rng.integers(2, 41))
        ua, ub = bool(rng.random() < 0.5), bool(rng.random() < 0.5)
        wa = make_grid(rng, a0, a1, na, ua)
        wb = wa.copy() if rel == 'identical' and rng.random() < 0.5 else make_grid(rng, b0, b1, nb, ub)
        method = 'linear' if rng.random() < 0.75 else ['quadratic', 'cubic'][int(rng.integers(0, 2))]
        deg = {'linear': 1, 'quadratic': 2, 'cubic': 3}[method]
        if method != 'linear':
            # polynomial operands of degree <= the spline order (reproduced exactly by the spline); every third case uses
            # the smallest number of samples the method admits (order + 1)
            mina = deg + 1 if i % 3 == 0 else max(na, deg + 2)
            minb = deg + 1 if i % 3 == 1 else max(nb, deg + 2)
            wa = make_grid(rng, a0, a1, mina, ua)
            wb = make_grid(rng, b0, b1, minb, ub) if not np.array_equal(wb, wa) else wa.copy()
            pa = rng.normal(size=deg + 1) * 10.0 ** (-2 * np.arange(deg, -1, -1))
            pb = rng.normal(size=deg + 1) * 10.0 ** (-2 * np.arange(deg, -1, -1))
            fa = lambda x, p=pa, c=(a0 + a1) / 2: np.polyval(p, x - c) + 3
            fb = lambda x, p=pb, c=(b0 + b1) / 2: np.polyval(p, x - c) + 3
            va, vb = fa(wa), fb(wb)
        else:
            va = rng.uniform(0.1, 2, size=len(wa))
            vb = rng.uniform(0.1, 2, size=len(wb))
            if rng.random() < 0.2:
                vb[int(rng.integers(0, len(vb)))] = 0.0
            if i % 5 == 4:
                # integer-typed value arrays (a hand-typed filter such as [0, 1, 1, 0]) are legal operands
                va = rng.integers(0, 4, size=len(wa))
                vb = rng.integers(1, 4, size=len(wb))
                ctx.bucket('values:integer')
        opn = list(OPS)[int(rng.integers(0, 5))]
        smp = ['min', 'min', 'left', 'right', 'float'][int(rng.integers(0, 5))]
        sampling = smp if smp != 'float' else float(rng.uniform(0.5, 60))
        fill = 0 if rng.random() < 0.6 else float(rng.uniform(-1, 2))
        if method == 'linear' and i % 6 == 3:
            # the documented two-element form: one value below an operand's range, another above it
            fill = (float(rng.uniform(-1, 2)), float(rng.uniform(-1, 2)))
            if i % 12 == 3:
                fill = list(fill)
            ctx.bucket('fill:pair')
        unit = units[int(rng.integers(0, 4))]
        desc = {'rel': rel, 'op': opn, 'sampling': sampling, 'method': method, 'fill': fill, 'unit': unit,
                'wa': probe.fp_array(wa)[:8], 'wb': probe.fp_array(wb)[:8]}
        bks = [f'range:{rel}', 'grid:uniform' if (ua and ub) else 'grid:nonuniform', f'op:{opn}', f'sampling:{smp}',
               'fill:0' if np.ndim(fill) == 0 and fill == 0 else 'fill:nonzero', f'unit:{unit}']
        if method != 'linear':
            bks.append(f'method:{method}')
        ctx.case(desc, bks)
        A = in_unit(R, wa, va, unit)
        B = in_unit(R, wb, vb, unit)
        su = sampling if isinstance(sampling, str) else sampling * sm.wave_factor('nm', unit)
        kw = dict(sampling=su, method=method, fill_value=fill)
        try:
            if rng.random() < 0.3 and kw == dict(sampling='min', method='linear', fill_value=0):
                res = {'add': A + B, 'subtract': A - B, 'multiply': A * B, 'divide': A / B, 'power': A ** B}[opn]
            else:
                with np.errstate(all='ignore'):
                    res = getattr(A, opn)(B, **kw)                 # online oracle decides (same units)
        except Exception:
            continue
        gnm = np.asarray(res.wave, float) * sm.wave_factor(res.waveunit, 'nm')
        if method != 'linear':
            # polynomial operands: the interpolated value is the polynomial itself
            ia = np.where((gnm >= wa[0] - 1e-9) & (gnm <= wa[-1] + 1e-9), fa(gnm), fill)
            ib = np.where((gnm >= wb[0] - 1e-9) & (gnm <= wb[-1] + 1e-9), fb(gnm), fill)
            with np.errstate(all='ignore'):
                ref = OPS[opn](ia, ib)
            tie = np.zeros(len(gnm), bool)
            for e in (wa[0], wa[-1], wb[0], wb[-1]):
                tie |= (np.abs(gnm - e) <= 1e-9 * e) & (np.abs(gnm - e) > sm.NOMINAL * e)
            fin = np.isfinite(ref) & ~tie
            ctx.close('value=op(interp)', np.asarray(res.value, float)[fin], ref[fin], 1e-7, f'driver|value|{method}',
                      'higher-order interpolation of polynomial operands does not reproduce op(a(w), b(w))', desc,
                      scale=max(float(np.max(np.abs(ref[fin]))) if fin.any() else 1.0, 1e-300))
        # commutativity
        if opn in ('add', 'multiply'):
            kw2 = dict(kw)
            if smp == 'left':
                kw2['sampling'] = 'right'
            elif smp == 'right':
                kw2['sampling'] = 'left'
            try:
                with np.errstate(all='ignore'):
                    rev = getattr(B, opn)(A, **kw2)
                ok = np.allclose(rev.wave, res.wave, rtol=1e-12, atol=0) and \
                    np.allclose(rev.value, res.value, rtol=1e-12, atol=1e-300, equal_nan=True)
                ctx.check(len(rev.wave) == len(res.wave) and ok, 'commutative', f'commutative|{opn}',
                          'a op b differs from b op a', desc)
            except Exception as e:
                ctx.check(False, 'commutative', f'commutative|raises={type(e).__name__}', str(e), desc)
        # unit relation: same physical operands in another unit (same for both) and mixed units
        if method == 'linear':
            u2 = units[int(rng.integers(0, 4))]
            u3 = units[int(rng.integers(0, 4))]
            for (x, y), label in (((u2, u2), 'same'), ((u2, u3), 'mixed')):
                if label == 'mixed' and x == y:
                    continue
                ctx.bucket(f'unit:{x}')
                if label == 'mixed':
                    ctx.bucket('unit:mixed')
                A2, B2 = in_unit(R, wa, va, x), in_unit(R, wb, vb, y)
                sx = sampling if isinstance(sampling, str) else sampling * sm.wave_factor('nm', x)
                if label == 'mixed' and not isinstance(sampling, str):
                    pass
                try:
                    with np.errstate(all='ignore'):
                        r2 = getattr(A2, opn)(B2, sampling=sx, method=method, fill_value=fill)
                except Exception as e:
                    ctx.check(False, 'unit-agnostic', f'unit|{label}|raises={type(e).__name__}',
                              f'operation on operands given in {x}/{y} raised {type(e).__name__}: {e}', dict(desc, units=[x, y]))
                    continue
                g2 = np.asarray(r2.wave, float) * sm.wave_factor(r2.waveunit, 'nm')
                if len(g2) != len(gnm) and abs(len(g2) - len(gnm)) == 1:
                    # the number of steps is ceil(range/sampling): when that ratio is an integer to rounding, two unit
                    # representations may legitimately land on either side of the ceil (a tie is not evidence)
                    dws = {'min': min(np.diff(wa).min(), np.diff(wb).min()), 'left': np.diff(wa).min(),
                           'right': np.diff(wb).min()}.get(sampling, sampling)
                    q = (max(wa[-1], wb[-1]) - min(wa[0], wb[0])) / dws
                    # (only ratios that sit right at the rounding threshold of 1e-9 are undecidable; ratios that are integers
                    # up to rounding give the same count in every unit)
                    if 1e-10 * max(1.0, q) < abs(q - round(q)) < 1e-8 * max(1.0, q):
                        ctx.skip('unit relation: step count at a ceil() tie')
                        continue
                same = len(g2) == len(gnm) and np.allclose(g2, gnm, rtol=1e-9, atol=0)
                if same:
                    tie = np.zeros(len(gnm), bool)
                    for e in (wa[0], wa[-1], wb[0], wb[-1]):
                        tie |= (np.abs(gnm - e) <= 1e-9 * e) & (np.abs(gnm - e) > sm.NOMINAL * e)
                    v1, v2 = np.asarray(res.value, float), np.asarray(r2.value, float)
                    ia_ = sm.interp_linear(gnm, wa, va, fill)
                    ib_ = sm.interp_linear(gnm, wb, vb, fill)
                    if opn == 'divide':   # denominators that vanish to rounding are ill-conditioned, not evidence
                        tie = tie | (np.abs(ib_) <= 1e-9 * float(np.max(np.abs(vb))))
                    if opn == 'power':    # 0**0 versus 0**1e-17, 0**negative versus (1e-17)**negative
                        tie = tie | (np.abs(ia_) <= 1e-9 * float(np.max(np.abs(va))))     # base zero to rounding: see the online oracle
                        tie = tie | (ia_ < 0)      # negative base: real only for exactly integer exponents (see the online oracle)
                    fin_ = np.isfinite(v1) & np.isfinite(v2)
                    sc_ = max(float(np.max(np.abs(v1[fin_]))) if fin_.any() else 1.0, 1e-300)
                    # an operand that interpolates to zero-up-to-rounding makes a product / sum that is zero up to rounding:
                    # the yardstick is the size of the operands, not of a result that cancelled
                    ma_, mb_ = float(np.max(np.abs(np.r_[va, fill]))), float(np.max(np.abs(np.r_[vb, fill])))
                    if opn == 'multiply':
                        sc_ = max(sc_, ma_ * mb_)
                    elif opn in ('add', 'subtract'):
                        sc_ = max(sc_, ma_ + mb_)
                    okv = np.isclose(v1, v2, rtol=1e-8, atol=1e-11 * sc_, equal_nan=True) | tie
                    if opn == 'divide':
                        with np.errstate(all='ignore'):
                            okv = okv | (np.abs(v1 - v2) <= 1e-11 * ma_ / np.maximum(np.abs(ib_), 1e-300))
                    same = bool(np.all(okv))
                    if not same:
                        kbad = int(np.argmin(okv))
                        where = {'at_nm': float(gnm[kbad]), 'index': kbad, 'v1': float(v1[kbad]), 'v2': float(v2[kbad]),
                                 'a': float(ia_[kbad]), 'b': float(ib_[kbad]), 'ends_nm': [float(wa[0]), float(wa[-1]), float(wb[0]), float(wb[-1])]}
                ctx.check(same, 'unit-agnostic', f'unit|{label}',
                          'the outcome depends on the wavelength unit in which the operands are expressed',
                          dict(desc, units=[x, y], n=[len(gnm), len(g2)], where=where if not same and len(g2) == len(gnm) else None))
                for nm_, obj, (w0, v0) in (('left', A2, (wa, va)), ('right', B2, (wb, vb))):
                    w2, v2_ = phys(obj)
                    ctx.check(w2.shape == w0.shape and np.allclose(w2, w0, rtol=1e-12) and np.allclose(v2_, v0, rtol=1e-12),
                              'operands-physically-unchanged', f'unit|operand-changed|{nm_}',
                              'an operand no longer describes the same physical spectrum', dict(desc, units=[x, y]))

    # ---- per-wavelength densities in mixed units: add / subtract describe the same physical sum -----------------------
    for i in range(n // 3):
        (a0, a1), (b0, b1) = pair(rng, rels[i % 4])
        wa = make_grid(rng, a0, a1, int(rng.integers(3, 30)), bool(rng.random() < 0.5))
        wb = make_grid(rng, b0, b1, int(rng.integers(3, 30)), bool(rng.random() < 0.5))
        va, vb = rng.uniform(0.1, 2, size=len(wa)), rng.uniform(0.1, 2, size=len(wb))
        vu = sm.FLUX[int(rng.integers(0, 3))]
        x, y = units[int(rng.integers(0, 4))], units[int(rng.integers(0, 4))]
        opn = ['add', 'subtract'][i % 2]
        # step chosen so that range/step is not an integer (the ceil() tie is not what is being looked at)
        rngspan = max(wa[-1], wb[-1]) - min(wa[0], wb[0])
        step = rngspan / (int(rng.integers(5, 40)) + 0.37)
        desc = {'density': vu, 'op': opn, 'units': [x, y], 'rel': rels[i % 4], 'step_nm': step}
        ctx.case(desc, ['density', f'unit:{x}', f'op:{opn}'] + (['unit:mixed'] if x != y else []))
        A0, B0 = in_unit(R, wa, va, 'nm', vu), in_unit(R, wb, vb, 'nm', vu)
        A1, B1 = in_unit(R, wa, va, x, vu), in_unit(R, wb, vb, y, vu)
        try:
            r0 = getattr(A0, opn)(B0, sampling=step)
            r1 = getattr(A1, opn)(B1, sampling=step * sm.wave_factor('nm', x))
        except Exception as e:
            ctx.check(False, 'unit-agnostic', f'unit|density|raises={type(e).__name__}', str(e), desc)
            continue
        w0, v0 = phys(r0)
        w1, v1 = phys(r1)
        same = len(w0) == len(w1) and np.allclose(w0, w1, rtol=1e-9, atol=0)
        if same:
            tie = np.zeros(len(w0), bool)
            for e_ in (wa[0], wa[-1], wb[0], wb[-1]):
                tie |= (np.abs(w0 - e_) <= 1e-9 * e_) & (np.abs(w0 - e_) > sm.NOMINAL * e_)
            same = bool(np.all(np.isclose(v0, v1, rtol=1e-8, atol=1e-11 * float(np.max(np.abs(v0)))) | tie))
        ctx.check(same, 'unit-agnostic', 'unit|density' + ('|mixed' if x != y else ''),
                  'the sum of two per-wavelength densities depends on the wavelength units the operands are expressed in', desc)

    # ---- value updates between operations: a result must reflect the operand's current values --------------------------
    for i in range(n // 4):
        (a0, a1), (b0, b1) = pair(rng, rels[i % 4])
        wa = make_grid(rng, a0, a1, int(rng.integers(3, 25)), True)
        wb = make_grid(rng, b0, b1, int(rng.integers(3, 25)), True)
        unit = units[int(rng.integers(0, 4))]
        A = in_unit(R, wa, rng.uniform(0.1, 2, size=len(wa)), unit, 'photlam' if i % 3 == 0 else None)
        B = in_unit(R, wb, rng.uniform(0.1, 2, size=len(wb)), unit, 'photlam' if i % 3 == 0 else None)
        ctx.case({'update-sequence': i, 'unit': unit}, ['update-sequence'])
        try:
            with np.errstate(all='ignore'):
                A * B                                           # online oracle
                A.sample(np.asarray(A.wave)[:2], waveunit=unit)
                A.value = np.asarray(A.value) * rng.uniform(0.2, 3, size=len(wa))      # value-only update
                A * B                                           # online oracle compares with the *current* values
                B.value = rng.uniform(0.1, 2, size=len(wb))
                A + B
                if i % 3 == 0:
                    A.to('wlam')
                    B.to('wlam')
                    A + B
        except Exception as e:
            ctx.check(False, 'value=op(interp)', f'update-sequence|raises={type(e).__name__}', str(e), {'unit': unit})

    # ---- a narrow, finely sampled line against a broad, coarsely sampled continuum: more than a million common-grid samples, and
    # still "the finer sampling" (online oracle decides grid and values) ---------------------------------------------------
    for i in range(2 if ctx.shard % 4 == 0 else 0):
        lo, hi = float(rng.uniform(250, 400)), float(rng.uniform(2300, 2600))
        step = float(rng.uniform(0.0015, 0.002))
        c0 = float(rng.uniform(600, 1800))
        wl_line = c0 + step * np.arange(int(rng.integers(5, 40)))
        line = R.Spectrum(wl_line, rng.uniform(0.5, 2, size=wl_line.size))
        cont = R.Spectrum(np.array([lo, 0.5 * (lo + hi), hi]), rng.uniform(0.5, 2, size=3))
        ctx.case({'huge-grid': [lo, hi, step], 'order': i}, ['grid:huge'])
        try:
            (line * cont) if i == 0 else cont.add(line, sampling='min')
        except MemoryError:
            ctx.skip('huge grid: not enough memory')
        except Exception as e:
            ctx.check(False, 'grid', f'huge-grid|raises={type(e).__name__}', str(e), {'step': step})

    # ---- scalars and vectors ---------------------------------------------------------------------------
    for i in range(n // 2):
        na = int(rng.integers(2, 30))
        wa = make_grid(rng, 400, 900, na, bool(rng.random() < 0.5))
        va = rng.uniform(0.1, 2, size=na)
        unit = units[int(rng.integers(0, 4))]
        A = in_unit(R, wa, va, unit)
        opn = list(OPS)[int(rng.integers(0, 5))]
        kind = int(rng.integers(0, 4))
        other = [float(rng.uniform(0.5, 3)), int(rng.integers(1, 4)), rng.uniform(0.5, 2, size=na),
                 list(rng.uniform(0.5, 2, size=na))][kind]
        if kind < 2 and i % 3 == 0:
            # a scalar is a scalar whatever type carries it: the result of arr.sum(), a float32 gain, a 0-d array
            other = [np.int64(int(rng.integers(1, 4))), np.float32(1.5), np.float64(other), np.array(float(other)), np.uint8(3),
                     np.int32(2)][(i // 3) % 6]
            ctx.bucket('scalar:numpy-type')
        if i % 7 == 3:
            # values held in single / half precision, large or small enough that the operation leaves the narrow type's range or
            # loses its digits: the operation is on the numbers, in double precision (as the Spectrum-Spectrum path does)
            dt = [np.float32, np.float16][(i // 7) % 2]
            va = (rng.uniform(0.5, 1.0, size=na) * (3e4 if dt is np.float16 else 1e30)).astype(dt)
            A = in_unit(R, wa, va, unit)
            other = [2.0, 1e10, 7, va.astype(float)][int(rng.integers(0, 4))] if dt is np.float32 else [2.0, 100.0, 3, va.astype(float)][int(rng.integers(0, 4))]
            opn = ['multiply', 'add', 'power', 'multiply', 'divide'][int(rng.integers(0, 5))] if not isinstance(other, np.ndarray) else ['add', 'multiply'][i % 2]
            if opn == 'power':
                other = 2
            kind = 2 if isinstance(other, np.ndarray) else 0
            ctx.bucket('scalar:narrow-float-values')
        if i % 7 == 5:
            # integer-typed value tables (hand-typed transmissions, 8-bit data): the operation is on the numbers they hold
            dt = [np.int64, np.uint8, np.int8, np.int32, np.bool_][(i // 7) % 5]
            va = rng.integers(1, 10, size=na).astype(dt) if dt in (np.int64, np.int32) else rng.integers(60, 120, size=na).astype(dt)
            other = [2, -1, 100, 3.5, va.copy()][int(rng.integers(0, 5))]
            if dt is np.bool_:
                # a pass band held as True / False (wave >= 500): still the numbers 1 and 0
                va = rng.random(na) < 0.6
                va[int(rng.integers(0, na))] = True
                other = [True, 2, va.copy(), 3.5][int(rng.integers(0, 4))]
                if opn in ('divide', 'power') and isinstance(other, np.ndarray):
                    opn = ['add', 'subtract', 'multiply'][i % 3]
                ctx.bucket('scalar:boolean-values')
            A = in_unit(R, wa, va, unit)
            kind = 2 if isinstance(other, np.ndarray) else 0
            ctx.bucket('scalar:integer-values')
        ctx.case({'scalar-op': opn, 'kind': kind, 'n': na, 'unit': unit, 'type': type(other).__name__},
                 ['scalar' if kind < 2 else 'vector', f'op:{opn}'])
        try:
            if opn == 'multiply' and kind < 2 and rng.random() < 0.5:
                other * A               # __rmul__
            else:
                getattr(A, opn)(other)  # online oracle decides
        except Exception as e:
            if i % 7 != 5:      # (for integer-valued tables the online oracle has recorded the refusal)
                ctx.check(False, 'scalar-elementwise', f'scalar|raises={type(e).__name__}', str(e), {'op': opn, 'kind': kind, 'type': type(other).__name__})

    # ---- grids with decimal steps (400, 400.1, 400.2 ...): combining a spectrum with one on the identical grid is sample by sample
    for i in range(max(6, n // 12)):
        k = int(rng.integers(4, 60))
        step = float(rng.choice([0.1, 0.2, 0.3, 0.7, 0.05, 1e-3, 2.5e-4]))
        w = float(rng.integers(300, 900)) + step * np.arange(k)
        v1, v2 = rng.uniform(0.5, 2, size=k), rng.uniform(0.5, 2, size=k)
        ctx.case({'decimal-step-grid': step, 'n': k}, ['grid:decimal-step'])
        try:
            r = R.Spectrum(w.copy(), v1) + R.Spectrum(w.copy(), v2)        # online oracle: grid (step count) and values
            ctx.check(len(r.wave) == k and np.allclose(np.asarray(r.value, float), v1 + v2, rtol=1e-9), 'grid', 'grid|identical-decimal-grid',
                      'two spectra on the identical grid are not combined sample by sample (an extra grid point was added)',
                      {'step': step, 'n': [k, len(r.wave)]})
        except Exception as e:
            ctx.check(False, 'grid', f'grid|identical-decimal-grid|raises={type(e).__name__}', str(e), {'step': step})
    # ---- line profiles: the same identical-grid rule at a resolving power of 1e7 ... 3e8 (picometre steps at a micrometre, a laser
    # line, heterodyne spectra), in every wavelength unit: the differences of neighbouring wavelengths then carry a relative
    # rounding error of eps * lambda / step, which is not a reason to add a sample
    for i in range(max(8, n // 10)):
        k = int(rng.integers(11, 120))
        lam0 = float(rng.choice([532.0, 632.8, 852.3, 1064.0, 1550.0, 10600.0]))
        step = float(rng.choice([1e-4, 2e-4, 5e-4, 1e-3, 2e-3, 5e-5]))
        u = units[i % 4]
        f_ = sm.wave_factor('nm', u)
        w = (lam0 + step * np.arange(k)) * f_ if i % 2 else np.linspace(lam0, lam0 + step * (k - 1), k) * f_
        v1, v2 = rng.uniform(0.5, 2, size=k), rng.uniform(0.5, 2, size=k)
        ctx.case({'line-profile-grid': step, 'lambda': lam0, 'n': k, 'unit': u}, ['grid:line-profile'])
        try:
            r = R.Spectrum(w.copy(), v1, waveunit=u) * R.Spectrum(w.copy(), v2, waveunit=u)
            ctx.check(len(r.wave) == k and np.allclose(np.asarray(r.value, float), v1 * v2, rtol=1e-6), 'grid', 'grid|identical-line-profile-grid',
                      'two spectra on the identical (picometre-step) grid are not combined sample by sample (an extra grid point was added)',
                      {'step': step, 'lambda': lam0, 'unit': u, 'n': [k, len(r.wave)]})
        except Exception as e:
            ctx.check(False, 'grid', f'grid|identical-line-profile-grid|raises={type(e).__name__}', str(e), {'step': step})
    # ---- the same spectrum held in two units (the second copy converted by lentil itself): every sample of the union is
    # defined in both operands, in either order - including the first and the last one
    for i in range(max(8, n // 8)):
        lo_ = float(rng.integers(250, 1200))
        k = int(rng.integers(5, 60))
        step = float(rng.integers(1, 12))
        w = lo_ + step * np.arange(k)
        v = rng.uniform(0.5, 2, size=k)
        u1, u2 = [('nm', 'um'), ('nm', 'm'), ('um', 'nm'), ('nm', 'angstrom'), ('m', 'nm'), ('angstrom', 'um')][i % 6]
        ctx.case({'same-spectrum-two-units': [u1, u2], 'n': k, 'lo': lo_, 'step': step}, ['same-spectrum:two-units'])
        try:
            a = R.Spectrum(w.copy(), v.copy(), waveunit='nm')
            if u1 != 'nm':
                a.to(u1)
            b = a.copy()
            b.to(u2)
            opn = ['add', 'multiply'][i % 2]
            r1, r2 = getattr(a, opn)(b), getattr(b, opn)(a)
            want = 2 * v if opn == 'add' else v * v
            for lab, r in (('a.b', r1), ('b.a', r2)):
                rv = np.asarray(r.value, float)
                ok = len(rv) >= 2 and np.isclose(rv[0], want[0], rtol=1e-9) and np.isclose(rv[-1], want[-1], rtol=1e-9)
                ctx.check(ok, 'unit-agnostic', 'unit|same-spectrum|end-sample',
                          'combining a spectrum with its own copy in another wavelength unit loses the first or last sample '
                          '(the fill value is used where both operands are defined)',
                          {'units': [u1, u2], 'op': opn, 'order': lab, 'first': [float(rv[0]), float(want[0])],
                           'last': [float(rv[-1]), float(want[-1])], 'n': [k, len(rv)]})
        except Exception as e:
            ctx.check(False, 'unit-agnostic', f'unit|same-spectrum|raises={type(e).__name__}', str(e), {'units': [u1, u2]})
        # scalars on the left: 2 + s, sum([s, s]) - addition is commutative
        try:
            wl_ = w
            if (i // 9) % 2 and i % 9 != 2:     # (form 2, s + s, is a Spectrum-Spectrum operation: common grid)
                # a tabulated curve: fine steps around a feature, coarse steps in the wings
                wl_ = np.unique(np.concatenate([rng.uniform(w[0], w[-1], size=k - 2), [w[0], w[-1]]]))
                if len(wl_) != k or np.min(np.diff(wl_)) < 1e-6:
                    wl_ = w
                else:
                    ctx.bucket('scalar-on-the-left:nonuniform-grid')
            s0 = R.Spectrum(wl_.copy(), v.copy())
            cands = [lambda: 2 + s0, lambda: np.float64(1.5) + s0, lambda: sum([s0, s0]), lambda: 2 * s0,
                     lambda: 2 - s0, lambda: 1 / s0, lambda: 2 ** s0, lambda: np.float64(3) / s0, lambda: np.ones(len(v)) - s0]
            wants = [v + 2, v + 1.5, 2 * v, 2 * v, 2 - v, 1 / v, 2 ** v, 3 / v, 1 - v]
            q = i % 9
            rs = cands[q]()
            rv_ = np.asarray(rs.value, float)
            ctx.check(rv_.shape == wants[q].shape and np.allclose(rv_, wants[q], rtol=1e-12) and np.array_equal(np.asarray(rs.wave, float), wl_),
                      'commutative', 'commutative|scalar-on-the-left',
                      'scalar (op) spectrum differs from spectrum (op) scalar (element-wise on the unchanged wavelength grid)',
                      {'form': q, 'n': [len(wl_), int(rv_.size)], 'uniform': wl_ is w})
        except Exception as e:
            ctx.check(False, 'commutative', f'commutative|scalar-on-the-left|raises={type(e).__name__}', str(e), {'form': i % 9})
    # ---- Blackbody operands ------------------------------------------------------------------------------
    for i in range(max(6, n // 10)):
        unit = units[int(rng.integers(0, 4))]
        T = float(rng.uniform(2000, 9000))
        wnm = np.linspace(400, 1000, int(rng.integers(5, 40)))
        f = sm.wave_factor('nm', unit)
        bb = R.Blackbody(wnm * f, T, waveunit=unit, valueunit='photlam')
        wb = make_grid(rng, 500, 900, int(rng.integers(3, 20)), True)
        vb = rng.uniform(0.1, 1, size=len(wb))
        B = in_unit(R, wb, vb, unit)
        ctx.case({'blackbody': T, 'unit': unit, 'n': len(wnm)}, ['blackbody', f'unit:{unit}'])
        try:
            res = bb * B
        except Exception as e:
            ctx.check(False, 'value=op(interp)', f'blackbody|raises={type(e).__name__}', str(e), {'unit': unit})
            continue
        g = np.asarray(res.wave, float) * sm.wave_factor(res.waveunit, 'nm')
        inner = (g > wb[0] * (1 + 1e-9)) & (g < wb[-1] * (1 - 1e-9))
        # Planck photon radiance per <unit>: per metre * metres per unit
        planck = sm.planck_radiance_si(g * 1e-9, T) * (g * 1e-9) / (sm.H * sm.C) * sm.WAVE_M[unit]
        ref = planck * sm.interp_linear(g, wb, vb, 0.0)
        ctx.close('value=op(interp)', np.asarray(res.value, float)[inner], ref[inner], 1e-5, 'blackbody|value',
                  'Blackbody times spectrum is not Planck(w) times the interpolated spectrum', {'unit': unit, 'T': T},
                  scale=float(np.max(np.abs(ref[inner]))) if inner.any() else 1.0)
        # a spectrum that reaches beyond the range the Blackbody was built on: out there the Blackbody is not defined and takes
        # the fill value like any other operand (it is not extrapolated with Planck's law)
        wc = make_grid(rng, float(rng.uniform(250, 380)), float(rng.uniform(1050, 1400)), int(rng.integers(4, 20)), True)
        vc = rng.uniform(0.1, 1, size=len(wc))
        Cs = in_unit(R, wc, vc, unit)
        fillv = 0 if i % 2 else float(rng.uniform(0.5, 2))
        ctx.bucket('blackbody:narrower-than-operand')
        for order in ('bb-first', 'bb-second'):
            try:
                if order == 'bb-first':
                    r_add, r_mul = bb.add(Cs, fill_value=fillv), bb.multiply(Cs, fill_value=fillv)
                else:
                    r_add, r_mul = Cs.add(bb, fill_value=fillv), Cs.multiply(bb, fill_value=fillv)
            except Exception as e:
                ctx.check(False, 'value=op(interp)', f'blackbody|outside|raises={type(e).__name__}', str(e), {'unit': unit, 'order': order})
                continue
            for nm_, rr, opf in (('add', r_add, np.add), ('multiply', r_mul, np.multiply)):
                g2 = np.asarray(rr.wave, float) * sm.wave_factor(rr.waveunit, 'nm')
                outside = (g2 < wnm[0] * (1 - 1e-9)) | (g2 > wnm[-1] * (1 + 1e-9))
                # (the end samples of the other operand are ties after a unit conversion: in or out by one ulp)
                outside &= (np.abs(g2 - wc[0]) > 1e-9 * wc[0]) & (np.abs(g2 - wc[-1]) > 1e-9 * wc[-1])
                if not outside.any():
                    continue
                want = opf(fillv, sm.interp_linear(g2, wc, vc, fillv))
                ctx.close('value=op(interp)', np.asarray(rr.value, float)[outside], want[outside], 1e-9, f'blackbody|outside-range|{nm_}',
                          'outside the range a Blackbody was built on its operand value is not the fill value', {'unit': unit, 'order': order,
                                                                                                                 'fill': fillv},
                          scale=max(float(np.max(np.abs(want[outside]))), 1e-300))
