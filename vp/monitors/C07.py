"""C07 — Wavefront views agree with each other and planes act as pointwise phasors.

Online probes: Plane.multiply (every subclass reaches it through super()),
Pupil.multiply (focal-length hand-over), the Wavefront.field / .intensity
getters and Wavefront.insert.  Every wavefront any workload produces is
rendered with the independent canvas model and compared.
"""
import numpy as np

from vp import gen, probe, refmodels as rm
from vp import defaults
from vp import reuse
from vp import forms as argforms
from vp import corners

RULE = ('seeded generator: planes with amplitude/OPD each scalar or 2-D, mask None/2-D/3-D (disjoint segments), '
        'arrays 3..20 per side; wavefronts reached by chains of 1..3 planes and propagations (1..8 overlapping or '
        'disjoint fields); accumulation targets of any shape pre-filled with data, weights incl. 0 and negatives. '
        'distinct = distinct (plane attribute kinds, shapes, data hash, chain) descriptors; non-trivial = plane or '
        'wavefront with array data.')
ASSUMPTIONS = ['a plane with scalar amplitude, array OPD and no mask has no extent and is excluded (DESIGN.md C07)',
               'segment masks of one plane are pairwise disjoint']
PLAN = {'quick': {'gen': 8}, 'thorough': {'gen': 16, 'tests': 1, 'docs': 1}}
REQUIRED_BUCKETS = ['defaults', 'corners', 'reuse', 'forms', 'wf:many-fields', 'broadband', 'plane:reused', 'wf:chain-overlap', 'amp:scalar', 'amp:array', 'opd:scalar', 'opd:array', 'mask:none', 'mask:2d', 'mask:3d',
                    'amp:scalar+mask:array', 'wf:default', 'wf:chain', 'wf:multi-field', 'wf:overlapping-fields',
                    'plane:default', 'pixelscale:mismatch', 'pixelscale:mismatch:scalar-plane', 'insert:weight0', 'insert:negative', 'pupil:focal', 'outside-mask:non-finite', 'mask:narrow-float']
REQUIRED_ANCHORS = ['probe:Plane.multiply', 'probe:Pupil.multiply', 'probe:Wavefront.field',
                    'probe:Wavefront.intensity', 'probe:Wavefront.insert']
REQUIRED_ORACLES = ['multiply=phasor', 'multiply:meta', 'field=render', 'intensity=|field|^2', 'insert=weight*intensity',
                    'default-plane=identity', 'pixelscale-refused', 'pupil:focal_length']
TOL = 1e-12


def anchors(lentil):
    return [('_mul_pixelscale', lentil.plane._mul_pixelscale), ('_plane_slice', lentil.plane._plane_slice),
            ('field.reduce', lentil.field.reduce), ('field.insert', lentil.field.insert)]


def _fields(w):
    return [(f.data, f.offset) for f in w.data if f.data.size > 0]


def _origin_only(w):
    """Several fields that all consist of the single origin sample: lentil reserves that extent for
    merged constants (field._merge_shape), a degenerate 1x1 optic excluded from the domain."""
    fs = [f for f in w.data if f.data.ndim == 2 and f.data.size > 0]
    return len(fs) > 1 and all(f.data.shape == (1, 1) and tuple(int(x) for x in f.offset) == (0, 0) for f in fs)


def _as2(shape):
    try:
        t = tuple(int(x) for x in shape)
    except TypeError:
        return None
    return t if len(t) == 2 else None


def plane_phasor(plane, wavelength):
    """Independent evaluation of amplitude*exp(2 pi i opd / wavelength)*mask on the plane's grid.
    Returns (P, shape) — P scalar complex when the plane has no extent — or None when outside the domain."""
    amp = np.asarray(plane.amplitude)
    opd = np.asarray(plane.opd)
    mask = np.asarray(plane.mask)
    if mask.ndim < 2:
        if amp.ndim >= 2 or opd.ndim >= 2:
            return None
        m = 1.0 if complex(mask.ravel()[0]) != 0 else 0.0
        return complex(amp.ravel()[0]) * np.exp(2j * np.pi * complex(opd.ravel()[0]).real / wavelength) * m, ()
    if mask.ndim == 3:
        g = (mask != 0).sum(axis=0)
        if g.max() > 1:
            return None
        for seg in mask:
            if not (seg != 0).any():
                return None
    else:
        g = (mask != 0).astype(float)
        if not g.any():
            return None
    S = g.shape
    if amp.ndim >= 2 and amp.shape != S:
        return None
    if opd.ndim >= 2 and opd.shape != S:
        return None
    A = np.broadcast_to(amp, S)
    O = np.broadcast_to(opd, S)
    # (in double precision whatever the type the plane's arrays are held in: a float32 OPD map is a set of numbers, not an
    # instruction to evaluate the phasor in single precision)
    A = np.asarray(A, dtype=complex if np.iscomplexobj(A) else float)
    O = np.asarray(O, dtype=float)
    # (zero outside the mask whatever the arrays hold there: NaN / inf fill values of measured maps included)
    with np.errstate(all='ignore'):
        return np.where(g != 0, A * np.exp(2j * np.pi * O / float(wavelength)), 0), S


def multiply_before(ctx, args, kwargs):
    return None


def multiply_oracle(ctx, args, kwargs, result, exc, pre):
    plane, w = args[0], args[1]
    if not hasattr(w, 'data'):
        return
    wl = w.wavelength
    wit = {'plane': type(plane).__name__, 'amp': list(np.shape(plane.amplitude)), 'opd': list(np.shape(plane.opd)),
           'mask': list(np.shape(plane.mask)), 'w_shape': list(_as2(w.shape) or ()),
           'nfields': len(w.data)}
    a_ps, b_ps = plane.pixelscale, w.pixelscale
    mismatch = (a_ps is not None and b_ps is not None and
                not (a_ps[0] == b_ps[0] and a_ps[1] == b_ps[1]))
    if exc is not None:
        if isinstance(exc, TypeError):
            ctx.skip('multiply: refused on plane type (C08)')
            return
        if isinstance(exc, ValueError) and mismatch:
            ctx.check(True, 'pixelscale-refused', 'multiply|pixelscale', 'ok')
            return
        ctx.check(False, 'multiply=phasor', f'multiply|raises={type(exc).__name__}',
                  f'Plane.multiply raised {type(exc).__name__}: {exc}', wit)
        return
    if mismatch:
        ctx.check(False, 'pixelscale-refused', 'multiply|pixelscale-accepted',
                  'planes with inconsistent pixel scales were multiplied', dict(wit, a=a_ps, b=list(b_ps)))
        return
    pp = plane_phasor(plane, wl)
    if pp is None:
        ctx.skip('multiply: plane outside the domain (no extent / overlapping segments / shape mismatch)')
        return
    P, S = pp
    # metadata
    exp_ps = a_ps if a_ps is not None else b_ps
    got_ps = result.pixelscale
    ok_ps = (exp_ps is None and got_ps is None) or (exp_ps is not None and got_ps is not None and
                                                     tuple(float(x) for x in exp_ps) == tuple(float(x) for x in got_ps))
    ctx.check(result.wavelength == wl and ok_ps and result.focal_length == w.focal_length,
              'multiply:meta', 'multiply|meta',
              'Plane.multiply changed the wavelength / focal length or mis-reconciled the pixel scale',
              dict(wit, wl=[wl, result.wavelength], ps=[exp_ps, got_ps], f=[w.focal_length, result.focal_length]))
    exp_shape = tuple(S) if S != () else (_as2(w.shape) or ())
    ctx.check((_as2(result.shape) or ()) == exp_shape, 'multiply:meta', 'multiply|shape',
              'wavefront did not take the plane shape (or keep its own for a shapeless plane)',
              dict(wit, got=list(result.shape), want=list(exp_shape)))
    scal_in = [complex(f.data.ravel()[0]) for f in w.data if f.data.ndim == 0]
    arr_in = [(f.data, f.offset) for f in w.data if f.data.ndim == 2 and f.data.size > 0]
    if S == ():
        # shapeless plane: every field is scaled by the constant phasor
        if len(result.data) != len([f for f in w.data if f.data.size > 0]):
            ctx.check(False, 'multiply=phasor', 'multiply|scalar-plane|count',
                      'shapeless plane changed the number of fields', wit)
            return
        ok = True
        worst = 0.0
        for fi, fo in zip([f for f in w.data if f.data.size > 0], result.data):
            ref = fi.data * P
            if fo.data.shape != ref.shape or not np.array_equal(np.asarray(fo.offset, int), np.asarray(fi.offset, int)):
                ok = False
                break
            d = float(np.max(np.abs(fo.data - ref))) if ref.size else 0.0
            worst = max(worst, d / max(float(np.max(np.abs(ref))) if ref.size else 0, 1e-300))
        ctx.check(ok and worst <= TOL, 'multiply=phasor', 'multiply|scalar-plane',
                  'shapeless plane did not multiply every field by amplitude*exp(2 pi i opd/wavelength)',
                  dict(wit, worst=worst))
        return
    E = (rm.render(arr_in, S) + sum(scal_in)) * P
    got = rm.render(_fields(result), S)
    scale = max(float(np.max(np.abs(E))), float(np.max(np.abs(got))) if got.size else 0.0, 1e-300)
    masked = 'amp:scalar+mask' if np.ndim(plane.amplitude) < 2 else 'amp:array'
    ctx.close('multiply=phasor', got, E, TOL, f'multiply|value|{masked}',
              'field after the plane is not field*amplitude*exp(2 pi i opd/wavelength) inside the mask and 0 outside',
              wit, scale=scale)
    # nothing may land outside the plane's array
    stray = 0
    reg = rm.bbox_of([(S, (0, 0))])
    fl = [(f.data, f.offset) for f in result.data if f.data.ndim == 2 and f.data.size > 0]
    if fl:
        bb = rm.bbox_of([(d.shape, o) for d, o in fl] + [(S, (0, 0))])
        if bb != reg:
            full = np.abs(rm.dense([(np.abs(d), o) for d, o in fl], bb))
            inside = rm.dense([(np.ones(S), (0, 0))], bb).real > 0
            stray = int(np.count_nonzero(full[~inside]))
    ctx.check(stray == 0, 'multiply=phasor', 'multiply|outside-plane', 'non-zero field outside the plane array', wit)


def pupil_oracle(ctx, args, kwargs, result, exc, pre):
    plane, w = args[0], args[1]
    if exc is not None or not hasattr(result, 'focal_length'):
        return
    ctx.check(result.focal_length == plane.focal_length, 'pupil:focal_length', 'pupil|focal_length',
              "wavefront did not take the pupil's focal length",
              {'pupil': plane.focal_length, 'wavefront': result.focal_length})
    ctx.bucket('pupil:focal')


def field_oracle(ctx, args, kwargs, result, exc, pre):
    w = args[0]
    S = _as2(w.shape)
    if S is None or any(f.data.ndim != 2 for f in w.data):
        ctx.skip('field: shapeless wavefront')
        return
    wit = {'shape': list(S), 'fields': [[list(f.data.shape), [int(x) for x in f.offset]] for f in w.data]}
    if exc is not None:
        ctx.check(False, 'field=render', f'field|raises={type(exc).__name__}', str(exc), wit)
        return
    ref = rm.render(_fields(w), S)
    ctx.close('field=render', result, ref, TOL, 'field|value',
              'Wavefront.field is not the coherent sum of its fields placed at their offsets', wit,
              scale=max(float(np.max(np.abs(ref))) if ref.size else 0, 1e-300))


def intensity_oracle(ctx, args, kwargs, result, exc, pre):
    w = args[0]
    S = _as2(w.shape)
    if S is None or any(f.data.ndim != 2 for f in w.data):
        ctx.skip('intensity: shapeless wavefront')
        return
    wit = {'shape': list(S), 'fields': [[list(f.data.shape), [int(x) for x in f.offset]] for f in w.data]}
    if exc is not None and _origin_only(w):
        ctx.skip('intensity: several single-origin-sample fields (degenerate)')
        return
    if exc is not None:
        ctx.check(False, 'intensity=|field|^2', f'intensity|raises={type(exc).__name__}', str(exc), wit)
        return
    ref = np.abs(rm.render(_fields(w), S)) ** 2
    ctx.close('intensity=|field|^2', result, ref, TOL, 'intensity|value',
              'Wavefront.intensity differs from |field|^2', wit,
              scale=max(float(np.max(ref)) if ref.size else 0, 1e-300))
    with probe.quiet():
        fld = w.field
    ctx.close('intensity=|field|^2', result, np.abs(fld) ** 2, TOL, 'intensity|vs-field',
              'Wavefront.intensity differs from |Wavefront.field|^2', wit,
              scale=max(float(np.max(ref)) if ref.size else 0, 1e-300))
    ctx.check(bool(np.all(result >= 0)), 'intensity=|field|^2', 'intensity|negative', 'negative intensity', wit)


def winsert_before(ctx, args, kwargs):
    out = args[1] if len(args) > 1 else kwargs.get('out')
    return np.array(out, copy=True) if isinstance(out, np.ndarray) else None


def winsert_oracle(ctx, args, kwargs, result, exc, pre):
    w = args[0]
    out = args[1] if len(args) > 1 else kwargs.get('out')
    weight = args[2] if len(args) > 2 else kwargs.get('weight', 1)
    if pre is None or out.ndim != 2 or any(f.data.ndim != 2 for f in w.data):
        return
    wit = {'out': list(out.shape), 'weight': weight,
           'fields': [[list(f.data.shape), [int(x) for x in f.offset]] for f in w.data]}
    if exc is not None and _origin_only(w):
        ctx.skip('insert: several single-origin-sample fields (degenerate)')
        return
    if exc is not None:
        ctx.check(False, 'insert=weight*intensity', f'winsert|raises={type(exc).__name__}', str(exc), wit)
        return
    ref = pre + weight * np.abs(rm.render(_fields(w), out.shape)) ** 2
    ctx.close('insert=weight*intensity', result, ref, TOL, 'winsert|value',
              'Wavefront.insert did not add weight*intensity and nothing else', wit,
              scale=max(float(np.max(np.abs(ref))) if ref.size else 0, float(np.max(np.abs(pre))) if pre.size else 0, 1e-300))
    ctx.check(result is out, 'insert=weight*intensity', 'winsert|identity',
              'Wavefront.insert did not return the array it was given', wit)


multiply_oracle.before = multiply_before
winsert_oracle.before = winsert_before


def install(ctx, lentil):
    probe.wrap_method(lentil.plane.Plane, 'multiply', multiply_oracle, ctx)
    probe.wrap_method(lentil.plane.Pupil, 'multiply', pupil_oracle, ctx)
    W = lentil.wavefront.Wavefront
    probe.wrap_property(W, 'field', field_oracle, ctx)
    probe.wrap_property(W, 'intensity', intensity_oracle, ctx)
    probe.wrap_method(W, 'insert', winsert_oracle, ctx)


# ---------------------------------------------------------------------------

def make_plane(ctx, lentil, rng, shape, wl, cls=None, pixelscale=None, force=None):
    """Random plane with every attribute-kind combination.  Returns (plane, kinds dict)."""
    cls = cls or lentil.Plane
    ak = force.get('amp') if force else None
    ak = ak or ('scalar' if rng.random() < 0.3 else 'array')
    ok = (force or {}).get('opd') or ('scalar' if rng.random() < 0.35 else 'array')
    mk = (force or {}).get('mask') or ['none', '2d', '3d'][int(rng.integers(0, 3))]
    sup = gen.support(rng, shape)
    if ak == 'scalar' and mk == 'none':
        ok = 'scalar'                      # scalar amp + array opd + no mask: no extent (excluded)
    amp = float(rng.uniform(0.3, 2.0)) if ak == 'scalar' else gen.amplitude(rng, sup)
    opd = float(rng.normal() * wl * 0.2) if ok == 'scalar' else gen.opd(rng, shape, wl)
    kw = {}
    if mk == '2d':
        m = sup if rng.random() < 0.7 else (sup & gen.support(rng, shape))
        if not m.any():
            m = sup
        # non-binary mask values are legal input (nonzero -> 1)
        kw['mask'] = np.where(m, rng.uniform(0.5, 3.0) if rng.random() < 0.3 else 1.0, 0.0)
    elif mk == '3d':
        segs, _ = gen.partition(rng, sup, int(rng.integers(1, 6)))
        kw['mask'] = segs.astype(float)
    if cls is lentil.Pupil:
        kw['focal_length'] = float(rng.uniform(0.5, 20))
    # arrays in single precision (the usual FITS type): same numbers, same plane, same double-precision phasor
    if rng.random() < 0.15:
        if isinstance(amp, np.ndarray):
            amp = amp.astype(np.float32)
        if isinstance(opd, np.ndarray) and rng.random() < 0.7:
            opd = opd.astype(np.float32)
        elif not isinstance(opd, np.ndarray):
            opd = float(np.float32(opd))
    # arrays in any memory layout (Fortran order, strided views): same values, same plane
    if 'mask' in kw:
        kw['mask'] = gen.layout(rng, kw['mask'], 0.2)
    amp = gen.layout(rng, amp, 0.2) if isinstance(amp, np.ndarray) else amp
    opd = gen.layout(rng, opd, 0.2) if isinstance(opd, np.ndarray) else opd
    plane = cls(amplitude=amp, opd=opd, pixelscale=pixelscale, **kw)
    return plane, {'amp': ak, 'opd': ok, 'mask': mk}


def _touch_views(ctx, lentil, rng, w):
    """Exercise the three views of a wavefront (probes decide)."""
    S = _as2(w.shape)
    if S is None:
        return
    nf = len([f for f in w.data if f.data.size > 0])
    if nf > 1:
        ctx.bucket('wf:multi-field')
        fl = [(np.ones(f.data.shape), f.offset) for f in w.data if f.data.ndim == 2 and f.data.size > 0]
        if fl and rm.dense(fl, rm.bbox_of([(d.shape, o) for d, o in fl])).real.max() > 1:
            ctx.bucket('wf:overlapping-fields')
    try:
        w.field
        w.intensity
    except Exception:
        return          # the probes have recorded it
    tshape = S if rng.random() < 0.5 else gen.rshape(rng, 1, max(S) + 6)
    out = rng.normal(size=tshape)
    weight = [1, 0, -1.5, 2.25, 1e-3][int(rng.integers(0, 5))]
    if weight == 0:
        ctx.bucket('insert:weight0')
    if weight < 0:
        ctx.bucket('insert:negative')
    try:
        w.insert(out, weight)
    except Exception:
        pass


def many_fields(ctx, lentil, rng):
    """A plane with more than a thousand one-pixel segments (a lenslet / MEMS-like mask): after propagation all the output
    chips overlap; the three views of the wavefront still agree (the probes decide)."""
    n = 34
    k = 1100 + int(rng.integers(0, 40))
    pix = rng.permutation(n * n)[:k]
    seg = np.zeros((k, n, n))
    seg[np.arange(k), pix // n, pix % n] = 1
    ctx.case({'many-fields': k}, ['wf:many-fields'])
    try:
        w = lentil.Wavefront(6e-7) * lentil.Pupil(amplitude=1, mask=seg, pixelscale=1e-3, focal_length=5.0)
        wi = lentil.propagate_dft(w, 5e-6, shape=(6, 7), oversample=1)
        f = wi.field
        inten = wi.intensity
        acc = wi.insert(np.zeros((6, 7)), 0.5)
        ctx.check(np.allclose(inten, np.abs(f) ** 2, rtol=1e-10, atol=1e-12 * float(inten.max())) and np.allclose(acc, 0.5 * inten, rtol=1e-12),
                  'intensity=|field|^2', 'many-fields|views', 'the views of a wavefront with more than a thousand overlapping fields disagree',
                  {'fields': len(wi.data)})
    except Exception as e:
        ctx.check(False, 'intensity=|field|^2', f'many-fields|raises={type(e).__name__}', f'{type(e).__name__}: {str(e)[:120]}', {'fields': k})


def workload(ctx, lentil):
    defaults.run(ctx, lentil, 'C07', 'multiply=phasor')
    reuse.run(ctx, lentil, 'C07', 'multiply=phasor')
    argforms.run(ctx, lentil, 'C07', 'multiply=phasor')
    corners.run(ctx, lentil, 'C07', 'multiply=phasor')
    rng = ctx.rng
    if ctx.shard % 4 == 0:
        many_fields(ctx, lentil, rng)
    n = ctx.count(130, 900)
    hi = 20 if ctx.tier == 'quick' else 40
    for i in range(n):
        wl = float(rng.uniform(400e-9, 1500e-9))
        shape = gen.rshape(rng, 3, hi)
        ps = float(rng.uniform(1e-3, 5e-3)) if rng.random() < 0.7 else None
        chain = int(rng.integers(1, 4))
        w = lentil.Wavefront(wl)
        desc = {'wl': wl, 'shape': list(shape), 'chain': []}
        buckets = ['wf:default']
        for c in range(chain):
            cls = lentil.Pupil if (c == 0 and rng.random() < 0.5) else lentil.Plane
            if cls is lentil.Pupil and w.ptype != lentil.none and w.ptype != lentil.pupil:
                cls = lentil.Plane
            if cls is lentil.Plane and w.ptype != lentil.none:
                # base planes (ptype none) only multiply type-none wavefronts: keep using pupils
                cls = lentil.Pupil
            plane, kinds = make_plane(ctx, lentil, rng, shape, wl, cls, ps)
            desc['chain'].append(dict(kinds, cls=cls.__name__, data=probe.fp_array(np.asarray(plane.amplitude))[:8]))
            buckets += [f'amp:{kinds["amp"]}', f'opd:{kinds["opd"]}', f'mask:{kinds["mask"]}']
            if kinds['amp'] == 'scalar' and kinds['mask'] in ('2d', '3d'):
                buckets.append('amp:scalar+mask:array')
            if c > 0:
                buckets.append('wf:chain')
            try:
                w = plane.multiply(w) if rng.random() < 0.5 else (w * plane)   # probes decide
            except Exception:
                break
        ctx.case(desc, buckets)
        _touch_views(ctx, lentil, rng, w)

        # propagate a pupil wavefront (gives one output field per input field -> overlapping fields)
        if w.ptype == lentil.pupil and ps is not None and i % 2 == 0:
            du = float(rng.uniform(3e-6, 2e-5))
            oshape = gen.rshape(rng, 3, 14)
            try:
                w2 = lentil.propagate_dft(w, du, shape=oshape, oversample=int(rng.integers(1, 3)))
            except Exception:
                w2 = None
            if w2 is not None:
                _touch_views(ctx, lentil, rng, w2)
                img = lentil.Image(amplitude=gen.amplitude(rng, np.ones(w2.shape, bool)))
                w3 = w2 * img
                _touch_views(ctx, lentil, rng, w3)

    # wavefronts with many fields that overlap in chains (A-B and B-C overlap, A-C do not), two routes:
    # (a) assembled from Field objects, (b) segmented pupil with per-segment fitted tilts and a small propagation window
    Field = lentil.field.Field
    for i in range(max(20, n // 3)):
        wl = float(rng.uniform(400e-9, 1500e-9))
        S = gen.rshape(rng, 8, 30)
        k = int(rng.integers(3, 9))
        w = lentil.Wavefront.empty(wavelength=wl, pixelscale=5e-6, shape=S, ptype=lentil.image)
        r, c = int(rng.integers(-S[0] // 2, 1)), int(rng.integers(-S[1] // 2, 1))
        descf = []
        for j in range(k):
            fs = (int(rng.integers(2, 7)), int(rng.integers(2, 7)))
            # step by a bit less than the field size most of the time -> neighbours overlap, non-neighbours do not
            r += int(rng.integers(0, fs[0] + 1)) * int(rng.choice([1, 1, 0]))
            c += int(rng.integers(1, fs[1] + 2))
            descf.append([list(fs), [r, c]])
            w.data.append(Field(rng.normal(size=fs) + 1j * rng.normal(size=fs), pixelscale=5e-6, offset=[r, c]))
        if rng.random() < 0.5:
            order = rng.permutation(k)
            w.data = [w.data[int(q)] for q in order]
        ctx.case({'assembled': descf, 'shape': list(S)}, ['wf:chain-overlap'])
        _touch_views(ctx, lentil, rng, w)
    for i in range(max(12, n // 6)):
        wl, z, dx, du, os_ = gen.optics(rng, aniso_p=0.3)
        dus = np.broadcast_to(np.asarray(du, float), (2,))
        dxs = np.broadcast_to(np.asarray(dx, float), (2,))
        shape = gen.rshape(rng, 8, 18)
        A = gen.support(rng, shape, kind=int(rng.choice([0, 1, 4])))
        if A.sum() < 12:
            A = np.ones(shape, bool)
        segs, _ = gen.partition(rng, A, int(rng.integers(3, 6)))
        oshape = gen.rshape(rng, 10, 20)
        S = (oshape[0] * os_, oshape[1] * os_)
        opd = np.zeros(shape)
        rr = (np.arange(shape[0]) - shape[0] // 2)[:, None]
        cc = (np.arange(shape[1]) - shape[1] // 2)[None, :]
        for sg in segs:
            sp = rng.uniform(-0.3, 0.3, size=2) * np.array(S)
            tx, ty = sp[0] * dus[0] / (z * os_), -sp[1] * dus[1] / (z * os_)
            opd = opd + (tx * rr * dxs[0] - ty * cc * dxs[1]) * sg
        ctx.case({'segmented-tilts': len(segs), 'shape': list(shape), 'out': list(oshape), 'os': os_}, ['wf:chain-overlap'])
        try:
            pl = lentil.Pupil(amplitude=gen.amplitude(rng, A), opd=opd, mask=segs.astype(float), pixelscale=dx, focal_length=z).fit_tilt()
            ps = (max(1, oshape[0] // int(rng.integers(2, 5))), max(1, oshape[1] // int(rng.integers(2, 5))))
            w2 = lentil.propagate_dft(lentil.Wavefront(wl) * pl, du, shape=oshape, prop_shape=ps, oversample=os_)
        except Exception:
            continue
        _touch_views(ctx, lentil, rng, w2)

    # one plane object used repeatedly while its arrays are edited in place between uses (and through a subclass that
    # computes its amplitude from state): the phasor must always be the one of the plane's *current* attributes
    class Shutter(lentil.Pupil):
        def __init__(self, base, **kw):
            super().__init__(**kw)
            self._base = base
            self.open_fraction = 1.0

        @property
        def amplitude(self):
            cut = int(round(self._base.shape[1] * self.open_fraction))
            a = self._base.copy()
            a[:, cut:] = 0
            return a

    for i in range(max(15, n // 5)):
        wl = float(rng.uniform(400e-9, 1500e-9))
        shape = gen.rshape(rng, 5, 16)
        A = np.ones(shape, bool) if rng.random() < 0.5 else gen.support(rng, shape, kind=1)
        amp = gen.amplitude(rng, A) + 0.0
        opd = gen.opd(rng, shape, wl)
        kw = {}
        if rng.random() < 0.5:
            segs, _ = gen.partition(rng, A, int(rng.integers(2, 4)))
            kw['mask'] = segs.astype(float)
        else:
            kw['mask'] = A.astype(float)
        ctx.case({'reuse-plane': list(shape), 'seg': kw['mask'].ndim == 3}, ['plane:reused'])
        try:
            if i % 3 == 2:
                p = Shutter(amp.copy(), opd=opd, mask=kw['mask'], pixelscale=1e-3, focal_length=3.0)
                w0 = lentil.Wavefront(wl)
                p.multiply(w0)
                p.open_fraction = float(rng.uniform(0.2, 0.8))
                _touch_views(ctx, lentil, rng, p.multiply(w0))
            else:
                p = lentil.Pupil(amplitude=amp, opd=opd, pixelscale=1e-3, focal_length=3.0, **kw)
                w0 = lentil.Wavefront(wl)
                p.multiply(w0)                               # first use (online oracle)
                r = int(rng.integers(0, shape[0]))
                p.amplitude[r] *= 0.3                        # in-place edits of the plane's own arrays
                p.amplitude[:, :int(rng.integers(1, shape[1]))] *= 0.5
                p.multiply(w0)                               # online oracle compares with the current attributes
                p.opd[...] = p.opd * 0.5 + wl * 0.1
                _touch_views(ctx, lentil, rng, p.multiply(w0))
        except Exception as e:
            ctx.check(False, 'multiply=phasor', f'reuse|raises={type(e).__name__}', str(e), {'shape': list(shape)})

    # measured maps: NaN / inf (or a huge fill value) where there is no aperture, masks held in single / half precision with a scalar
    # amplitude: the field is the phasor inside the mask and exactly zero outside it (online oracle)
    for i in range(max(10, n // 8)):
        shape = gen.rshape(rng, 5, 16)
        A = gen.support(rng, shape, kind=int(rng.choice([0, 1, 3, 4])))
        if A.all():
            A[0, :] = False
        wl = float(rng.uniform(4e-7, 1e-6))
        opd = gen.opd(rng, shape, wl)
        amp = gen.amplitude(rng, A)
        kindf = i % 4
        seg = i % 3 == 0
        mask = gen.partition(rng, A, int(rng.integers(2, 4)))[0].astype(float) if seg else A.astype(float)
        desc = {'outside-mask': ['opd=nan', 'amp=inf', 'opd=1e30', 'narrow-mask'][kindf], 'shape': list(shape), 'seg': seg}
        ctx.case(desc, ['outside-mask:non-finite' if kindf < 3 else 'mask:narrow-float'])
        try:
            if kindf == 0:
                pl = lentil.Pupil(amplitude=amp if i % 2 else 1.0, opd=np.where(A, opd, np.nan), mask=mask, pixelscale=1e-3, focal_length=2.0)
            elif kindf == 1:
                pl = lentil.Pupil(amplitude=np.where(A, np.abs(amp) + 0.1, np.inf), opd=opd, mask=mask, pixelscale=1e-3, focal_length=2.0)
            elif kindf == 2:
                pl = lentil.Pupil(amplitude=amp, opd=np.where(A, opd, 1e30), mask=mask, pixelscale=1e-3, focal_length=2.0)
            else:
                pl = lentil.Pupil(amplitude=float(rng.uniform(0.3, 1.7)), opd=opd, mask=mask.astype([np.float32, np.float16][(i // 4) % 2]),
                                  pixelscale=1e-3, focal_length=2.0)
            with np.errstate(all='ignore'):
                wv = lentil.Wavefront(wl) * pl                  # online oracle
                _touch_views(ctx, lentil, rng, wv)
        except Exception as e:
            ctx.check(False, 'multiply=phasor', f'outside-mask|raises={type(e).__name__}', str(e), desc)

    # broadband loops: the same plane objects meet wavefronts of different wavelengths one after the other (and again the
    # first wavelength at the end); argument forms of pixelscale (float, tuple, list, ndarray)
    for i in range(max(10, n // 8)):
        shape = gen.rshape(rng, 4, 14)
        A = gen.support(rng, shape)
        forms = [2e-3, (2e-3, 2e-3), [2e-3, 2e-3], np.array([2e-3, 2e-3])]
        kwm = {'mask': gen.partition(rng, A, 3)[0].astype(float)} if rng.random() < 0.5 else {}
        p1 = lentil.Pupil(amplitude=gen.amplitude(rng, A), opd=gen.opd(rng, shape, 6e-7), pixelscale=forms[i % 4], focal_length=4.0, **kwm)
        p2 = lentil.Pupil(amplitude=float(rng.uniform(0.5, 1.5)), opd=float(rng.normal() * 1e-7), focal_length=4.0)
        wls = [float(x) for x in rng.uniform(4e-7, 1.6e-6, size=4)]
        ctx.case({'broadband': wls, 'shape': list(shape), 'ps_form': i % 4}, ['broadband'])
        for wl in wls + wls[:1]:
            try:
                w = lentil.Wavefront(wl) * p1 * p2
                _touch_views(ctx, lentil, rng, w)
            except Exception as e:
                ctx.check(False, 'multiply=phasor', f'broadband|raises={type(e).__name__}', str(e), {'wl': wl})

    # default plane changes nothing
    for i in range(max(10, n // 6)):
        wl = float(rng.uniform(400e-9, 1500e-9))
        shape = gen.rshape(rng, 3, 16)
        plane, kinds = make_plane(ctx, lentil, rng, shape, wl, lentil.Plane, None,
                                  force={'amp': 'array', 'mask': ['none', '2d', '3d'][i % 3]})
        w0 = plane * lentil.Wavefront(wl)
        ctx.case({'default-plane-after': kinds, 'shape': list(shape)}, ['plane:default'])
        with probe.quiet():
            f0 = w0.field
        w1 = lentil.Plane() * w0
        with probe.quiet():
            f1 = w1.field
        ctx.check(np.array_equal(f0, f1) and w1.wavelength == w0.wavelength and tuple(w1.shape) == tuple(w0.shape)
                  and w1.focal_length == w0.focal_length and w1.ptype == w0.ptype,
                  'default-plane=identity', 'default-plane', 'a plane with default attributes changed the wavefront',
                  {'shape': list(shape)})
        wd = lentil.Plane() * lentil.Wavefront(wl)
        ctx.check(wd.data[0].data.size == 1 and complex(wd.data[0].data) == 1 and wd.shape == (),
                  'default-plane=identity', 'default-plane|default-wavefront',
                  'default plane times default wavefront is not the unit plane wave', {})

    # inconsistent pixel scales are refused, operands unchanged
    for i in range(max(10, n // 6)):
        wl = 600e-9
        shape = gen.rshape(rng, 3, 12)
        ps1 = float(rng.uniform(1e-3, 5e-3))
        kind = i % 3
        ps2 = ps1 * (1 + 10 ** float(rng.uniform(-9, 0))) if kind == 0 else \
            ((ps1, ps1 * 1.5) if kind == 1 else (ps1 * 0.5, ps1))
        p1, _ = make_plane(ctx, lentil, rng, shape, wl, lentil.Pupil, ps1, force={'amp': 'array'})
        p2, _ = make_plane(ctx, lentil, rng, shape, wl, lentil.Pupil, ps2, force={'amp': 'array'})
        w = lentil.Wavefront(wl) * p1
        ctx.case({'pixelscale-mismatch': [ps1, ps2], 'shape': list(shape)}, ['pixelscale:mismatch'])
        fw, fp = probe.fingerprint(w), probe.fingerprint(p2)
        e = ctx.expect_raises('pixelscale-refused', (ValueError,), lambda: p2.multiply(w),
                              'pixelscale|refusal', 'planes with inconsistent pixel scales were not refused',
                              {'ps': [ps1, ps2]})
        ctx.check(probe.fingerprint(w) == fw and probe.fingerprint(p2) == fp, 'pixelscale-refused',
                  'pixelscale|operands-changed', 'a refused multiplication changed an operand', {'ps': [ps1, ps2]})
        # planes without extent (all attributes scalar) that state a pixel scale of their own are planes like any other
        sk = i % 4
        scalar_plane = [lambda: lentil.Pupil(amplitude=0.5, pixelscale=ps2, focal_length=1.0),
                        lambda: lentil.Pupil(pixelscale=ps2, focal_length=2.0),
                        lambda: lentil.Tilt(x=1e-6, y=2e-6, pixelscale=ps2),
                        lambda: lentil.Pupil(opd=1e-8, pixelscale=ps2, focal_length=1.0)][sk]()
        ctx.bucket('pixelscale:mismatch:scalar-plane')
        ctx.expect_raises('pixelscale-refused', (ValueError,), lambda: scalar_plane.multiply(w),
                          f'pixelscale|refusal|scalar-plane', 'a plane without extent but with an inconsistent pixel scale was not refused',
                          {'ps': [ps1, ps2], 'plane': ['Pupil(amplitude)', 'Pupil', 'Tilt', 'Pupil(opd)'][sk]})
        # ... while a consistent one is accepted and a wavefront without sampling adopts the plane's
        same = [lambda: lentil.Pupil(amplitude=0.5, pixelscale=ps1, focal_length=1.0), lambda: lentil.Pupil(pixelscale=ps1, focal_length=2.0),
                lambda: lentil.Tilt(x=1e-6, y=2e-6, pixelscale=ps1), lambda: lentil.Pupil(opd=1e-8, pixelscale=ps1, focal_length=1.0)][sk]()
        try:
            ok = same.multiply(w)
            fresh = scalar_plane.multiply(lentil.Wavefront(wl))
            want2 = tuple(np.broadcast_to(np.asarray(ps2, float), (2,)))
            ctx.check(tuple(np.asarray(ok.pixelscale, float)) == (ps1, ps1) and tuple(np.asarray(fresh.pixelscale, float)) == want2,
                      'multiply:meta', 'pixelscale|scalar-plane|adopted',
                      'pixel scale after a plane without extent is not the common / adopted one',
                      {'ps': [ps1, ps2], 'got': [None if ok.pixelscale is None else list(ok.pixelscale),
                                                 None if fresh.pixelscale is None else list(fresh.pixelscale)]})
        except Exception as e:
            ctx.check(False, 'multiply:meta', f'pixelscale|scalar-plane|raises={type(e).__name__}', str(e), {'ps': [ps1, ps2]})
