"""C11 — Zernike modes are the Noll-ordered orthonormal polynomials.

Independent models: the Noll enumeration written from its definition, radial polynomials from exact integer
coefficients, an exact quadrature on the unit disk (Gauss-Legendre in rho^2 x uniform theta) fed through the
caller-supplied (rho, theta) interface, and index-set geometry for the default coordinate system.
Online probe on zernike_index: every index any workload asks for is checked against the Noll table.
"""
import sys

import numpy as np
from numpy.polynomial.legendre import leggauss

from vp import gen, probe, refmodels as rm
from vp import defaults
from vp import reuse
from vp import forms as argforms
from vp import corners

RULE = ('Noll indices 1..231 (quick) / 1..1326 (thorough) enumerated completely for the index map; all mode pairs up to '
        'j=45 (quick) / 91 (thorough) plus random pairs up to the bound for the Gram matrix on an exact quadrature; random '
        'polar coordinates; random masks (off-centre, clipped, speckled) on even and odd arrays for the default coordinates. '
        'distinct = distinct (index | pair | mask hash) descriptors; non-trivial = index > 1 or mask with > 2 samples.')
ASSUMPTIONS = ['the sign of sine modes is not pinned by the property: +sin and -sin are both accepted (per mode)']
PLAN = {'quick': {'gen': 8}, 'thorough': {'gen': 16, 'tests': 1, 'docs': 1}}
REQUIRED_BUCKETS = ['defaults', 'corners', 'reuse', 'forms', 'index', 'value:normalized', 'value:unnormalized', 'gram:diag', 'gram:offdiag', 'coords:even', 'coords:odd',
                    'coords:offcentre', 'support-only', 'coords:shared', 'basis', 'compose:normalized', 'compose:unnormalized', 'theta:undefined-for-m=0', 'coords:narrow-float', 'value:high-order', 'coords:rho>1', 'coords:result-edited', 'zero-outside:overflow', 'coords:theta-only', 'index:type=uint64', 'index:type=int', 'value:index-type', 'coords:undefined-outside-mask', 'basis:weighted-mask']
REQUIRED_ANCHORS = ['probe:zernike_index', 'anchor:R', 'anchor:zernike', 'anchor:zernike_coordinates']
REQUIRED_ORACLES = ['index=noll', 'index:bijective', 'mode=textbook', 'R(1)=1', 'gram=I', '|Z|<=1', 'rho=centroid-distance',
                    'origin=centroid', 'zero-outside', 'support-only']


def zmod():
    return sys.modules['lentil.zernike']


def anchors(lentil):
    z = zmod()
    return [('R', z.R), ('zernike', z.zernike), ('zernike_coordinates', z.zernike_coordinates),
            ('centroid', lentil.util.centroid)]


_NOLL = rm.noll_table(2000)   # n up to 61


def index_oracle(ctx, args, kwargs, result, exc, pre):
    j = args[0] if args else kwargs.get('j')
    if not isinstance(j, (int, np.integer)) or j < 1 or j > 2000:
        return
    if exc is not None:
        ctx.check(False, 'index=noll', f'index|raises={type(exc).__name__}', str(exc), {'j': int(j)})
        return
    m, n = result
    n0, m0, par = _NOLL[int(j)]
    ok = (int(n) == n0 and abs(int(m)) == m0 and
          (m0 == 0 or (par == 'cos' and m > 0) or (par == 'sin' and m < 0)))
    ctx.check(ok, 'index=noll', 'index|value', 'zernike_index does not follow Noll\'s ordering (n, |m|, even j cosine / odd j sine)',
              {'j': int(j), 'got': [int(m), int(n)], 'noll': [n0, m0, par]})


def install(ctx, lentil):
    probe.wrap_function(zmod().zernike_index, index_oracle, ctx, 'zernike_index')


def ref_mode(j, rho, theta, normalize):
    n, m, par = _NOLL[j]
    return rm.zernike_value(n, m, par, rho, theta, normalize, sine_sign=+1, exact=True), par


def cmp_mode(ctx, key, what, got, ref, par, desc, tol=1e-10, scale=None):
    """Compare with the textbook mode; for sine modes either overall sign is accepted."""
    ref = np.asarray(ref)
    sc = scale if scale is not None else max(float(np.max(np.abs(ref))), 1.0)
    if par == 'sin':
        dp = float(np.max(np.abs(got - ref))) if ref.size else 0
        dm = float(np.max(np.abs(got + ref))) if ref.size else 0
        if dm < dp:
            ref = -ref
    return ctx.close('mode=textbook', got, ref, tol, key, what, desc, scale=sc)


def workload(ctx, lentil):
    defaults.run(ctx, lentil, 'C11', 'index=noll')
    reuse.run(ctx, lentil, 'C11', 'index=noll')
    argforms.run(ctx, lentil, 'C11', 'index=noll')
    corners.run(ctx, lentil, 'C11', 'index=noll')
    rng = ctx.rng
    Z = zmod()
    jmax = 231 if ctx.tier == 'quick' else 1326
    # ---- (i) index map, complete enumeration (sharded) ------------------------------------------
    seen = {}
    for j in range(1, jmax + 1):
        if j % ctx.nshards != ctx.shard:
            continue
        ctx.case({'index': j}, ['index'], nontrivial=j > 1)
        # the index arrives in whatever integer type the caller's loop produced (range, np.arange of any integer dtype, a
        # column of a table): every one of them names the same mode
        types = [int, np.int64, np.uint64, np.int16, np.uint32, np.intp, np.uint16, np.int32]
        jt = types[(j // max(ctx.nshards, 1)) % len(types)](j)
        ctx.bucket('index:type=' + type(jt).__name__)
        try:
            m, n = Z.zernike_index(jt)        # probe decides the value
        except Exception as e:
            ctx.check(False, 'index=noll', f'index|raises={type(e).__name__}|{type(jt).__name__}',
                      'a valid Noll index is refused because of the integer type it arrives in',
                      {'index': j, 'type': type(jt).__name__, 'error': repr(e)[:200]})
            continue
        seen[j] = (int(n), int(m))
    # bijectivity is decided over the whole range in one shard
    if ctx.shard == 0:
        with probe.quiet():
            allv = [tuple(int(v) for v in Z.zernike_index(j)) for j in range(1, jmax + 1)]
        ok = len(set(allv)) == len(allv) and all((n - abs(m)) % 2 == 0 and abs(m) <= n for m, n in allv)
        # every (n, signed m) with n <= nmax_complete appears
        nmax = max(n for m, n in allv) - 1
        want = {(s * m, n) for n in range(nmax + 1) for m in range(n % 2, n + 1, 2) for s in ((1, -1) if m else (1,))}
        ctx.check(ok and want <= set(allv), 'index:bijective', 'index|bijective',
                  'the index map is not one-to-one onto the (n, m) pairs with n-|m| even and |m| <= n', {'jmax': jmax})
    # negative / zero index refused
    ctx.expect_raises('index=noll', (ValueError,), lambda: Z.zernike_index(0), 'index|zero', 'index 0 accepted')

    # ---- (ii)/(iv) values on caller supplied polar coordinates -----------------------------------
    nv = ctx.count(160, 900)
    for i in range(nv):
        # all orders up to n = 50 (j = 1326); the reference is evaluated in exact rational arithmetic, so there is no order from
        # which the comparison has to be loosened
        u = rng.random()
        j = int(rng.integers(1, 379)) if u < 0.6 else int(rng.integers(1, 29)) if u < 0.8 else int(rng.integers(379, 1327))
        shape = gen.rshape(rng, 1, 12)
        rho = rng.random(shape) ** 0.5
        if rng.random() < 0.2:
            rho.flat[0] = 1.0
            rho.flat[-1] = 0.0
        theta = rng.uniform(-2 * np.pi, 2 * np.pi, size=shape)
        normalize = bool(rng.random() < 0.5)
        beyond = i % 6 == 4 and _NOLL[j][0] <= 20
        if beyond:
            # coordinates normalised to something smaller than the aperture (the inscribed circle of a hexagon): rho > 1 inside the
            # mask is a polar coordinate like any other
            rho = rho * float(rng.uniform(1.05, 1.4))
            ctx.bucket('coords:rho>1')
        mask = np.ones(shape) if rng.random() < 0.5 else (rng.random(shape) < 0.7).astype(float)
        desc = {'mode': j, 'shape': list(shape), 'normalize': normalize, 'pts': probe.fp_array(rho)[:8]}
        ctx.case(desc, ['value:normalized' if normalize else 'value:unnormalized'], nontrivial=j > 1)
        theta_arg = theta
        if _NOLL[j][1] == 0 and i % 2 == 0:
            # rotationally symmetric modes are the radial polynomial alone: where the azimuth is undefined (NaN / inf, e.g. at
            # the sample on the origin) they are still defined
            theta_arg = theta.copy()
            theta_arg.flat[int(rng.integers(0, theta.size))] = [np.nan, np.inf, -np.inf][i % 3]
            ctx.bucket('theta:undefined-for-m=0')
        if i % 5 == 3:
            # coordinates held in a narrower float type: the same numbers, so the same mode
            narrow = [np.float32, np.float16][(i // 5) % 2]
            rho = rho.astype(narrow)
            theta = theta.astype(narrow)
            theta_arg = theta_arg.astype(narrow)
            rho_arg = rho
            rho, theta = rho.astype(float), theta.astype(float)
            ctx.bucket('coords:narrow-float')
            desc['coords'] = np.dtype(narrow).name
        else:
            rho_arg = rho
        if i % 6 == 1 and np.any(mask == 0):
            # coordinates that exist on the aperture only (NaN / inf wherever there is no aperture, in the radius, the azimuth or
            # both): the mode is zero outside the mask whatever is stored there
            which = (i // 6) % 3
            bad = [np.nan, np.inf, -np.inf][(i // 18) % 3]
            out_ = mask == 0
            if which in (0, 2):
                theta_arg = np.array(theta_arg, copy=True)
                theta_arg[out_] = bad
            if which in (1, 2):
                rho_arg = np.array(rho_arg, copy=True)
                rho_arg[out_] = bad
            ctx.bucket('coords:undefined-outside-mask')
            desc['undefined_outside'] = ['theta', 'rho', 'both'][which]
        j_arg = j
        if i % 7 == 5:
            # the mode number as an element of an integer array of whatever dtype
            j_arg = [np.uint64, np.int16, np.uint32, np.int64, np.uint16][(i // 7) % 5](j)
            ctx.bucket('value:index-type')
            desc['index_type'] = type(j_arg).__name__
        try:
            got = lentil.zernike(mask, j_arg, normalize=normalize, rho=gen.layout(rng, rho_arg), theta=gen.layout(rng, theta_arg))
        except Exception as e:
            ctx.check(False, 'mode=textbook', f'mode|raises={type(e).__name__}' + ('|index-type' if j_arg is not j else ''), str(e), desc)
            continue
        n, m, par = _NOLL[j]
        ref = rm.zernike_value(n, m, par, rho, theta, normalize, sine_sign=+1, exact=True)
        ref = (ref * (mask != 0)).astype(float)
        if j > 378:
            ctx.bucket('value:high-order')
        # a well-conditioned evaluation of the mode is good to a few (n+4) ulp of its largest value sqrt(2(n+1)) (or 1)
        # (beyond the unit circle the polynomial grows quickly: the yardstick there is the largest value of the mode itself)
        cmp_mode(ctx, 'mode|value', 'mode differs from the textbook radial polynomial times its azimuthal factor',
                 np.asarray(got, float), ref, par, desc, tol=64 * (n + 4) * rm.EPS * (np.sqrt(2 * (n + 1))),
                 scale=max(1.0, float(np.max(np.abs(ref)))) if beyond else 1.0)
        if not normalize and not beyond:
            ctx.check(bool(np.all(np.abs(got) <= 1 + 64 * (n + 4) * rm.EPS)), '|Z|<=1', 'mode|bounded',
                      'unnormalised mode exceeds 1 in magnitude on the unit disk', desc)
        # radial polynomial is 1 at the rim
        if i % 4 == 0:
            one = Z.R(m, n, np.ones((1, 3)))
            ctx.close('R(1)=1', np.asarray(one, float) + np.zeros((1, 3)), np.ones((1, 3)), 64 * (n + 4) * rm.EPS,
                      'R|rim', 'radial polynomial is not 1 at rho = 1', {'n': n, 'm': m}, scale=1.0)

    # ---- one caller-owned coordinate system re-used for several masks; zernike_basis on sparse / unsorted mode lists ------
    for i in range(ctx.count(40, 250)):
        shape = gen.rshape(rng, 6, 18)
        ii, jj = np.indices(shape)
        r0, c0 = shape[0] / 2 + rng.uniform(-1, 1), shape[1] / 2 + rng.uniform(-1, 1)
        rad = np.hypot(ii - r0, jj - c0)
        rho = rad / rad.max()
        theta = np.arctan2(ii - r0, jj - c0)
        fr, ft = probe.fp_array(rho), probe.fp_array(theta)
        rho_ref, theta_ref = rho.copy(), theta.copy()
        masks = [gen.support(rng, shape) for _ in range(3)]
        desc = {'shared-coordinates': list(shape), 'masks': [probe.fp_array(m)[:8] for m in masks]}
        ctx.case(desc, ['coords:shared'])
        for q, m in enumerate(masks):
            j = int(rng.integers(2, 29))
            normalize = bool(rng.random() < 0.5)
            try:
                got = np.asarray(lentil.zernike(m.astype(float), j, normalize=normalize, rho=rho, theta=theta), float)
            except Exception as e:
                ctx.check(False, 'mode=textbook', f'mode|shared-coords|raises={type(e).__name__}', str(e), desc)
                continue
            ref, par = ref_mode(j, rho_ref, theta_ref, normalize)
            n_, m_, _ = _NOLL[j]
            cmp_mode(ctx, 'mode|shared-coords', 'mode on caller coordinates that were used before for another mask differs from the textbook mode',
                     got, (ref * m).astype(float), par, dict(desc, mode=j, call=q), tol=64 * (n_ + 4) * rm.EPS * np.sqrt(2 * n_ + 2),
                     scale=1.0)
        ctx.check(probe.fp_array(rho) == fr and probe.fp_array(theta) == ft, 'support-only', 'coords|caller-arrays-modified',
                  'zernike modified the coordinate arrays supplied by the caller', desc)
        # zernike_basis: any list of modes (sparse, unsorted, repeated radial/azimuthal orders), cube and vectorised form
        k = int(rng.integers(1, 7))
        style = int(rng.integers(0, 3))
        if style == 0:
            modes = sorted(rng.choice(np.arange(1, 46), size=k, replace=False).tolist())
        elif style == 1:
            modes = rng.permutation(rng.choice(np.arange(1, 46), size=k, replace=False)).tolist()
        else:       # same azimuthal order, different radial orders next to each other (4, 11, 22 / 2, 8, 16 / ...)
            m_az = int(rng.integers(0, 4))
            fam = [j for j, (n2, m2, p2) in _NOLL.items() if j <= 66 and m2 == m_az]
            modes = rng.permutation(rng.choice(fam, size=min(k + 1, len(fam)), replace=False)).tolist()
        mask = masks[0].astype(float)
        mask_bin = mask
        if i % 3 == 1:
            # the mask enters only through its support: apodised / signed weights (every non-zero entry belongs to it)
            mask = mask * 10.0 ** rng.uniform(-6, 3, size=shape) * rng.choice([-1, 1], size=shape)
            ctx.bucket('basis:weighted-mask')
        normalize = bool(rng.random() < 0.5)
        supplied = bool(rng.random() < 0.5)
        ctx.case({'basis': [int(x) for x in modes], 'shape': list(shape), 'supplied': supplied}, ['basis'])
        try:
            # caller-supplied coordinates in any memory layout (Fortran order, transposed / strided views): same values
            kwb = dict(rho=gen.layout(rng, rho_ref.copy(), 0.7), theta=gen.layout(rng, theta_ref.copy(), 0.7)) if supplied else {}
            B = np.asarray(Z.zernike_basis(mask, modes, normalize=normalize, **kwb), float)
            Bv = np.asarray(Z.zernike_basis(mask, modes, vectorize=True, normalize=normalize, **kwb), float)
            ok = B.shape == (len(modes),) + tuple(shape) and Bv.shape == (len(modes), shape[0] * shape[1])
            worst = 0.0
            if ok:
                for row, j in zip(B, modes):
                    single = np.asarray(lentil.zernike(mask_bin, int(j), normalize=normalize, **kwb), float) + np.zeros(shape)
                    worst = max(worst, float(np.max(np.abs(row - single))))
                worst = max(worst, float(np.max(np.abs(Bv.reshape(B.shape) - B))))
            ctx.check(ok and worst <= 1e-12 * max(1.0, float(np.max(np.abs(B))) if B.size else 1.0), 'mode=textbook', 'basis|rows',
                      'zernike_basis rows are not the individual modes of the requested Noll indices', {'modes': [int(x) for x in modes],
                                                                                                        'worst': worst})
        except Exception as e:
            ctx.check(False, 'mode=textbook', f'basis|raises={type(e).__name__}', str(e), {'modes': [int(x) for x in modes]})

    # ---- (iii) orthonormality on an exact quadrature ----------------------------------------------
    K, M = 40, 96
    x, wq = leggauss(K)
    t = 0.5 * (x + 1)
    wt = 0.5 * wq
    rho = np.sqrt(t)[:, None] * np.ones((1, M))
    theta = (2 * np.pi * np.arange(M) / M)[None, :] * np.ones((K, 1))
    W = wt[:, None] * np.ones((1, M)) / M
    ones = np.ones((K, M))
    jg = 45 if ctx.tier == 'quick' else 91
    pairs = [(a, b) for a in range(1, jg + 1) for b in range(a, jg + 1)]
    extra = ctx.count(60, 600)
    for _ in range(extra):
        a, b = int(rng.integers(1, 153)), int(rng.integers(1, 153))
        pairs.append((min(a, b), max(a, b)))
    cache = {}

    def mode(j):
        if j not in cache:
            cache[j] = np.asarray(lentil.zernike(ones, j, normalize=True, rho=rho, theta=theta), float) + 0 * ones
        return cache[j]

    for k, (a, b) in enumerate(pairs):
        if k % ctx.nshards != ctx.shard:
            continue
        na, nb = _NOLL[a][0], _NOLL[b][0]
        if (na + nb) / 2 + 1 > 2 * K - 1 or _NOLL[a][1] + _NOLL[b][1] >= M:
            ctx.skip('gram: beyond the exactness of the quadrature')
            continue
        desc = {'gram': [a, b]}
        ctx.case(desc, ['gram:diag' if a == b else 'gram:offdiag'])
        g = float(np.sum(W * mode(a) * mode(b)))
        tol = 1e-10
        ctx.close('gram=I', np.array([g]), np.array([1.0 if a == b else 0.0]), tol, 'gram|diag' if a == b else 'gram|offdiag',
                  'normalised modes are not orthonormal over the unit disk', dict(desc, value=g), scale=1.0)

    # ---- a small aperture in a large array at a very high order: far outside the mask rho**n leaves the floating-point range, and
    # the mode is still exactly zero there (not inf * 0) ------------------------------------------------------------------------
    for i in range(2 if ctx.shard % 3 == 0 else 0):
        N_ = int(rng.choice([400, 512]))
        mk = np.zeros((N_, N_))
        r0_, c0_ = int(rng.integers(40, N_ - 40)), int(rng.integers(40, N_ - 40))
        mk[r0_:r0_ + int(rng.integers(2, 5)), c0_:c0_ + int(rng.integers(2, 5))] = 1
        j = int(rng.integers(6000, 12000))
        ctx.case({'small-mask-large-array': N_, 'mode': j}, ['zero-outside:overflow'])
        try:
            with np.errstate(all='ignore'):
                z = np.asarray(lentil.zernike(mk, j), float)
            ctx.check(bool(np.all(z[mk == 0] == 0)) and bool(np.all(np.isfinite(z[mk != 0]))), 'zero-outside', 'coords|zero-outside|overflow',
                      'a high-order mode of a small mask in a large array is not exactly zero (NaN / inf) outside the mask',
                      {'mode': j, 'array': N_, 'nan_outside': int(np.isnan(z[mk == 0]).sum())})
        except Exception as e:
            ctx.check(False, 'zero-outside', f'coords|zero-outside|overflow|raises={type(e).__name__}', str(e), {'mode': j})

    # ---- (v) default coordinates -------------------------------------------------------------------
    nc = ctx.count(110, 700)
    for i in range(nc):
        shape = gen.rshape(rng, 3, 26)
        mask = gen.support(rng, shape)
        if mask.sum() < 3:
            mask = np.ones(shape, bool)
        idx = np.argwhere(mask)
        cr, cc = idx[:, 0].mean(), idx[:, 1].mean()
        odd = shape[0] % 2 == 1 or shape[1] % 2 == 1
        off = abs(cr - shape[0] // 2) > 0.75 or abs(cc - shape[1] // 2) > 0.75
        desc = {'coords': list(shape), 'mask': probe.fp_array(mask)[:10], 'centroid': [cr, cc]}
        ctx.case(desc, ['coords:odd' if odd else 'coords:even'] + (['coords:offcentre'] if off else []),
                 nontrivial=int(mask.sum()) > 2)
        if i % 3 == 1:
            # a caller who asked for the coordinates before owns what was returned and may edit it in place (rotate theta, rescale
            # rho): later default coordinates of the same mask are still measured from the centroid
            try:
                with probe.quiet():
                    r_own, t_own = lentil.zernike_coordinates(mask.astype(float))
                np.multiply(r_own, 1.7, out=r_own)
                np.add(t_own, 0.9, out=t_own)
            except Exception:
                pass            # (read-only results are fine: then there is nothing to edit)
            ctx.bucket('coords:result-edited')
        try:
            rho_l, theta_l = lentil.zernike_coordinates(mask.astype(float))
        except Exception as e:
            ctx.check(False, 'rho=centroid-distance', f'coords|raises={type(e).__name__}', str(e), desc)
            continue
        ii, jj = np.indices(shape)
        dist = np.hypot(ii - cr, jj - cc)
        rmax = dist[mask].max()
        if rmax == 0:
            continue
        par = ('odd' if odd else 'even')
        ctx.close('rho=centroid-distance', rho_l, dist / rmax, 1e-12, f'coords|rho|{par}',
                  'rho is not the distance from the mask centroid divided by the farthest masked distance', desc,
                  scale=max(1.0, float((dist / rmax).max())))
        # tip/tilt modes with the default coordinates: linear, vanishing at the centroid
        z2 = np.asarray(lentil.zernike(mask.astype(float), 2, normalize=False), float)
        z3 = np.asarray(lentil.zernike(mask.astype(float), 3, normalize=False), float)
        A = np.c_[np.ones(len(idx)), idx[:, 0] - cr, idx[:, 1] - cc]
        for name, z in (('z2', z2), ('z3', z3)):
            sol, res, rk, _ = np.linalg.lstsq(A, z[mask], rcond=None)
            lin = float(np.max(np.abs(A @ sol - z[mask])))
            if rk < 3:
                ctx.skip('coords: collinear mask')
                continue
            gn = float(np.hypot(sol[1], sol[2]))
            ctx.check(lin <= 1e-10 and abs(sol[0]) <= 1e-10 and abs(gn - 1 / rmax) <= 1e-10 / rmax * max(1, rmax),
                      'origin=centroid', f'coords|origin|{par}',
                      'tip/tilt modes on default coordinates do not vanish at the mask centroid with slope 1/rmax',
                      dict(desc, mode=name, value_at_centroid=float(sol[0]), grad=gn, want_grad=1 / rmax))
        # coordinates supplied by halves: an azimuth without a radius is either used (with the default radius) or refused - never
        # silently dropped
        if i % 4 == 2:
            ctx.bucket('coords:theta-only')
            th_ = theta_l + float(rng.uniform(0.3, 2.5))
            try:
                with np.errstate(all='ignore'):
                    zt = np.asarray(lentil.zernike(mask.astype(float), 2, theta=th_), float)
                want = np.asarray(lentil.zernike(mask.astype(float), 2, rho=rho_l, theta=th_), float)
                ctx.close('rho=centroid-distance', zt, want, 1e-12, 'coords|theta-only|ignored',
                          'an azimuth supplied without a radius is silently ignored (the default frame is used instead)', desc,
                          scale=max(1.0, float(np.abs(want).max())))
            except ValueError:
                ctx.check(True, 'rho=centroid-distance', 'ok', 'ok')
        # zero outside the mask, mask enters only through its support
        j = int(rng.integers(1, 37))
        za = np.asarray(lentil.zernike(mask.astype(float), j), float)
        ctx.check(bool(np.all(za[~mask] == 0)), 'zero-outside', 'coords|zero-outside', 'mode is non-zero outside the mask',
                  dict(desc, mode=j))
        wts = mask * rng.uniform(0.1, 5.0, size=shape)
        if i % 3 == 0:
            # any non-zero value belongs to the support, however small or large (apodised tails, amplitudes in SI units)
            wts = mask * 10.0 ** rng.uniform(-14, 6, size=shape) * rng.choice([-1, 1], size=shape)
        zb = np.asarray(lentil.zernike(wts, j), float)
        ctx.case(dict(desc, weighted=True, mode=j), ['support-only'])
        # the coordinate function called directly with the weighted mask (the two-step use through rho=, theta=)
        try:
            rho_w, theta_w = lentil.zernike_coordinates(wts)
            ctx.close('support-only', rho_w, rho_l, 1e-13, 'coords|support-only|zernike_coordinates',
                      'zernike_coordinates depends on the mask values, not only on its support', dict(desc, mode=j),
                      scale=max(1.0, float(np.abs(rho_l).max())))
            ctx.check(bool(np.allclose(np.exp(1j * theta_w), np.exp(1j * theta_l), rtol=0, atol=1e-12)), 'support-only',
                      'coords|support-only|zernike_coordinates|theta', 'theta from zernike_coordinates depends on the mask values',
                      dict(desc, mode=j))
            zc = np.asarray(lentil.zernike(wts, j, rho=rho_w, theta=theta_w), float)
            ctx.close('support-only', zc, za, 1e-12, 'coords|support-only|two-step',
                      'a mode built on zernike_coordinates(weighted mask) differs from the mode of the binary support', dict(desc, mode=j),
                      scale=max(1.0, float(np.abs(za).max())))
        except Exception as e:
            ctx.check(False, 'support-only', f'coords|support-only|raises={type(e).__name__}', str(e), desc)
        # compose: a unit coefficient vector reproduces the single mode under either normalisation, keyword or positional
        try:
            nrm = bool(i % 2)
            cvec = np.zeros(max(j, 3)); cvec[j - 1] = 1.0
            zsingle = np.asarray(lentil.zernike(mask.astype(float), j, normalize=nrm), float)
            zcomp = np.asarray(Z.zernike_compose(mask.astype(float), cvec, normalize=nrm) if i % 4 < 2 else
                               Z.zernike_compose(mask.astype(float), list(cvec), nrm), float)
            ctx.bucket('compose:normalized' if nrm else 'compose:unnormalized')
            ctx.close('mode=textbook', zcomp, zsingle, 1e-12, f'compose|unit-vector|normalize={nrm}',
                      'zernike_compose with a unit coefficient vector differs from the single mode with the same normalisation',
                      dict(desc, mode=j, normalize=nrm), scale=max(1.0, float(np.abs(zsingle).max())))
            if not nrm:
                n_c, m_c, _ = _NOLL[j]
                bigc = max(1.0, float(np.max(rho_l[mask]))) ** n_c
                ctx.check(bool(np.all(np.abs(zcomp) <= 1 + 256 * rm.EPS * (n_c + 4) * bigc + 1e-11)), '|Z|<=1', 'compose|bounded',
                          'an unnormalised composed unit mode exceeds 1 in magnitude', dict(desc, mode=j))
        except Exception as e:
            ctx.check(False, 'mode=textbook', f'compose|raises={type(e).__name__}', str(e), desc)
        ctx.close('support-only', zb, za, 1e-13, 'coords|support-only',
                  'mode depends on the mask values, not only on its support', dict(desc, mode=j),
                  scale=max(1.0, float(np.abs(za).max())))
        # value on default coordinates equals the textbook mode at (own rho, lentil theta)
        n, m, parity = _NOLL[j]
        ref, p2 = ref_mode(j, dist / rmax, theta_l, True)
        big = max(1.0, float((dist / rmax).max())) ** n
        cmp_mode(ctx, f'coords|value|{par}', 'mode on default coordinates differs from the textbook mode about the centroid',
                 za, (ref * mask).astype(float), p2, dict(desc, mode=j), tol=256 * rm.EPS * (n + 4) ** 2 * big * np.sqrt(2 * n + 2) + 1e-11,
                 scale=1.0)
