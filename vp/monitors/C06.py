"""C06 — Field and extent bookkeeping equals arithmetic on an infinite zero-padded plane.

Canvas model: every field is rendered at integer plane coordinates
row = i - floor(n/2) + offset; products/merges/reduce/insert are compared with
the same arithmetic done on sparse canvases; extent queries with Python sets.
Online probes on Field.__mul__, field.insert, field.merge/_merge, field.reduce,
field.boundary observe every call any workload makes.
"""
import itertools

import numpy as np

from vp import gen, probe, refmodels as rm
from vp import defaults
from vp import reuse
from vp import forms as argforms
from vp import corners

RULE = ('seeded generator: field shapes 1..7 per side (even/odd/non-square/one-element), integer offsets in '
        '[-12,12] of either sign incl. negative-only extents and fields wholly outside the target, target '
        'arrays 1..9 per side, collections of 1..6 fields; distinct = distinct (operation, shapes, offsets, '
        'target) descriptors; non-trivial = at least one operand with more than one sample.')
ASSUMPTIONS = ['one-element fields are infinite constants only in products (DESIGN.md C06 domain decision)',
               'scalar x scalar with different offsets is excluded (documented lentil rule, unreachable via Plane/Wavefront)']
PLAN = {'quick': {'gen': 8}, 'thorough': {'gen': 16, 'tests': 1, 'docs': 1}}
REQUIRED_BUCKETS = ['defaults', 'corners', 'reuse', 'forms', 'empty-field', 'insert:constant', 'merge:constants', 'mul:array*array', 'mul:array*scalar', 'mul:scalar*scalar', 'mul:disjoint',
                    'insert:inside', 'insert:clipped', 'insert:outside', 'insert:intensity',
                    'reduce:n>=3', 'boundary:negative-only', 'extent:queries', 'constant:length-1-vector']
REQUIRED_ANCHORS = ['probe:Field.__mul__', 'probe:insert', 'probe:_merge', 'probe:reduce', 'probe:boundary',
                    'anchor:array_extent', 'anchor:intersection_slices']
REQUIRED_ORACLES = ['mul=canvas', 'insert=canvas', 'merge=canvas', 'reduce=canvas', 'boundary=bbox',
                    'extent=sets']

TOL = 1e-13


def anchors(lentil):
    e = lentil.extent
    f = lentil.field
    return [('array_extent', e.array_extent), ('intersect', e.intersect),
            ('intersection_slices', e.intersection_slices), ('intersection_shift', e.intersection_shift),
            ('_mul_broadcast', f._mul_broadcast), ('_disjoint', f._disjoint), ('_merge_slices', f._merge_slices)]


def _is_scalar(field):
    # a constant is a 0-d field (the default wavefront, scalar plane phasors); a (1,1) array is one pixel
    return field.data.ndim == 0


def _canvas_of(field):
    c = rm.Canvas()
    if field.data.size == 0:
        return c
    return c.add(field.data, field.offset)


def _desc(field):
    return {'shape': list(field.data.shape), 'offset': [int(x) for x in field.offset]}


def mul_oracle(ctx, args, kwargs, result, exc, pre):
    a, b = args[0], args[1]
    if not (hasattr(a, 'data') and hasattr(b, 'data')):
        return
    wit = {'a': _desc(a), 'b': _desc(b)}
    if exc is not None:
        ctx.check(False, 'mul=canvas', f'mul|raises={type(exc).__name__}',
                  f'Field product raised {type(exc).__name__}: {exc}', wit)
        return
    if a.data.size == 0 or b.data.size == 0:
        # an empty field is the zero plane: so is its product with anything
        ctx.check(result.data.size == 0, 'mul=canvas', 'mul|empty-operand', 'the product with an empty field is not empty', wit)
        return
    sa, sb = _is_scalar(a), _is_scalar(b)
    if sa and sb:
        if not np.array_equal(a.offset, b.offset):
            ctx.skip('mul: scalar*scalar with different offsets (documented rule, outside the property)')
            return
        ok = result.data.size == 1 and abs(complex(result.data.ravel()[0])
                                            - complex(a.data.ravel()[0]) * complex(b.data.ravel()[0])) \
            <= TOL * max(1.0, abs(complex(result.data.ravel()[0])))
        ctx.check(ok, 'mul=canvas', 'mul|scalar*scalar', 'product of two constants is not their product', wit)
        return
    if not (sa or sb) and max(a.data.size, b.data.size) > 1500:
        # large operands (realistic workloads): same canvas arithmetic on dense arrays
        items = [(a.data.shape, a.offset), (b.data.shape, b.offset)]
        if result.data.size:
            items.append((result.data.shape, result.offset))
        bb = rm.bbox_of(items)
        ref = rm.dense([(a.data, a.offset)], bb) * rm.dense([(b.data, b.offset)], bb)
        got = rm.dense([(result.data, result.offset)], bb) if result.data.size else np.zeros_like(ref)
        ctx.close('mul=canvas', got, ref, TOL, 'mul|value', 'Field product differs from the pointwise product of the embeddings',
                  wit, scale=max(float(np.max(np.abs(ref))), 1e-300))
        return
    if sa or sb:
        arr, const = (b, a) if sa else (a, b)
        ref = _canvas_of(type(arr)(data=arr.data * complex(const.data.ravel()[0]), offset=list(arr.offset)))
    else:
        ca, cb = _canvas_of(a), _canvas_of(b)
        ref = rm.Canvas()
        for k in ca.support() & cb.support():
            ref.d[k] = ca.d[k] * cb.d[k]
    got = _canvas_of(result) if result.data.size else rm.Canvas()
    # compare on the union of supports (zero elsewhere on both sides)
    keys = ref.support() | got.support()
    scale = max([abs(v) for v in ref.d.values()] + [1e-300])
    worst = 0.0
    at = None
    for k in keys:
        d = abs(ref.d.get(k, 0) - got.d.get(k, 0))
        if d > worst:
            worst, at = d, k
    w = dict(wit)
    w.update({'max_residual': worst, 'at': at, 'result': _desc(result) if result.data.size else 'empty'})
    ctx.check(worst <= TOL * scale, 'mul=canvas', 'mul|value',
              'Field product differs from the pointwise product of the embeddings', w)


def _bind_insert(args, kwargs):
    names = ['field', 'out', 'intensity', 'weight']
    d = {'intensity': False, 'weight': 1}
    d.update(dict(zip(names, args)))
    d.update(kwargs)
    return d


def insert_before(ctx, args, kwargs):
    a = _bind_insert(args, kwargs)
    out = a['out']
    return np.array(out, copy=True) if isinstance(out, np.ndarray) else None


def insert_oracle(ctx, args, kwargs, result, exc, pre):
    a = _bind_insert(args, kwargs)
    field, out = a['field'], a['out']
    if pre is not None and isinstance(out, np.ndarray) and out.ndim == 2 and field.data.ndim == 0:
        # an infinite constant: the part of its embedding that falls inside the array is the whole array
        wit = {'constant': complex(field.data), 'offset': [int(x) for x in field.offset], 'out_shape': list(out.shape),
               'intensity': bool(a['intensity']), 'weight': a['weight']}
        if exc is not None:
            ctx.check(False, 'insert=canvas', f'insert|constant|raises={type(exc).__name__}',
                      f'inserting a constant (0-d) field raised {type(exc).__name__}: {exc}', wit)
            return
        cval = abs(complex(field.data)) ** 2 if a['intensity'] else complex(field.data)
        ref = pre.astype(complex) + cval * a['weight']
        if not np.iscomplexobj(out):
            ref = ref.real
        ctx.close('insert=canvas', result, ref, TOL, 'insert|constant|value', 'inserting a constant field did not add the constant to every sample',
                  wit, scale=max(float(np.max(np.abs(ref))), 1e-300))
        return
    if pre is None or not isinstance(out, np.ndarray) or out.ndim != 2 or field.data.ndim != 2 or field.data.size == 0:
        ctx.skip('insert: non 2-D operands')
        return
    wit = {'field': _desc(field), 'out_shape': list(out.shape), 'intensity': bool(a['intensity']),
           'weight': a['weight']}
    if exc is not None:
        ctx.check(False, 'insert=canvas', f'insert|raises={type(exc).__name__}',
                  f'insert raised {type(exc).__name__} (an insert may add all, some or none of the field): {exc}',
                  wit)
        return
    data = np.abs(field.data ** 2) if a['intensity'] else field.data
    ref = pre.astype(complex) + rm.render([(data, field.offset)], out.shape) * a['weight']
    if not np.iscomplexobj(out):
        ref = ref.real
    scale = max(float(np.max(np.abs(ref))) if ref.size else 0.0, 1e-300)
    ctx.close('insert=canvas', result, ref, TOL, 'insert|value',
              'insert did not add exactly the part of the embedding that falls inside the array', wit,
              scale=scale)
    ctx.check(result is out or np.shares_memory(result, out), 'insert=canvas', 'insert|identity',
              'insert did not accumulate into the supplied array', wit)


insert_oracle.before = insert_before


def _all_constants(fields):
    return all(f.data.ndim == 0 and tuple(int(x) for x in f.offset) == (0, 0) for f in fields)


def _merge_check(ctx, fields, result, exc, key):
    fields = list(fields)
    if fields and _all_constants(fields):
        # infinite constants add up to an infinite constant
        wit = {'constants': [complex(f.data) for f in fields]}
        if exc is not None:
            ctx.check(False, 'merge=canvas', f'{key}|constants|raises={type(exc).__name__}', f'merge of constants raised: {exc}', wit)
            return
        tot = sum(complex(f.data) for f in fields)
        ok = np.ndim(result.data) == 0 and abs(complex(result.data) - tot) <= TOL * max(1.0, sum(abs(complex(f.data)) for f in fields))
        ctx.check(ok, 'merge=canvas', f'{key}|constants', 'the merge of constant fields is not the constant that is their sum',
                  dict(wit, got=np.asarray(result.data)))
        return
    if any(f.data.ndim != 2 or f.data.size == 0 for f in fields):
        ctx.skip('merge: constant (0-d) operand has no finite embedding')
        return
    if rm.bbox_of([(f.data.shape, f.offset) for f in fields]) == (0, 0, 0, 0):
        ctx.skip('merge: collection is the single origin sample (lentil reserves that extent for constants)')
        return
    wit = {'fields': [_desc(f) for f in fields]}
    if exc is not None:
        ctx.check(False, 'merge=canvas', f'{key}|raises={type(exc).__name__}',
                  f'merge raised {type(exc).__name__}: {exc}', wit)
        return
    if sum(f.data.size for f in fields) > 3000:
        bb = rm.bbox_of([(f.data.shape, f.offset) for f in fields] + [(result.data.shape, result.offset)])
        refd = rm.dense([(f.data, f.offset) for f in fields], bb)
        gotd = rm.dense([(result.data, result.offset)], bb)
        scale = max(float(np.max(np.abs(refd))), 1e-300)
        worst = float(np.max(np.abs(refd - gotd)))
    else:
        ref = rm.Canvas()
        for f in fields:
            ref.add(f.data, f.offset)
        got = _canvas_of(result)
        keys = ref.support() | got.support()
        scale = max([abs(v) for v in ref.d.values()] + [1e-300])
        worst = max([abs(ref.d.get(k, 0) - got.d.get(k, 0)) for k in keys] + [0.0])
    wit['result'] = _desc(result)
    ctx.check(worst <= TOL * scale, 'merge=canvas', f'{key}|value',
              'merge is not the sum of the embeddings', wit)
    # the merged array is exactly the bounding box of the union
    bbox = rm.bbox_of([(f.data.shape, f.offset) for f in fields])
    ctx.check(tuple(int(x) for x in result.extent) == bbox, 'merge=canvas', f'{key}|extent',
              'merged field does not cover the bounding box of its operands', dict(wit, bbox=bbox))


def merge_private_oracle(ctx, args, kwargs, result, exc, pre):
    _merge_check(ctx, args[0], result, exc, 'merge')


def reduce_oracle(ctx, args, kwargs, result, exc, pre):
    fields = list(args[0])
    if not fields:
        return
    if _all_constants(fields):
        wit = {'constants': [complex(f.data) for f in fields]}
        if exc is not None:
            ctx.check(False, 'reduce=canvas', f'reduce|constants|raises={type(exc).__name__}', f'reduce of constants raised: {exc}', wit)
            return
        tot = sum(complex(f.data) for f in fields)
        ok = all(np.ndim(f.data) == 0 for f in result) and \
            abs(sum(complex(f.data) for f in result) - tot) <= TOL * max(1.0, sum(abs(complex(f.data)) for f in fields))
        ctx.check(ok, 'reduce=canvas', 'reduce|constants', 'reducing a collection of constant fields changed its total',
                  dict(wit, got=[np.asarray(f.data) for f in result]))
        return
    if any(f.data.ndim != 2 or f.data.size == 0 for f in fields):
        ctx.skip('reduce: constant (0-d) operand has no finite embedding')
        return
    if rm.bbox_of([(f.data.shape, f.offset) for f in fields]) == (0, 0, 0, 0):
        ctx.skip('reduce: collection is the single origin sample')
        return
    wit = {'fields': [_desc(f) for f in fields][:12]}
    if exc is not None:
        ctx.check(False, 'reduce=canvas', f'reduce|raises={type(exc).__name__}',
                  f'reduce raised {type(exc).__name__}: {exc}', wit)
        return
    bb = rm.bbox_of([(f.data.shape, f.offset) for f in fields] + [(f.data.shape, f.offset) for f in result])
    refd = rm.dense([(f.data, f.offset) for f in fields], bb)
    gotd = rm.dense([(f.data, f.offset) for f in result], bb)
    scale = max(float(np.max(np.abs(refd))), 1e-300)
    worst = float(np.max(np.abs(refd - gotd)))
    wit['result'] = [_desc(f) for f in result][:12]
    ctx.check(worst <= TOL * scale, 'reduce=canvas', 'reduce|total',
              'reduce changed the total of the collection', wit)
    # pairwise disjoint: no plane sample is covered by two of the returned arrays
    cover = rm.dense([(np.ones(f.data.shape), f.offset) for f in result], bb).real
    disjoint = bool(cover.max() <= 1) if cover.size else True
    ctx.check(disjoint, 'reduce=canvas', 'reduce|overlap', 'reduce returned overlapping fields', wit)


def boundary_oracle(ctx, args, kwargs, result, exc, pre):
    fields = list(args[0])
    if not fields or any(f.data.ndim != 2 for f in fields):
        return
    wit = {'fields': [_desc(f) for f in fields]}
    if exc is not None:
        ctx.check(False, 'boundary=bbox', f'boundary|raises={type(exc).__name__}', str(exc), wit)
        return
    bbox = rm.bbox_of([(f.data.shape, f.offset) for f in fields])
    neg = bbox[1] < 0 or bbox[3] < 0
    ctx.check(tuple(int(x) for x in result) == bbox, 'boundary=bbox',
              'boundary|negative-only' if neg else 'boundary|value',
              'field.boundary is not the bounding box of the union of the fields', dict(wit, bbox=bbox,
                                                                                         got=list(result)))


def install(ctx, lentil):
    F = lentil.field
    probe.wrap_method(F.Field, '__mul__', mul_oracle, ctx)
    probe.wrap_function(F.insert, insert_oracle, ctx, 'insert')
    probe.wrap_function(F._merge, merge_private_oracle, ctx, '_merge')
    probe.wrap_function(F.reduce, reduce_oracle, ctx, 'reduce')
    probe.wrap_function(F.boundary, boundary_oracle, ctx, 'boundary')


# ---------------------------------------------------------------------------

def _rshape(rng, lo=1, hi=7):
    return int(rng.integers(lo, hi + 1)), int(rng.integers(lo, hi + 1))


def _rdata(rng, shape):
    # field data in any memory layout (C / Fortran order, strided views)
    d = rng.normal(size=shape) + 1j * rng.normal(size=shape)
    u = rng.random()
    if u < 0.08:
        d[:] = 0                    # a dark field (blocked segment): its extent is still its extent
    elif u < 0.16:
        d[0, :] = 0                 # dark border rows / columns inside the extent
        d[:, -1] = 0
    return gen.layout(rng, d, 0.2)


def _bbox(cs):
    return (min(k[0] for k in cs), max(k[0] for k in cs), min(k[1] for k in cs), max(k[1] for k in cs))


def workload(ctx, lentil):
    defaults.run(ctx, lentil, 'C06', 'mul=canvas')
    reuse.run(ctx, lentil, 'C06', 'mul=canvas')
    argforms.run(ctx, lentil, 'C06', 'mul=canvas')
    corners.run(ctx, lentil, 'C06', 'mul=canvas')
    rng = ctx.rng
    F = lentil.field
    E = lentil.extent
    Field = F.Field
    n = ctx.count(220, 1500)
    R = 12

    def roff(scale=R):
        return [int(rng.integers(-scale, scale + 1)), int(rng.integers(-scale, scale + 1))]

    # ---- a constant held in a length-1 vector ([0.0], np.array([2.0]) - what np.atleast_1d, a one-entry table or a list literal
    # hand over) is the constant it holds: through Field products, insert, and the planes built from such attributes -------------
    for i in range(max(6, n // 30)):
        c_ = complex(rng.normal(), rng.normal()) if i % 2 else float(rng.normal()) + 2.0
        sa = _rshape(rng, 1)
        A_ = Field(_rdata(rng, sa), offset=roff(6))
        ctx.case({'length-1-vector-constant': i, 'shape': list(sa)}, ['constant:length-1-vector'])
        try:
            with probe.quiet():
                ref_p = Field(np.array(c_)) * A_
                ref_i = F.insert(Field(np.array(c_)), np.zeros((5, 7), complex))
            for form, k_ in (('ndarray(1,)', Field(np.array([c_]))), ('list', Field([c_]))):
                with probe.quiet():
                    got_p = k_ * A_ if i % 4 < 2 else A_ * k_
                    got_i = F.insert(k_, np.zeros((5, 7), complex))
                ok = (np.shape(got_p.data) == np.shape(ref_p.data) and tuple(int(x) for x in got_p.offset) == tuple(int(x) for x in ref_p.offset)
                      and np.allclose(got_p.data, ref_p.data, rtol=1e-14, atol=0) and np.array_equal(got_i, ref_i))   # (a*b vs b*a: an ulp)
                ctx.check(ok, 'mul=canvas', 'mul|length-1-vector-constant',
                          'a constant held in a length-1 vector is not treated as the (infinite) constant it holds',
                          {'form': form, 'got': list(np.shape(got_p.data)), 'want': list(np.shape(ref_p.data))})
            if i % 3 == 0:
                w1 = lentil.Wavefront(6e-7) * lentil.Plane(opd=[0.0]) * lentil.Pupil(amplitude=[1.0], pixelscale=1e-3, focal_length=2.0)
                ctx.check(len(w1.data) == 1 and np.ndim(w1.data[0].data) == 0 and abs(complex(w1.data[0].data) - 1) < 1e-15, 'mul=canvas',
                          'mul|length-1-vector-constant|plane', 'planes whose attributes are length-1 vectors do not pass the plane wave unchanged',
                          {'fields': [list(np.shape(f.data)) for f in w1.data]})
        except Exception as e:
            ctx.check(False, 'mul=canvas', f'mul|length-1-vector-constant|raises={type(e).__name__}', str(e), {'shape': list(sa)})
    # ---- products ---------------------------------------------------------
    for i in range(n):
        kind = rng.integers(0, 10)
        if kind < 6:
            sa, sb = _rshape(rng, 1), _rshape(rng, 1)
            oa = roff(5)
            ob = [oa[0] + int(rng.integers(-6, 7)), oa[1] + int(rng.integers(-6, 7))]
            a, b = Field(_rdata(rng, sa), offset=oa), Field(_rdata(rng, sb), offset=ob)
            disjoint = not (rm.coordset(sa, oa) & rm.coordset(sb, ob))
            bk = ['mul:array*array'] + (['mul:disjoint'] if disjoint else [])
        elif kind < 9:
            sa = _rshape(rng, 1)
            sc = np.array(complex(rng.normal(), rng.normal()))
            a = Field(_rdata(rng, sa), offset=roff())
            b = Field(sc, offset=roff() if rng.random() < 0.5 else None)
            if rng.random() < 0.5:
                a, b = b, a
            bk = ['mul:array*scalar']
        else:
            o = roff()
            a = Field(np.array(complex(rng.normal(), rng.normal())), offset=list(o))
            b = Field(np.array(complex(rng.normal(), rng.normal())), offset=list(o))
            bk = ['mul:scalar*scalar']
        ctx.case({'op': 'mul', 'a': _desc(a), 'b': _desc(b)}, bk,
                 nontrivial=a.data.size > 1 or b.data.size > 1)
        res = a * b        # probe decides
        # bookkeeping of the result itself: cached extent agrees with its data/offset
        if res.data.ndim == 2 and res.data.size > 0:
            cs = rm.coordset(res.data.shape, res.offset)
            ctx.check(tuple(int(x) for x in res.extent) == _bbox(cs), 'extent=sets', 'field|extent',
                      'Field.extent disagrees with the coordinates of its samples', _desc(res))

    # ---- insert -----------------------------------------------------------
    for i in range(n):
        fs = _rshape(rng, 1)
        ts = _rshape(rng, 1, 9)
        mode = rng.integers(0, 4)
        if mode == 0:     # wholly outside, on any of the four sides / corners
            side = rng.integers(0, 8)
            far_r = ts[0] // 2 + fs[0] // 2 + int(rng.integers(1, 5))
            far_c = ts[1] // 2 + fs[1] // 2 + int(rng.integers(1, 5))
            sr = [-far_r, far_r, 0, 0, -far_r, far_r, -far_r, far_r][side]
            sc = [0, 0, -far_c, far_c, -far_c, far_c, far_c, -far_c][side]
            off = [sr + (int(rng.integers(-2, 3)) if sr == 0 else 0),
                   sc + (int(rng.integers(-2, 3)) if sc == 0 else 0)]
        elif mode == 1 and fs[0] <= ts[0] and fs[1] <= ts[1]:
            off = [int(rng.integers(-1, 2)), int(rng.integers(-1, 2))]
        else:
            off = [int(rng.integers(-ts[0], ts[0] + 1)), int(rng.integers(-ts[1], ts[1] + 1))]
        if rng.random() < 0.1 and fs[0] <= 9 and fs[1] <= 9:
            ts, off = fs, [0, 0]           # fast path: equal shapes, zero offset
        field = Field(_rdata(rng, fs), offset=off)
        if i % 25 == 7:
            # a constant (0-d) field, with or without an offset of its own
            cfield = Field(np.array(complex(rng.normal(), rng.normal())), offset=off if i % 2 else None)
            ctx.case({'op': 'insert-constant', 'target': list(ts)}, ['insert:constant'])
            outc = _rdata(rng, ts) if i % 3 else rng.normal(size=ts)
            try:
                F.insert(cfield, outc, intensity=bool(i % 3 == 0), weight=[1, 0.5, -2.0][i % 3])     # probe decides
            except Exception:
                pass
            try:
                wdef = lentil.Wavefront(6e-7)
                acc = rng.normal(size=ts)
                acc0 = acc.copy()
                r_ = wdef.insert(acc, 0.25)
                ctx.check(np.allclose(r_, acc0 + 0.25, rtol=1e-13, atol=1e-13), 'insert=canvas', 'insert|constant|default-wavefront',
                          'accumulating the default (unit plane wave) wavefront does not add weight*1 to every sample', {'target': list(ts)})
            except Exception as e:
                ctx.check(False, 'insert=canvas', f'insert|constant|default-wavefront|raises={type(e).__name__}', str(e), {'target': list(ts)})
        cs = rm.coordset(fs, off)
        tgt = {(r - ts[0] // 2, c - ts[1] // 2) for r in range(ts[0]) for c in range(ts[1])}
        inter = cs & tgt
        where = 'insert:outside' if not inter else ('insert:inside' if inter == cs else 'insert:clipped')
        intensity = bool(rng.random() < 0.4)
        weight = [1, 1, 0, -2.5, 0.37][int(rng.integers(0, 5))]
        bk = [where] + (['insert:intensity'] if intensity else [])
        ctx.case({'op': 'insert', 'field': _desc(field), 'target': list(ts), 'intensity': intensity,
                  'weight': weight}, bk)
        out = (rng.normal(size=ts) if intensity else _rdata(rng, ts))
        try:
            F.insert(field, out, intensity=intensity, weight=weight)   # probe decides
        except Exception:
            pass

    # ---- merge / reduce / boundary ------------------------------------------
    for i in range(n):
        k = int(rng.integers(1, 7))
        neg = rng.random() < 0.25
        fields = []
        base = [-int(rng.integers(8, 13)), -int(rng.integers(8, 13))] if neg else [0, 0]
        spread = 3 if neg else int(rng.integers(2, 9))
        for j in range(k):
            s = _rshape(rng, 1, 6)
            off = [base[0] + int(rng.integers(-spread, spread + 1)),
                   base[1] + int(rng.integers(-spread, spread + 1))]
            if neg:   # keep the whole extent at negative coordinates
                off = [min(off[0], -s[0] - 1), min(off[1], -s[1] - 1)]
            fields.append(Field(_rdata(rng, s), offset=off))
        bk = []
        if k >= 3:
            bk.append('reduce:n>=3')
        if neg:
            bk.append('boundary:negative-only')
        ctx.case({'op': 'reduce', 'fields': [_desc(f) for f in fields]}, bk)
        try:
            F.boundary(fields)
        except Exception:
            pass
        try:
            F.reduce(fields)
        except Exception:
            pass
        if k >= 2:
            a, b = fields[0], fields[1]
            ov = bool(rm.coordset(a.data.shape, a.offset) & rm.coordset(b.data.shape, b.offset))
            ctx.check(bool(F.overlap((a, b))) == ov, 'extent=sets', 'overlap|pair',
                      'field.overlap disagrees with the coordinate sets', [_desc(a), _desc(b)])
            try:
                m = F.merge(a, b, enforce_overlap=False)
                _merge_check(ctx, (a, b), m, None, 'merge-public')
            except Exception as e:
                _merge_check(ctx, (a, b), None, e, 'merge-public')
            if not ov:
                ctx.expect_raises('merge=canvas', (ValueError,), lambda: F.merge(a, b),
                                  'merge|enforce', 'merge(enforce_overlap=True) accepted disjoint fields')

    # ---- the empty field (product of two fields with nothing in common) is the zero plane, and a field like any other:
    # it multiplies to empty, inserts nothing, and drops out of merges / reductions
    for i in range(max(6, n // 20)):
        sa, sb, sc_ = _rshape(rng, 1), _rshape(rng, 1), _rshape(rng, 1)
        a = Field(_rdata(rng, sa), offset=[0, 0])
        b = Field(_rdata(rng, sb), offset=[20 + int(rng.integers(0, 5)), -20])
        c = Field(_rdata(rng, sc_), offset=roff(4))
        ctx.case({'op': 'empty-field', 'a': list(sa), 'b': list(sb), 'c': list(sc_)}, ['empty-field'])
        try:
            e = a * b                                   # probe decides
            if e.data.size != 0:
                continue
            for t in (lambda: e * c, lambda: c * e, lambda: e * e, lambda: e * Field(np.array(2.0 + 0j))):
                try:
                    t()                                 # probe decides (raises are reported by it)
                except Exception:
                    pass
            out = _rdata(rng, (5, 6))
            out0 = out.copy()
            try:
                r = F.insert(e, out)
                ctx.check(np.array_equal(r, out0), 'insert=canvas', 'insert|empty-field', 'inserting an empty field changed the target', {})
            except Exception as ex:
                ctx.check(False, 'insert=canvas', f'insert|empty-field|raises={type(ex).__name__}', str(ex), {})
            try:
                red = F.reduce([e, c]) if i % 2 else F.reduce([c, e, a])
                want = [c] if i % 2 else [c, a]
                bb = rm.bbox_of([(f.data.shape, f.offset) for f in want])
                tot = rm.dense([(f.data, f.offset) for f in want], bb)
                got = rm.dense([(f.data, f.offset) for f in red if f.data.size], bb)
                ctx.check(np.allclose(got, tot, rtol=1e-13, atol=1e-13), 'reduce=canvas', 'reduce|empty-field',
                          'an empty field changed the total of a reduction', {})
            except Exception as ex:
                ctx.check(False, 'reduce=canvas', f'reduce|empty-field|raises={type(ex).__name__}', str(ex), {})
            try:
                # the empty field occupies no pixel: it stretches no bounding box and overlaps nothing
                far = Field(_rdata(rng, sc_), offset=[7 + int(rng.integers(0, 4)), 9])
                bb_far = rm.bbox_of([(far.data.shape, far.offset)])
                ctx.check(tuple(int(x) for x in F.boundary([e, far])) == bb_far and tuple(int(x) for x in F.boundary([far, e, far])) == bb_far,
                          'boundary=bbox', 'boundary|empty-field', 'an empty field stretches the bounding box of a collection', {'bbox': bb_far})
                org = Field(_rdata(rng, (3, 3)))
                ctx.check(not F.overlap((e, org)) and not F.overlap((org, e)) and not F.overlap([e, org, far]), 'extent=sets', 'overlap|empty-field',
                          'an empty field "overlaps" a field that covers the origin sample', {})
            except Exception as ex:
                ctx.check(False, 'boundary=bbox', f'boundary|empty-field|raises={type(ex).__name__}', str(ex), {})
            try:
                m = F.merge(e, c, enforce_overlap=False)
                bb = rm.bbox_of([(c.data.shape, c.offset)])
                ctx.check(np.allclose(rm.dense([(m.data, m.offset)], bb), rm.dense([(c.data, c.offset)], bb), rtol=1e-13, atol=1e-13)
                          and tuple(int(x) for x in m.extent) == bb, 'merge=canvas', 'merge|empty-field',
                          'merging an empty field with a field does not give that field', {})
            except Exception as ex:
                ctx.check(False, 'merge=canvas', f'merge|empty-field|raises={type(ex).__name__}', str(ex), {})
        except Exception:
            pass

    # ---- collections of constants (0-d fields): their merge / reduction is the constant that is their sum --------------
    for i in range(max(6, n // 20)):
        k = int(rng.integers(2, 5))
        consts = [Field(np.array(complex(rng.normal(), rng.normal()))) if rng.random() < 0.7 else Field(float(rng.integers(1, 5)))
                  for _ in range(k)]
        ctx.case({'op': 'merge-constants', 'values': [complex(f.data) for f in consts]}, ['merge:constants'])
        try:
            m = F.merge(consts[0], consts[1])
            _merge_check(ctx, consts[:2], m, None, 'merge-public')
        except Exception as e:
            _merge_check(ctx, consts[:2], None, e, 'merge-public')
        try:
            F.reduce(consts)                 # probe decides
        except Exception:
            pass
        try:
            w = lentil.Wavefront(6e-7)
            w.data = list(consts)
            tot = sum(complex(f.data) for f in consts)
            with np.errstate(all='ignore'):
                fld = w.field
            ctx.check(np.allclose(np.asarray(fld), tot, rtol=1e-12, atol=1e-12), 'merge=canvas', 'wavefront|constants|field',
                      'the field of a wavefront made of constant fields is not their sum', {'values': [complex(f.data) for f in consts],
                                                                                          'got': np.asarray(fld)})
        except Exception as e:
            ctx.check(False, 'merge=canvas', f'wavefront|constants|raises={type(e).__name__}', str(e), {})

    # ---- extent queries -------------------------------------------------------
    for i in range(n * 2):
        sa, sb = _rshape(rng, 1, 8), _rshape(rng, 1, 8)
        oa, ob = roff(), roff()
        if rng.random() < 0.6:
            ob = [oa[0] + int(rng.integers(-5, 6)), oa[1] + int(rng.integers(-5, 6))]
        ctx.case({'op': 'extent', 'a': [list(sa), oa], 'b': [list(sb), ob]}, ['extent:queries'])
        ca, cb = rm.coordset(sa, oa), rm.coordset(sb, ob)
        ea, eb = E.array_extent(sa, oa), E.array_extent(sb, ob)
        w = {'a': [list(sa), oa], 'b': [list(sb), ob]}
        ctx.check(tuple(ea) == _bbox(ca) and tuple(eb) == _bbox(cb), 'extent=sets', 'extent|array_extent',
                  'array_extent disagrees with the set of pixel coordinates', w)
        inter = ca & cb
        ctx.check(bool(E.intersect(ea, eb)) == bool(inter), 'extent=sets', 'extent|intersect',
                  'intersect disagrees with the coordinate sets', w)
        ishape = E.intersection_shape(ea, eb)
        if inter:
            bb = _bbox(inter)
            ctx.check(tuple(ishape) == (bb[1] - bb[0] + 1, bb[3] - bb[2] + 1), 'extent=sets',
                      'extent|intersection_shape', 'intersection_shape disagrees with the coordinate sets', w)
            ctx.check(tuple(E.intersection_extent(ea, eb)) == bb, 'extent=sets', 'extent|intersection_extent',
                      'intersection_extent disagrees with the coordinate sets', w)
            shift = E.intersection_shift(ea, eb)
            ctx.check(rm.coordset(ishape, shift) == inter, 'extent=sets', 'extent|intersection_shift',
                      'an array of intersection_shape at intersection_shift does not cover the intersection', w)
            (ar, ac), (br, bc) = E.intersection_slices(ea, eb)
            A = np.array([[(ea[0] + i, ea[2] + j) for j in range(sa[1])] for i in range(sa[0])], dtype='i8,i8')
            B = np.array([[(eb[0] + i, eb[2] + j) for j in range(sb[1])] for i in range(sb[0])], dtype='i8,i8')
            sel_a = {tuple(x) for x in A[ar, ac].ravel().tolist()}
            sel_b = {tuple(x) for x in B[br, bc].ravel().tolist()}
            ctx.check(sel_a == inter and sel_b == inter and A[ar, ac].shape == B[br, bc].shape, 'extent=sets',
                      'extent|intersection_slices', 'intersection_slices do not select the common pixels', w)
            ctx.check(tuple(E.array_center(bb)) == tuple(shift) and
                      rm.coordset(sa, E.array_center(ea)) == ca, 'extent=sets', 'extent|array_center',
                      'array_center is not the origin-sample coordinate of the extent', w)
        else:
            ctx.check(tuple(ishape) == (), 'extent=sets', 'extent|intersection_shape-empty',
                      'intersection_shape of disjoint extents is not empty', w)
        # parent-relative extent: index range inside an enclosing array
        ps = (sa[0] + int(rng.integers(0, 5)), sa[1] + int(rng.integers(0, 5)))
        ep = E.array_extent(sa, oa, parent_shape=ps)
        ref = (ea[0] + ps[0] // 2, ea[1] + ps[0] // 2, ea[2] + ps[1] // 2, ea[3] + ps[1] // 2)
        ctx.check(tuple(ep) == ref, 'extent=sets', 'extent|parent', 'parent-relative extent is off', w)
