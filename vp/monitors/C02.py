"""C02 — far-field propagation puts the Fraunhofer field on the right output samples.

Online oracle on every propagate_dft call (tilt-free wavefronts): the input
fields are rendered on the infinite plane by the monitor's own canvas model and
the unitary Fraunhofer sum is evaluated in extended precision on the full
output array; inside the evaluated window values must agree, outside it the
field must be exactly zero; metadata must follow the property.
"""
import numpy as np

from vp import gen, probe, propmodel, refmodels as rm
from vp import defaults
from vp import reuse
from vp import forms as argforms
from vp import corners

RULE = ('seeded generator: pupil amplitude/OPD arrays 3..24 per side (even/odd/non-square, off-centre support), '
        'wavelength, focal length, scalar or per-axis dx and du, oversample 1..4, output shapes, prop_shape <= shape, '
        'random output masks, both directions (pupil->image and image->pupil), chains of two planes. '
        'distinct = distinct (shapes, sampling, window, direction, data hash) descriptors; non-trivial = input with '
        'more than one non-zero sample.')
ASSUMPTIONS = ['tilt-free wavefronts only (tilt is C04)', 'all-zero masks are rejected by lentil and outside the property']
PLAN = {'quick': {'gen': 8}, 'thorough': {'gen': 16, 'tests': 1, 'docs': 1}}
REQUIRED_BUCKETS = ['defaults', 'corners', 'reuse', 'forms', 'in:ee', 'in:oo', 'in:eo', 'in:oe', 'out:even', 'out:odd', 'dx:iso', 'dx:aniso', 'du:iso', 'du:aniso',
                    'prop<shape', 'prop=shape', 'mask', 'nomask', 'dir:pupil->image', 'dir:image->pupil', 'chain:2',
                    'mask+prop', 'repeated', 'segmented', 'shape:small-int', 'scalars:float32', 'broadband', 'fft:broadband-scratch', 'alpha:near-critical', 'fft:explicit-shape', 'fft:explicit-shape:odd', 'mask:object-reused', 'amp:any-magnitude', 'oversample:integer-valued-float', 'fft:anamorphic', 'fft:even-grid:half-sum-parity=0', 'fft:even-grid:half-sum-parity=1', 'fft:grid-parity=01', 'fft:grid-parity=10']
REQUIRED_ANCHORS = ['probe:propagate_dft', 'probe:propagate_fft', 'anchor:_dft_alpha', 'anchor:_mask_shift', 'anchor:dft2',
                    'anchor:intersection_shift']
REQUIRED_ORACLES = ['dft=fraunhofer', 'dft=fraunhofer:meta', 'dft=fraunhofer:outside=0', 'fft=fraunhofer', 'fft=fraunhofer:meta']


def anchors(lentil):
    p = lentil.propagate
    return [('_dft_alpha', p._dft_alpha), ('_mask_shape', p._mask_shape), ('_mask_shift', p._mask_shift),
            ('dft2', lentil.fourier.dft2), ('intersection_shift', lentil.extent.intersection_shift),
            ('array_center', lentil.extent.array_center), ('field.insert', lentil.field.insert)]


def dft_oracle(ctx, args, kwargs, result, exc, pre):
    a = propmodel.bind_dft(args, kwargs)
    propmodel.check_dft(ctx, 'propagate_dft', a['wavefront'], a, result, exc)


def fft_oracle(ctx, args, kwargs, result, exc, pre):
    propmodel.check_fft(ctx, 'propagate_fft', propmodel.bind_fft(args, kwargs), result, exc)


def install(ctx, lentil):
    probe.wrap_function(lentil.propagate.propagate_dft, dft_oracle, ctx, 'propagate_dft')
    probe.wrap_function(lentil.propagate.propagate_fft, fft_oracle, ctx, 'propagate_fft')


def broadband(ctx, lentil, rng):
    """One pupil, several wavelengths in sequence (and the first again), sampling given in every accepted form; the online
    oracle checks each propagation, so nothing may be carried over from the previous wavelength or call."""
    for i in range(ctx.count(12, 80)):
        shape = gen.rshape(rng, 4, 16)
        sup = gen.support(rng, shape)
        dxv = float(rng.uniform(1e-3, 4e-3))
        duv = float(rng.uniform(4e-6, 2e-5))
        dx = [dxv, (dxv, dxv), [dxv, dxv * 1.2], np.array([dxv, dxv])][i % 4]
        du = [duv, (duv, duv * 0.8), [duv, duv], np.array([duv, duv * 1.3])][(i // 4) % 4]
        z = float(rng.uniform(1, 20))
        pupil = lentil.Pupil(amplitude=gen.amplitude(rng, sup), opd=gen.opd(rng, shape, 7e-7), pixelscale=dx, focal_length=z)
        os_ = int(rng.integers(1, 4))
        osh = gen.rshape(rng, 2, 10)
        shp = [osh, list(osh), np.array(osh), osh[0]][i % 4]
        wls = [float(x) for x in rng.uniform(4e-7, 2e-6, size=4)]
        ctx.case({'broadband': wls, 'in': list(shape), 'forms': [i % 4, (i // 4) % 4]}, ['broadband'])
        for wl in wls + wls[:1]:
            try:
                lentil.propagate_dft(lentil.Wavefront(wl) * pupil, du, shape=shp, oversample=os_)
            except Exception:
                pass


def fft_broadband(ctx, lentil, rng):
    """The FFT propagator over a band with one scratch buffer shared by all wavelengths (grids of different sizes follow each
    other, larger before smaller and back), segmented and whole pupils; the online oracle checks every call."""
    for i in range(ctx.count(10, 60)):
        os_ = int(rng.integers(1, 4))
        pshape = gen.rshape(rng, 3, 14)
        A = gen.support(rng, pshape)
        dx0 = float(rng.uniform(0.5e-3, 5e-3))
        z = float(rng.uniform(0.5, 30))
        wl0 = float(rng.uniform(4e-7, 1e-6))
        G0 = int(rng.integers(max(pshape) + 2, 3 * max(pshape) + 6))
        du0 = wl0 * z * os_ / (dx0 * (G0 + float(rng.uniform(-0.3, 0.3))))
        kw = {}
        if i % 2:
            segs, _ = gen.partition(rng, A, int(rng.integers(2, 5)))
            kw['mask'] = segs.astype(float)
        pupil = lentil.Pupil(amplitude=gen.amplitude(rng, A), opd=gen.opd(rng, pshape, wl0), pixelscale=dx0, focal_length=z, **kw)
        wls = [wl0 * f for f in (1.0, float(rng.uniform(1.3, 2.2)), float(rng.uniform(1.05, 1.25)), 1.0, float(rng.uniform(1.5, 2.0)))]
        need = lentil.scratch_shape(wls, dx0, du0, z, os_)
        extra = (int(rng.integers(0, 6)), int(rng.integers(0, 9)))
        scratch = np.zeros((need[0] + extra[0], need[1] + extra[1]), complex)
        if i % 3 == 0:
            scratch[:] = rng.normal(size=scratch.shape) + 1j * rng.normal(size=scratch.shape)
        ctx.case({'fft-broadband': wls, 'pupil': list(pshape), 'os': os_, 'G0': G0, 'seg': bool(i % 2), 'extra': list(extra)},
                 ['fft:broadband-scratch'])
        for wl in wls:
            try:
                lentil.propagate_fft(lentil.Wavefront(wl) * pupil, du0, oversample=os_, scratch=scratch)
                if rng.random() < 0.3:
                    lentil.propagate_fft(lentil.Wavefront(wl) * pupil, du0, oversample=os_)
                # an explicit output shape only chooses the centred window (any parity of shape, shape*oversample and grid)
                gs = int(np.floor(wl * z * os_ / (dx0 * du0) + 0.5)) // os_
                if gs >= 2:
                    shp = (int(rng.integers(1, gs + 1)), int(rng.integers(1, gs + 1)))
                    ctx.bucket('fft:explicit-shape')
                    if (shp[0] * os_) % 2 == 1 or (shp[1] * os_) % 2 == 1:
                        ctx.bucket('fft:explicit-shape:odd')
                    lentil.propagate_fft(lentil.Wavefront(wl) * pupil, du0, shape=shp if rng.random() < 0.7 else shp[0],
                                         oversample=os_ if rng.random() < 0.7 else float(os_),
                                         **({'scratch': scratch} if rng.random() < 0.5 else {}))
            except Exception as e:
                ctx.check(False, 'fft=fraunhofer', f'fft-broadband|raises={type(e).__name__}', str(e), {'wl': wl})


def fft_anamorphic(ctx, lentil, rng):
    """The FFT propagator with a different output pixel scale on each axis (anamorphic relay, rectangular detector pixels): the
    padded grid is then not square - every combination of parities and sizes; the online oracle checks every call."""
    for i in range(ctx.count(24, 120)):
        os_ = int(rng.integers(1, 4))
        pshape = gen.rshape(rng, 3, 14)
        A = gen.support(rng, pshape)
        dx0 = float(rng.uniform(0.5e-3, 5e-3))
        z = float(rng.uniform(0.5, 30))
        wl = float(rng.uniform(4e-7, 1e-6))
        lo = max(pshape) + 2
        Gr = int(rng.integers(lo, 3 * lo))
        Gc = Gr + int(rng.choice([-6, -4, -3, -2, -1, 1, 2, 3, 4, 6]))
        Gc = max(Gc, lo)
        if i % 4 == 0:
            # even by even with an odd half-sum, and the reverse
            Gr, Gc = Gr + Gr % 2, Gc + Gc % 2
            if ((Gr + Gc) // 2) % 2 == (i // 4) % 2:
                Gc += 2
        frac = (0.0, 0.0) if i % 3 else (float(rng.uniform(-0.3, 0.3)), float(rng.uniform(-0.3, 0.3)))
        du = (wl * z * os_ / (dx0 * (Gr + frac[0])), wl * z * os_ / (dx0 * (Gc + frac[1])))
        ctx.case({'fft-anamorphic': [Gr, Gc], 'frac': list(frac), 'pupil': list(pshape), 'os': os_}, ['fft:anamorphic', f'fft:grid-parity={Gr % 2}{Gc % 2}'])
        if Gr % 2 == 0 and Gc % 2 == 0:
            ctx.bucket(f'fft:even-grid:half-sum-parity={((Gr + Gc) // 2) % 2}')
        pupil = lentil.Pupil(amplitude=gen.amplitude(rng, A), opd=gen.opd(rng, pshape, wl), pixelscale=dx0, focal_length=z)
        try:
            kw = {}
            if i % 2:
                gs = (Gr // os_, Gc // os_)
                kw['shape'] = (int(rng.integers(1, gs[0] + 1)), int(rng.integers(1, gs[1] + 1)))
            if i % 5 == 1:
                kw['scratch'] = np.zeros((Gr + int(rng.integers(0, 4)), Gc + int(rng.integers(0, 4))), complex)
            lentil.propagate_fft(lentil.Wavefront(wl) * pupil, du, oversample=os_, **kw)
        except Exception as e:
            ctx.check(False, 'fft=fraunhofer', f'fft-anamorphic|raises={type(e).__name__}', str(e), {'G': [Gr, Gc], 'os': os_})


def near_critical(ctx, lentil, rng):
    """Samplings a few parts per million away from alpha = 1/n with the output array of the pupil's own size: an ordinary
    alpha like any other (a wavelength sweep passes through such values)."""
    for i in range(ctx.count(10, 60)):
        n = gen.rshape(rng, 6, 24)
        if i % 2:
            n = (n[0], n[0])
        os_ = int(rng.integers(1, 3))
        if n[0] % os_ or n[1] % os_:
            os_ = 1
        A = gen.support(rng, n)
        dx0 = float(rng.uniform(0.5e-3, 5e-3))
        z = float(rng.uniform(0.5, 30))
        wl = float(rng.uniform(4e-7, 2e-6))
        eps = float(rng.choice([-1, 1])) * 10 ** float(rng.uniform(-8, -5.2)) if i % 4 else 0.0
        du = (wl * z * os_ / (dx0 * n[0]) * (1 + eps), wl * z * os_ / (dx0 * n[1]) * (1 + eps))
        ctx.case({'near-critical': list(n), 'eps': eps, 'os': os_, 'wl': wl}, ['alpha:near-critical'])
        full = rng.random() < 0.5
        amp = np.ones(n) if full else gen.amplitude(rng, A)
        w = lentil.Wavefront(wl) * lentil.Pupil(amplitude=amp, opd=gen.opd(rng, n, wl), pixelscale=dx0, focal_length=z)
        try:
            lentil.propagate_dft(w, du, shape=(n[0] // os_, n[1] // os_), oversample=os_)
        except Exception as e:
            ctx.check(False, 'dft=fraunhofer', f'near-critical|raises={type(e).__name__}', str(e), {'n': list(n)})


def workload(ctx, lentil):
    defaults.run(ctx, lentil, 'C02', 'dft=fraunhofer')
    reuse.run(ctx, lentil, 'C02', 'dft=fraunhofer')
    argforms.run(ctx, lentil, 'C02', 'dft=fraunhofer')
    corners.run(ctx, lentil, 'C02', 'dft=fraunhofer')
    rng = ctx.rng
    broadband(ctx, lentil, rng)
    fft_broadband(ctx, lentil, rng)
    fft_anamorphic(ctx, lentil, rng)
    near_critical(ctx, lentil, rng)
    n = ctx.count(150, 1000)
    hi = 24 if ctx.tier == 'quick' else 48
    for i in range(n):
        wl, z, dx, du, os_ = gen.optics(rng)
        shape = gen.rshape(rng, 3, hi)
        sup = gen.support(rng, shape)
        amp = gen.amplitude(rng, sup)
        if i % 10 == 7:
            # the field of a faint star or of a laser: every magnitude is a field like any other
            amp = amp * float(10 ** rng.uniform(-14, 12))
            ctx.bucket('amp:any-magnitude')
        opd = gen.opd(rng, shape, wl) if rng.random() < 0.8 else 0
        direction = 'pupil->image' if rng.random() < 0.7 else 'image->pupil'
        oshape = gen.rshape(rng, 1, 14)
        if rng.random() < 0.15:
            oshape = None
        small_int = None
        if i % 7 == 3 and os_ >= 2:
            # shapes handed over as small NumPy integers (e.g. read from a uint8 header): shape * oversample does not fit the
            # type although the shape does
            oshape = tuple(127 // os_ + int(rng.integers(1, 8)) for _ in range(2))
            small_int = np.int8
            ctx.bucket('shape:small-int')
        narrow = None
        if i % 7 == 5:
            # the same optical system with its scalars held in single precision
            narrow = np.float32
            f32 = lambda v: tuple(float(np.float32(x)) for x in v) if isinstance(v, tuple) else float(np.float32(v))
            wl, z, dx, du = f32(wl), f32(z), f32(dx), f32(du)
            ctx.bucket('scalars:float32')
        full = shape if oshape is None else oshape
        r = rng.random()
        if r < 0.4:
            pshape = None
        else:
            pshape = (int(rng.integers(1, full[0] + 1)), int(rng.integers(1, full[1] + 1)))
        S = (full[0] * os_, full[1] * os_)
        mask = None
        if rng.random() < 0.4:
            mask = gen.support(rng, S).astype(float)
            if rng.random() < 0.5:
                mask = mask * rng.uniform(0.1, 2.0, size=S)
        chain2 = rng.random() < 0.3
        bks = ['in:' + gen.parity(shape), 'out:even' if S[0] % 2 == 0 else 'out:odd',
               'dx:aniso' if isinstance(dx, tuple) else 'dx:iso', 'du:aniso' if isinstance(du, tuple) else 'du:iso',
               'prop=shape' if pshape is None or tuple(pshape) == tuple(full) else 'prop<shape',
               'mask' if mask is not None else 'nomask', 'dir:' + direction]
        if mask is not None and pshape is not None and tuple(pshape) != tuple(full):
            bks.append('mask+prop')
        if chain2:
            bks.append('chain:2')
        desc = {'in': list(shape), 'wl': wl, 'z': z, 'dx': dx, 'du': du, 'os': os_, 'shape': oshape, 'prop': pshape,
                'mask': None if mask is None else probe.fp_array(mask)[:10], 'dir': direction, 'chain2': chain2,
                'data': probe.fp_array(amp)[:10]}
        ctx.case(desc, bks, nontrivial=int(np.count_nonzero(amp)) > 1)
        segkw = {}
        if rng.random() < 0.3:
            # a segmented description: the output wavefront then holds several fields whose sum is the answer
            segs, _ = gen.partition(rng, sup, int(rng.integers(2, 5)))
            segkw['mask'] = segs.astype(float)
            ctx.bucket('segmented')
        du_arg = du
        if narrow is not None:
            nar = lambda v: np.array(v, dtype=narrow) if isinstance(v, tuple) else narrow(v)
            wl, z, dx, du_arg = nar(wl), nar(z), nar(dx), nar(du)
        if direction == 'pupil->image':
            w = lentil.Wavefront(wl) * lentil.Pupil(amplitude=amp, opd=opd, pixelscale=dx, focal_length=z, **segkw)
            if chain2:
                m2 = gen.support(rng, shape)
                w = w * lentil.Pupil(amplitude=m2.astype(float), opd=gen.opd(rng, shape, wl), pixelscale=dx,
                                     focal_length=z)
        else:
            w = lentil.Wavefront(wl, focal_length=z) * lentil.Image(amplitude=amp, opd=opd, pixelscale=dx, **segkw)
            if chain2:
                w = w * lentil.Image(amplitude=gen.support(rng, shape).astype(float), pixelscale=dx)
        if not w.data:
            ctx.skip('empty wavefront after the plane chain')
            continue
        kw = {}
        if oshape is not None:
            kw['shape'] = oshape if rng.random() < 0.8 or oshape[0] != oshape[1] else oshape[0]
        if pshape is not None:
            kw['prop_shape'] = pshape
        if mask is not None:
            kw['mask'] = mask
        if small_int is not None:
            kw['shape'] = np.array(oshape, dtype=small_int) if i % 2 else tuple(small_int(v) for v in oshape)
            if pshape is not None:
                kw['prop_shape'] = np.array(pshape, dtype=small_int)
        du = du_arg
        os_int = os_
        if i % 6 == 1 and small_int is None:
            # an integer oversampling factor that arrives as a float (np.ceil(2 / Q), 4 / 2, a value from a configuration file: the
            # documented type of the argument is float)
            os_ = [float(os_), np.float64(os_), np.float32(os_)][(i // 6) % 3]
            ctx.bucket('oversample:integer-valued-float')
        try:
            lentil.propagate_dft(w, du, oversample=os_, **kw)     # probe decides
            if i % 3 == 0:
                # the same propagation again (same DFT shape keys): the probe checks every call, so a result that is only
                # right the first time a shape is seen does not go unnoticed
                ctx.bucket('repeated')
                lentil.propagate_dft(w, du, oversample=os_, **kw)
            if mask is not None and i % 2 == 0:
                # the caller keeps one mask array and rewrites its contents between calls (a moving region of interest)
                mask[...] = np.roll(mask, (int(rng.integers(1, 3)), -int(rng.integers(1, 3))), axis=(0, 1))
                ctx.bucket('mask:object-reused')
                lentil.propagate_dft(w, du, oversample=os_, **kw)
        except Exception:
            pass
