"""C18 — stochastic models are reproducible from their seed and physically bounded.

Event log + offline checker: every call of a seeded model is logged as (callable, argument fingerprint, seed,
result fingerprint, global-RNG state before/after); offline, each (callable, arguments, seed) group must have one
result fingerprint whatever the global state was, different seeds must give different draws and the global
state must never move.  Support and moments are decided with explicit false-alarm budgets (every statistical
bound at >= 7 sigma of its estimator).  The unseeded cosmic-ray model is driven through thousands of global states.
"""
import numpy as np

from vp import gen, probe
from vp import defaults
from vp import reuse
from vp import forms as argforms
from vp import corners

RULE = ('seeded generator: seeds 0..2^32, signal levels 0..1e12 (Gaussian approximation only for counts >= 1000), frame '
        'shapes square or not, scalar and array inputs, model parameters; negative / > int64 signals for the rejection '
        'clauses; masks of any aspect ratio for the surface error; global RNG states 0..N for cosmic rays.  distinct = distinct '
        '(model, arguments, seed | state) descriptors; non-trivial = frame with > 1 pixel.')
ASSUMPTIONS = ['statistical bounds are set at >= 7 sigma of the estimator (false-alarm probability < 1e-11 per test)',
               '"rejects" means raises an exception instead of returning a frame']
PLAN = {'quick': {'gen': 8}, 'thorough': {'gen': 16, 'tests': 1, 'docs': 1}}
REQUIRED_BUCKETS = ['defaults', 'corners', 'reuse', 'forms', 'shot:frame-dtype', 'shot:poisson', 'shot:poisson-large', 'shot:poisson-mixed', 'shot:gaussian-bias', 'shot:reject-negative:bright-frame', 'dark:large-rate', 'dark:near-integer-rate', 'shot:gaussian', 'shot:reject-negative', 'shot:reject-huge', 'shot:reject-array',
                    'read_noise', 'read_noise:small-frames', 'read_noise:cube', 'dark:nofpn', 'dark:fpn', 'rule07', 'psd:square', 'psd:nonsquare', 'cosmic', 'cosmic:long-side', 'cosmic:very-long-strip', 'fresh-process']
REQUIRED_ANCHORS = ['anchor:shot_noise', 'anchor:read_noise', 'anchor:dark_current', 'anchor:power_spectrum',
                    'anchor:_cosmic_ray', 'anchor:_nrays']
REQUIRED_ORACLES = ['deterministic', 'seed-sensitive', 'global-rng-untouched', 'global-rng-independent', 'poisson:support',
                    'poisson:moments', 'gaussian:support', 'gaussian:moments', 'shot:rejects', 'read:moments', 'dark=floor(rate)',
                    'psd:zero-outside', 'psd:rms', 'cosmic:wellformed', 'fresh-process']


def anchors(lentil):
    d = lentil.detector
    return [('shot_noise', d.shot_noise), ('read_noise', d.read_noise), ('dark_current', d.dark_current),
            ('rule07_dark_current', d.rule07_dark_current), ('power_spectrum', lentil.wfe.power_spectrum),
            ('_cosmic_ray', d._cosmic_ray), ('_nrays', d._nrays), ('_propagate_ray', d._propagate_ray)]


def core_verif():
    from vp import core
    return core.VERIF_DIR


def repo_dir_():
    from vp import core
    return core.repo_dir()


def gstate():
    s = np.random.get_state()
    return probe.fingerprint((s[0], s[1], s[2], s[3], s[4]))


class Log:
    def __init__(self, ctx):
        self.ctx = ctx
        self.events = []

    def call(self, name, fn, argfp, seed, *args, **kwargs):
        """Run a seeded model under a scrambled global state; log the event."""
        g0 = gstate()
        try:
            out = fn(*args, seed=seed, **kwargs)
            res = probe.fingerprint(np.asarray(out))
        except Exception as e:
            out, res = None, 'raise:' + type(e).__name__
        g1 = gstate()
        self.events.append((name, argfp, int(seed), res, g0 == g1))
        return out


def workload(ctx, lentil):
    defaults.run(ctx, lentil, 'C18', 'deterministic')
    reuse.run(ctx, lentil, 'C18', 'deterministic')
    argforms.run(ctx, lentil, 'C18', 'deterministic')
    corners.run(ctx, lentil, 'C18', 'deterministic')
    rng = ctx.rng
    D = lentil.detector
    log = Log(ctx)
    n = ctx.count(40, 300)
    N = 200000

    def scramble():
        np.random.seed(int(rng.integers(0, 2 ** 32)))
        np.random.uniform(size=int(rng.integers(0, 5)))

    # ---- determinism / seed sensitivity / global RNG, all seeded models ------------------------------------
    for i in range(n):
        shape = gen.rshape(rng, 2, 24)
        seeds = [int(rng.integers(0, 2 ** 32)) for _ in range(2)] + [int(rng.integers(0, 5))]
        img = rng.uniform(0, 1e4, size=shape)
        big = rng.uniform(2e3, 1e6, size=shape)
        mask = gen.support(rng, shape, kind=int(rng.choice([0, 3, 4])))
        if mask.sum() < 4:
            mask = np.ones(shape, bool)
        models = [
            ('shot:poisson', D.shot_noise, (img,), {'method': 'poisson'}),
            ('shot:gaussian', D.shot_noise, (big,), {'method': 'gaussian'}),
            ('read_noise', D.read_noise, (img, float(rng.uniform(1, 50))), {}),
            ('dark:fpn', D.dark_current, (float(rng.uniform(5, 500)), shape, float(rng.uniform(0.1, 0.4))), {}),
            ('rule07', D.rule07_dark_current, (float(rng.uniform(150, 250)), float(rng.uniform(8e-6, 12e-6)), 18e-6, shape,
                                               float(rng.uniform(0.1, 0.4))), {}),
            ('psd:square' if shape[0] == shape[1] else 'psd:nonsquare', lentil.wfe.power_spectrum,
             (mask.astype(float), float(rng.uniform(1e-3, 1e-2)), float(rng.uniform(1e-9, 1e-7)), float(rng.uniform(2, 10)),
              float(rng.uniform(2, 4))), {}),
        ]
        for name, fn, args, kw in models:
            afp = __import__('hashlib').sha256(probe.fingerprint((args, kw)).encode()).hexdigest()[:24]
            ctx.case({'model': name, 'shape': list(shape), 'seeds': seeds, 'args': afp}, [name], nontrivial=True)
            for sd in seeds:
                for rep in range(2):
                    scramble()
                    log.call(name.split(':')[0] + ':' + kw.get('method', name.split(':')[-1]), fn, afp, sd, *args, **kw)

    # ---- shot noise: support, moments, rejection ------------------------------------------------------------
    for i in range(max(6, n // 4)):
        lam = float(10 ** rng.uniform(-1, 5))
        seed = int(rng.integers(0, 2 ** 32))
        ctx.case({'poisson-moments': lam, 'seed': seed}, ['shot:poisson'])
        x = np.asarray(D.shot_noise(np.full(N, lam).reshape(400, 500), 'poisson', seed=seed), float)
        ctx.check(bool(np.all(x >= 0) and np.all(x == np.floor(x))), 'poisson:support', 'poisson|support',
                  'Poisson shot noise is not non-negative and integer-valued', {'lam': lam})
        m, v = float(x.mean()), float(x.var(ddof=1))
        ctx.check(abs(m - lam) <= 7 * np.sqrt(lam / N) and abs(v - lam) <= 7 * np.sqrt((lam + 2 * lam ** 2) / N), 'poisson:moments',
                  'poisson|moments', 'Poisson shot noise does not have mean and variance equal to the signal (7 sigma)',
                  {'lam': lam, 'mean': m, 'var': v})
        # the Poisson model over the whole documented range (up to 9.22e18 counts); moments are taken about the signal so that
        # the sample variance is not lost to rounding
        lam = float(10 ** rng.uniform(5, 18.9))
        ctx.case({'poisson-moments-large': lam, 'seed': seed}, ['shot:poisson-large'])
        x = np.asarray(D.shot_noise(np.full(N, lam).reshape(400, 500), 'poisson', seed=seed), float)
        ctx.check(bool(np.all(x >= 0) and np.all(x == np.floor(x))), 'poisson:support', 'poisson|support|large',
                  'Poisson shot noise is not non-negative and integer-valued', {'lam': lam})
        d = x - lam
        m, v = float(d.mean()), float(d.var(ddof=1))
        ctx.check(abs(m) <= 1.0 + 7 * np.sqrt(lam / N) and abs(v - lam) <= 1.0 + 7 * lam * np.sqrt(2.0 / N), 'poisson:moments',
                  'poisson|moments|large', 'Poisson shot noise of a large signal does not have mean and variance equal to the signal (7 sigma)',
                  {'lam': lam, 'mean-lam': m, 'var': v})
        lam = float(10 ** rng.uniform(3, 18.9))        # well beyond 2**31 and 2**53-ish counts are legal signals
        ctx.case({'gaussian-moments': lam, 'seed': seed}, ['shot:gaussian'])
        x = np.asarray(D.shot_noise(np.full(N, lam).reshape(500, 400), 'gaussian', seed=seed), float)
        ctx.check(bool(np.all(x >= 0) and np.all(x == np.floor(x))), 'gaussian:support', 'gaussian|support',
                  'Gaussian shot noise is not non-negative and integer-valued in its large-count regime', {'lam': lam})
        m, v = float(x.mean()), float(x.var(ddof=1))
        ctx.check(abs(m - lam) <= 1.0 + 7 * np.sqrt(lam / N) and abs(v - lam) <= 1.0 + 7 * lam * np.sqrt(2.0 / N), 'gaussian:moments',
                  'gaussian|moments', 'Gaussian shot noise does not have mean and variance equal to the signal (7 sigma)',
                  {'lam': lam, 'mean': m, 'var': v})
    # the Gaussian approximation at the low end of its documented regime (1000 .. 3000 counts), on a frame large enough that half a
    # count of bias in the mean stands out (a draw that is truncated instead of rounded is half a count low on average)
    for i in range(max(2, n // 40)):
        lam = float(rng.uniform(1000, 3000))
        seed = int(rng.integers(0, 2 ** 32))
        Ng = 4_000_000
        ctx.case({'gaussian-bias': lam, 'seed': seed}, ['shot:gaussian-bias'])
        x = np.asarray(D.shot_noise(np.full((2000, 2000), lam), 'gaussian', seed=seed), float)
        d = x - lam
        m, v = float(d.mean()), float(d.var(ddof=1))
        ctx.check(abs(m) <= 7 * np.sqrt(lam / Ng) and abs(v - lam) <= 0.2 + 7 * lam * np.sqrt(2.0 / Ng), 'gaussian:moments',
                  'gaussian|moments|bias', 'Gaussian shot noise does not have mean and variance equal to the signal (7 sigma on 4e6 pixels: '
                  'the mean is biased)', {'lam': lam, 'mean-lam': m, 'var': v, 'sigma_of_mean': float(np.sqrt(lam / Ng))})
    # the same counts in whatever type a camera driver or an earlier processing step delivers them (8- and 16-bit integers, half /
    # single / extended precision, a -0.0 left behind by rounding): the draw is a function of the counts and the seed
    for i in range(max(4, n // 20)):
        seed = int(rng.integers(0, 2 ** 32))
        shape_ = gen.rshape(rng, 8, 40)
        counts = rng.integers(0, 250, size=shape_).astype(float)        # exact in every type below
        if i % 2:
            counts = counts + 1000.0 * (rng.random(shape_) < 0.5)        # (up to 1249: still exact in half precision)
        for meth in ('poisson', 'gaussian'):
            ctx.case({'shot-frame-dtype': meth, 'shape': list(shape_), 'seed': seed}, ['shot:frame-dtype'])
            try:
                ref = np.asarray(D.shot_noise(counts, meth, seed=seed), float)
            except Exception as e:
                ctx.check(False, 'deterministic', f'shot|frame-dtype|raises={type(e).__name__}', str(e), {'method': meth})
                continue
            forms = [(np.dtype(t).name, counts.astype(t)) for t in (np.uint16, np.int32, np.float32, np.float16, np.longdouble)]
            if counts.max() < 256:
                forms.append(('uint8', counts.astype(np.uint8)))
            negz = counts.copy()
            negz[counts == 0] = -0.0
            forms.append(('minus-zero', negz))
            for nm_, fr in forms:
                try:
                    got = np.asarray(D.shot_noise(fr, meth, seed=seed), float)
                    ctx.check(got.shape == ref.shape and np.array_equal(got, ref), 'deterministic', f'shot|frame-dtype|{meth}',
                              'the same counts with the same seed give another frame when they are held in another numeric type',
                              {'method': meth, 'type': nm_, 'differ': int(np.sum(got != ref)) if got.shape == ref.shape else -1})
                except Exception as e:
                    ctx.check(False, 'deterministic', f'shot|frame-dtype|{meth}|raises={type(e).__name__}', f'{nm_}: {e}', {'method': meth, 'type': nm_})
    # one frame holding both faint pixels and pixels beyond 1e12 counts (a saturated star on a dark sky): every pixel is drawn from
    # its own distribution
    for i in range(max(4, n // 10)):
        lam = float(rng.uniform(0.3, 6))
        seed = int(rng.integers(0, 2 ** 32))
        frame = np.full((300, 400), lam)
        hot = rng.random(frame.shape) < 0.01
        frame[hot] = float(10 ** rng.uniform(12.5, 18))
        frame[0, 0] = float(10 ** rng.uniform(13, 18))
        hot[0, 0] = True
        ctx.case({'poisson-mixed': lam, 'hot': int(hot.sum()), 'seed': seed}, ['shot:poisson-mixed'])
        x = np.asarray(D.shot_noise(frame, 'poisson', seed=seed), float)
        f = x[~hot]
        ctx.check(bool(np.all(x >= 0) and np.all(x == np.floor(x))), 'poisson:support', 'poisson|support|mixed',
                  'Poisson shot noise of a frame with faint and very bright pixels is not non-negative and integer-valued', {'lam': lam})
        Nf = f.size
        m, v = float(f.mean()), float(f.var(ddof=1))
        p0 = float(np.mean(f == 0))
        ctx.check(abs(m - lam) <= 7 * np.sqrt(lam / Nf) and abs(v - lam) <= 7 * np.sqrt((lam + 2 * lam ** 2) / Nf)
                  and abs(p0 - np.exp(-lam)) <= 7 * np.sqrt(np.exp(-lam) * (1 - np.exp(-lam)) / Nf), 'poisson:moments',
                  'poisson|moments|mixed', 'the faint pixels of a frame that also holds very bright ones are not Poisson draws of their own signal',
                  {'lam': lam, 'mean': m, 'var': v, 'p0': p0})
    for i in range(n):
        method = ['poisson', 'gaussian'][i % 2]
        kind = ['neg-scalar', 'neg-array', 'neg-mixed', 'huge-scalar', 'huge-array', 'huge-mixed'][i % 6 if i % 12 < 6 else (i // 2) % 6]
        shape = gen.rshape(rng, 1, 8)
        ok_vals = rng.uniform(1e3, 1e5, size=shape)
        if kind == 'neg-scalar':
            x = -float(rng.uniform(0.5, 1e4))
        elif kind == 'neg-array':
            x = -rng.uniform(0.5, 1e4, size=shape)
        elif kind == 'neg-mixed':
            x = ok_vals.copy(); x.flat[int(rng.integers(0, x.size))] = -float(rng.uniform(1, 100))
            if rng.random() < 0.5 and x.size > 1:
                # ... next to a saturated star: a count of -50 is negative whatever the brightest pixel holds
                k_ = int(rng.integers(0, x.size))
                x.flat[k_] = float(10 ** rng.uniform(9, 16))
                x.flat[(k_ + 1) % x.size] = -float(rng.uniform(1, 100))
                if rng.random() < 0.3:
                    x = np.floor(np.clip(x, -1e18, 9e18)).astype(np.int64)
                ctx.bucket('shot:reject-negative:bright-frame')
        elif kind == 'huge-scalar':
            x = float(10 ** rng.uniform(19.1, 30))
        elif kind == 'huge-array':
            x = np.full(shape, float(10 ** rng.uniform(19.1, 30)))
        else:
            x = ok_vals.copy(); x.flat[int(rng.integers(0, x.size))] = float(10 ** rng.uniform(19.1, 30))
        bks = ['shot:reject-negative' if kind.startswith('neg') else 'shot:reject-huge'] + \
            (['shot:reject-array'] if not kind.endswith('scalar') else [])
        desc = {'reject': kind, 'method': method, 'shape': list(np.shape(x))}
        ctx.case(desc, bks)
        with np.errstate(all='ignore'):
            try:
                out = D.shot_noise(x, method, seed=int(rng.integers(0, 1000)))
                ctx.check(False, 'shot:rejects', f'shot|accepted|{method}|{kind.split("-")[0]}',
                          'shot noise returned a frame for a negative or unrepresentably large signal instead of rejecting it',
                          dict(desc, returned=np.asarray(out).ravel()[:4]))
            except Exception:
                ctx.check(True, 'shot:rejects', 'ok', 'ok')

    # ---- read noise moments; dark frames ------------------------------------------------------------------------
    for i in range(max(6, n // 4)):
        sig = float(10 ** rng.uniform(-1, 3))
        seed = int(rng.integers(0, 2 ** 32))
        base = rng.uniform(0, 1e4, size=(500, 400))
        ctx.case({'read-moments': sig, 'seed': seed}, ['read_noise'])
        x = np.asarray(D.read_noise(base, sig, seed=seed), float) - base
        m, v = float(x.mean()), float(x.var(ddof=1))
        ctx.check(abs(m) <= 7 * sig / np.sqrt(N) and abs(v - sig ** 2) <= 7 * sig ** 2 * np.sqrt(2.0 / N), 'read:moments',
                  'read|moments', 'read noise does not have zero mean and the requested standard deviation (7 sigma)',
                  {'sigma': sig, 'mean': m, 'var': v})
        # the same for frames of electrons stored as integers (counts), signed and unsigned
        for dt in (np.int64, np.uint16, np.int32):
            ibase = (rng.integers(200, 60000, size=(500, 400))).astype(dt)
            sig_i = float(rng.uniform(2, 20))
            xi = np.asarray(D.read_noise(ibase, sig_i, seed=seed), float) - ibase.astype(float)
            mi, vi = float(xi.mean()), float(xi.var(ddof=1))
            ctx.check(abs(mi) <= 7 * sig_i / np.sqrt(N) and abs(vi - sig_i ** 2) <= 7 * sig_i ** 2 * np.sqrt(2.0 / N), 'read:moments',
                      'read|moments|integer-frame', 'read noise on an integer-typed frame does not have zero mean and the requested '
                      'standard deviation (7 sigma)', {'sigma': sig_i, 'mean': mi, 'var': vi, 'dtype': np.dtype(dt).name})
    # read noise on very small frames, judged over an ensemble of seeds: every pixel is an independent N(0, sigma) draw
    # (a single pixel is still noisy; the pixels of one frame are not tied to each other)
    for i in range(3 if ctx.tier == 'quick' else 8):
        shp = [(1, 1), (2, 2), (3, 3), (1, 2), (2, 3)][i % 5]
        sig = float(rng.uniform(1, 30))
        K = 3000
        s0 = int(rng.integers(0, 2 ** 31))
        base = rng.uniform(100, 1000, size=shp)
        ctx.case({'read-small-frames': list(shp), 'sigma': sig, 'K': K}, ['read_noise:small-frames'])
        with probe.quiet():
            xs = np.array([np.asarray(D.read_noise(base, sig, seed=s0 + k), float) - base for k in range(K)])
        npx = shp[0] * shp[1]
        v = float(np.mean(xs ** 2))                 # pooled second moment about the true mean 0 (npx*K samples)
        m = float(np.mean(xs))
        ctx.check(abs(v - sig ** 2) <= 6 * sig ** 2 * np.sqrt(2.0 / (npx * K)) and abs(m) <= 6 * sig / np.sqrt(npx * K), 'read:moments',
                  'read|moments|small-frames', 'read noise on a very small frame, over an ensemble of seeds, does not have zero mean and '
                  'the requested standard deviation (6 sigma)', {'shape': list(shp), 'sigma': sig, 'var': v, 'mean': m})
        if npx > 1:
            # the frame mean is itself N(0, sigma/sqrt(npx)): pixels of one draw are independent, not forced to cancel
            fm = xs.reshape(K, -1).mean(axis=1)
            vm = float(np.mean(fm ** 2)) * npx
            ctx.check(abs(vm - sig ** 2) <= 6 * sig ** 2 * np.sqrt(2.0 / K), 'read:moments', 'read|moments|frame-mean',
                      'the mean of a read-noise frame does not fluctuate like the mean of independent draws', {'shape': list(shp), 'var_of_mean_x_n': vm,
                                                                                                               'sigma': sig})
    # a seeded cube: all its samples are independent draws - frames of the stack do not repeat each other
    for i in range(2 if ctx.tier == 'quick' else 6):
        nf, shp = int(rng.integers(8, 40)), gen.rshape(rng, 4, 24)
        sig = float(rng.uniform(1, 30))
        seed = int(rng.integers(0, 2 ** 32))
        cube = np.zeros((nf,) + tuple(shp))
        ctx.case({'read-cube': [nf] + list(shp), 'sigma': sig, 'seed': seed}, ['read_noise:cube'])
        x = np.asarray(D.read_noise(cube, sig, seed=seed), float)
        Nc = x.size
        rep = max(float(np.max(np.abs(x[a] - x[a - 1]))) for a in range(1, nf))
        dv = float(np.mean((x[1:] - x[:-1]) ** 2))          # differences of independent frames: variance 2 sigma^2
        ctx.check(x.shape == cube.shape and rep > 0 and abs(dv - 2 * sig ** 2) <= 7 * 2 * sig ** 2 * np.sqrt(3.0 / Nc)
                  and abs(float(x.var()) - sig ** 2) <= 7 * sig ** 2 * np.sqrt(2.0 / Nc), 'read:moments', 'read|moments|cube',
                  'the frames of a seeded read-noise cube are not independent draws with the requested standard deviation',
                  {'shape': list(x.shape), 'sigma': sig, 'var': float(x.var()), 'var_of_frame_differences': dv})
    for i in range(n):
        rate = float(10 ** rng.uniform(-1, 4))
        if i % 4 == 1:
            rate = float(10 ** rng.uniform(7.3, 12))                    # warm infrared arrays: more electrons than single precision counts
            ctx.bucket('dark:large-rate')
        elif i % 4 == 3:
            k_ = int(rng.integers(1, 10 ** int(rng.integers(1, 7))))    # a whisker below / above a whole number of electrons
            rate = k_ * (1 - float(10 ** rng.uniform(-10, -8))) if i % 8 == 3 else k_ * (1 + float(10 ** rng.uniform(-10, -8)))
            ctx.bucket('dark:near-integer-rate')
        shape = gen.rshape(rng, 1, 20)
        ctx.case({'dark': rate, 'shape': list(shape)}, ['dark:nofpn'])
        d = np.asarray(D.dark_current(rate, shape), float)
        ctx.check(d.shape == tuple(shape) and bool(np.all(d == np.floor(rate))), 'dark=floor(rate)', 'dark|nofpn',
                  'a dark frame without pattern noise is not floor(rate) everywhere', {'rate': rate, 'shape': list(shape)})
        d2 = np.asarray(D.dark_current(rate, shape, fpn_factor=0, seed=int(rng.integers(0, 99))), float)
        ctx.check(np.array_equal(d, d2), 'dark=floor(rate)', 'dark|nofpn|seed', 'seed changed a dark frame without pattern noise', {})

    # ---- surface error: zero outside the mask, exact RMS, any aspect ratio -----------------------------------------
    for i in range(n):
        shape = gen.rshape(rng, 6, 40, square_p=0.4)
        mask = gen.support(rng, shape, kind=int(rng.choice([0, 1, 3, 4, 5])))
        if mask.sum() < 6:
            mask = np.ones(shape, bool)
        rms = float(10 ** rng.uniform(-9, -6))
        seed = int(rng.integers(0, 2 ** 32))
        desc = {'psd': list(shape), 'rms': rms, 'seed': seed, 'mask': probe.fp_array(mask)[:8]}
        ctx.case(desc, ['psd:square' if shape[0] == shape[1] else 'psd:nonsquare'])
        try:
            opd = np.asarray(lentil.power_spectrum(mask.astype(float), float(rng.uniform(1e-3, 1e-2)), rms,
                                                   float(rng.uniform(2, 10)), float(rng.uniform(2, 4)), seed=seed), float)
        except Exception as e:
            ctx.check(False, 'psd:rms', f'psd|raises={type(e).__name__}' + ('|nonsquare' if shape[0] != shape[1] else ''),
                      f'power_spectrum raised {type(e).__name__}: {e}', desc)
            continue
        ctx.check(opd.shape == tuple(shape) and bool(np.all(opd[~mask] == 0)), 'psd:zero-outside', 'psd|outside',
                  'surface error is not zero outside its mask', desc)
        r = float(np.sqrt(np.mean(opd[mask] ** 2)))
        ctx.close('psd:rms', np.array([r]), np.array([rms]), 1e-11, 'psd|rms', 'surface error does not have the requested RMS over its mask',
                  desc, scale=rms)

    # ---- cosmic rays over many global states -------------------------------------------------------------------------
    nc = ctx.count(50, 500)
    for i in range(nc):
        state = ctx.seed * 1000003 + ctx.shard * 100003 + i
        shape = gen.rshape(rng, 2, 24)
        long = i % 6 == 5
        if long:
            # a strip detector with one very long side (more pixels than a 16-bit index can address)
            shape = (int(rng.integers(33000, 80000)), int(rng.integers(2, 5)))
            if rng.random() < 0.5:
                shape = shape[::-1]
        px = (float(rng.uniform(3e-6, 2e-5)), float(rng.uniform(3e-6, 2e-5)), float(rng.uniform(1e-6, 2e-5)))
        area = shape[0] * px[0] * shape[1] * px[1]
        nr = float(rng.choice([0.3, 1, 3, 8]))
        ts = nr / (4e4 * area)
        ctx.case({'cosmic-state': state, 'shape': list(shape), 'px': list(px), 'rays': nr}, ['cosmic:long-side' if long else 'cosmic'])
        np.random.seed(state % (2 ** 32))
        try:
            with np.errstate(all='ignore'):
                f = np.asarray(D.cosmic_rays(shape, px, ts), float)
            ctx.check(f.shape == tuple(shape) and bool(np.all(np.isfinite(f)) and np.all(f >= 0)), 'cosmic:wellformed', 'cosmic|frame',
                      'cosmic-ray frame does not have the requested shape / is negative or non-finite',
                      {'state': state, 'shape': list(shape)})
        except Exception as e:
            ctx.check(False, 'cosmic:wellformed', f'cosmic|raises={type(e).__name__}' + ('|long-side' if long else ''), f'cosmic_rays raised {type(e).__name__}: {e}',
                      {'state': state, 'shape': list(shape), 'px': list(px), 'ts': ts})
    # ---- very long strips, one ray per frame: the pixel addresses of a track stay inside the frame (recorded witness state 17148 of the
    # audit, plus fresh states) ---------------------------------------------------------------------------------------
    if ctx.shard % 4 == 1:
        shape_, px_ = (3, 500000), (5e-6, 5e-6, 50e-6)
        ts_ = 1.5 / (shape_[0] * px_[0] * shape_[1] * px_[1] * 4e4)
        for st in [17148] + [int(rng.integers(0, 2 ** 31)) for _ in range(ctx.count(10, 60))]:
            ctx.case({'cosmic-state': st, 'shape': list(shape_), 'one-ray': True}, ['cosmic:very-long-strip'])
            np.random.seed(st)
            try:
                with np.errstate(all='ignore'):
                    f = np.asarray(D.cosmic_rays(shape_, px_, ts_), float)
                ctx.check(f.shape == shape_ and bool(np.all(np.isfinite(f)) and np.all(f >= 0)), 'cosmic:wellformed', 'cosmic|frame|very-long-strip',
                          'cosmic-ray frame does not have the requested shape / is negative or non-finite', {'state': st})
            except Exception as e:
                ctx.check(False, 'cosmic:wellformed', f'cosmic|raises={type(e).__name__}|very-long-strip', f'cosmic_rays raised {type(e).__name__}: {e}',
                          {'state': st, 'shape': list(shape_)})
    # ---- history independence across processes: pairs of calls that differ in ONE argument are evaluated here in one order
    # and in a fresh interpreter in the opposite order; every result must be the same in both -----------------------------
    import os
    import pickle
    import subprocess
    import sys
    import tempfile
    calls = []
    for i in range(6 if ctx.tier == 'quick' else 24):
        shape = gen.rshape(rng, 6, 20)
        mask = gen.support(rng, shape, kind=int(rng.choice([0, 3, 4]))).astype(float)
        if mask.sum() < 4:
            mask = np.ones(shape)
        rms, hpf, ex, sd = float(rng.uniform(1e-9, 1e-7)), float(rng.uniform(2, 10)), float(rng.uniform(2, 4)), int(rng.integers(0, 99))
        ps1, ps2 = float(rng.uniform(1e-3, 5e-3)), float(rng.uniform(6e-3, 2e-2))
        calls.append(('wfe.power_spectrum', (mask, ps1, rms, hpf, ex), {'seed': sd}))
        calls.append(('wfe.power_spectrum', (mask, ps2, rms, hpf, ex), {'seed': sd}))          # only the pixel scale differs
        calls.append(('wfe.power_spectrum', (mask, ps2, rms * 2, hpf, ex), {'seed': sd}))      # only the rms differs (from the 2nd)
        img = rng.uniform(1e3, 1e5, size=shape)
        calls.append(('detector.read_noise', (img, 5.0), {'seed': sd}))
        calls.append(('detector.read_noise', (img, 9.0), {'seed': sd}))
        calls.append(('detector.dark_current', (120.0, shape, 0.2), {'seed': sd}))
        calls.append(('detector.dark_current', (120.0, shape, 0.3), {'seed': sd}))
        calls.append(('detector.shot_noise', (img, 'poisson'), {'seed': sd}))
        calls.append(('detector.shot_noise', (img, 'gaussian'), {'seed': sd}))

    def evaluate(lst):
        out = []
        for name, args, kw in lst:
            mod, fn = name.split('.')
            f = getattr(getattr(lentil, mod), fn)
            out.append(probe.fingerprint(np.asarray(f(*args, **kw))))
        return out
    here = evaluate(calls)
    with tempfile.TemporaryDirectory(prefix='vp-c18-') as td:
        pin, pout = td + '/in.pkl', td + '/out.pkl'
        with open(pin, 'wb') as f:
            pickle.dump(calls[::-1], f)
        code = ("import sys, pickle, numpy as np; sys.path.insert(0, %r); sys.path.insert(0, %r); import lentil; "
                "from vp import probe; calls = pickle.load(open(%r, 'rb')); out = []\n"
                "for name, args, kw in calls:\n"
                "    mod, fn = name.split('.'); f = getattr(getattr(lentil, mod), fn)\n"
                "    out.append(probe.fingerprint(np.asarray(f(*args, **kw))))\n"
                "pickle.dump(out, open(%r, 'wb'))") % (core_verif(), repo_dir_(), pin, pout)
        # the other interpreter also runs under a different string-hash salt (PYTHONHASHSEED): nothing about a seeded draw may
        # depend on per-process hashing
        env = dict(os.environ, PYTHONHASHSEED=str(1 + (int(os.environ.get('PYTHONHASHSEED', '0') or 0) + 12345 + ctx.seed) % 4000000000))
        p = subprocess.run([sys.executable, '-c', code], timeout=300, stdout=subprocess.PIPE, stderr=subprocess.STDOUT, env=env)
        if p.returncode != 0:
            ctx.check(False, 'fresh-process', 'fresh-process|failed', 'fresh-process replay failed: ' + p.stdout.decode()[-300:], {})
        else:
            there = pickle.load(open(pout, 'rb'))[::-1]
            for (name, args, kw), a, b in zip(calls, here, there):
                ctx.case({'fresh-process': name, 'seed': kw.get('seed')}, ['fresh-process'])
                ctx.check(a == b, 'fresh-process', f'history-dependent|{name}',
                          f'{name}: the result of a seeded call depends on which calls were made before it in the process or on the '
                          'process itself (differs from the same call in a fresh interpreter with the opposite call order and another '
                          'string-hash salt)', {'model': name})
    ctx.notes['_events'] = log.events


def finish(ctx, lentil):
    """Offline log checker: determinism, seed sensitivity, global RNG untouched."""
    events = ctx.notes.pop('_events', [])
    groups = {}
    for name, afp, seed, res, gsame in events:
        groups.setdefault((name, afp), {}).setdefault(seed, set()).add(res)
        ctx.check(gsame, 'global-rng-untouched', f'rng|advanced|{name}', 'a seeded function read or advanced the global random state',
                  {'model': name})
    for (name, afp), by_seed in groups.items():
        for seed, results in by_seed.items():
            ctx.check(len(results) == 1 and not next(iter(results)).startswith('raise:'), 'deterministic', f'deterministic|{name}',
                      'the same arguments and seed gave different draws (or raised) under different global RNG states',
                      {'model': name, 'seed': seed, 'results': sorted(results)[:3]})
            ctx.check(len(results) == 1, 'global-rng-independent', f'rng|dependent|{name}',
                      'a seeded draw depends on the global random state', {'model': name, 'seed': seed})
        firsts = [sorted(r)[0] for r in by_seed.values()]
        if len(by_seed) > 1:
            ctx.check(len(set(firsts)) == len(firsts), 'seed-sensitive', f'seed-insensitive|{name}',
                      'different seeds gave the same draw', {'model': name, 'seeds': sorted(by_seed)})
    ctx.notes['events'] = len(events)
