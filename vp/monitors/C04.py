"""C04 — tilt carried as metadata is optically identical to tilt in the OPD.

(i)  four representations of one tilt (OPD ramp, Tilt plane, Wavefront(tilt=),
     fit_tilt of the ramp) are propagated on the real code and each is compared,
     on the samples it evaluated, with the independent model F0(u - s),
     s_row = +f*tx*os/du_row, s_col = -f*ty*os/du_col (direct summation at
     shifted coordinates); per-segment tilts: ramp vs fit_tilt vs sum_k F0_k(u - s_k);
(ii) fit_tilt removes exactly the per-segment least-squares tip/tilt (own lstsq),
     keeps the piston, records the removed angles, OPD + recorded ramp unchanged;
(iii) Field.shift over random lists of Tilt / DispersiveTilt elements is additive and
     permutation invariant, with the stated signs and the matching axis' pixel size;
(iv) DispersiveTilt.shift lies on the trace polynomial at the arc length that the
     dispersion polynomial maps to the wavelength (own Gauss-Legendre arc length).
"""
import itertools

import numpy as np
from numpy.polynomial.legendre import leggauss

from vp import gen, probe, propmodel, refmodels as rm
from vp import defaults
from vp import reuse
from vp import forms as argforms
from vp import corners

RULE = ('seeded generator: tilt angles giving 0.01 px .. more than the output size, circular/irregular/segmented apertures '
        '4..20 per side with per-segment tilts, square and non-square du and dx, oversample 1..4, 1..4 tilt elements in '
        'random order, trace/dispersion polynomials of order 1..3.  distinct = distinct (aperture, angles, sampling, '
        'representation set) descriptors; non-trivial = non-zero tilt.')
ASSUMPTIONS = ['numerically solved dispersion/trace orders are compared to 1e-6 relative',
               'segments whose pixels are collinear (rank-deficient tip/tilt fit) are skipped']
PLAN = {'quick': {'gen': 8}, 'thorough': {'gen': 16, 'tests': 1}}
REQUIRED_BUCKETS = ['defaults', 'corners', 'reuse', 'forms', 'tilt:subpixel', 'tilt:pixels', 'tilt:beyond-output', 'du:aniso', 'du:iso', 'os>1', 'segmented',
                    'rep:ramp', 'rep:plane', 'rep:wavefront', 'rep:fit', 'multi-tilt', 'scan', 'disp:propagated', 'sequence', 'disp:order1', 'disp:order>1',
                    'refit-after-update', 'refit-segmented', 'fit:flat-segments', 'fit:fill-outside-mask', 'opd:not-c-contiguous', 'fit:array-dtypes', 'scalars:float32']
REQUIRED_ANCHORS = ['anchor:Tilt.shift', 'anchor:Field.shift', 'anchor:fit_tilt', 'anchor:ptt_vector',
                    'anchor:DispersiveTilt.shift', 'probe:propagate_dft']
REQUIRED_ORACLES = ['rep=model', 'fit=lstsq', 'fit:opd+tilt', 'shift:additive', 'shift:order', 'shift:signs',
                    'dispersive:trace', 'dispersive:arclength', 'no-overlap']


def anchors(lentil):
    P = lentil.plane
    return [('Tilt.shift', P.Tilt.shift), ('Field.shift', lentil.field.Field.shift),
            ('fit_tilt', P.Plane.fit_tilt), ('ptt_vector', P.Plane.ptt_vector.fget),
            ('DispersiveTilt.shift', P.DispersiveTilt.shift), ('DispersiveTilt._trace', P.DispersiveTilt._trace),
            ('DispersiveTilt._dispersion', P.DispersiveTilt._dispersion)]


def dft_oracle(ctx, args, kwargs, result, exc, pre):
    a = propmodel.bind_dft(args, kwargs)
    propmodel.check_dft(ctx, 'propagate_dft', a['wavefront'], a, result, exc)   # tilt-free calls only


def install(ctx, lentil):
    probe.wrap_function(lentil.propagate.propagate_dft, dft_oracle, ctx, 'propagate_dft')


def ramp(shape, dx, tx, ty):
    """OPD of a tilt of tx about x and ty about y: tx*r*dx_row - ty*c*dx_col."""
    r = (np.arange(shape[0]) - shape[0] // 2)[:, None]
    c = (np.arange(shape[1]) - shape[1] // 2)[None, :]
    return tx * r * dx[0] - ty * c * dx[1]


def ctor_angles(t):
    """(x, y) constructor arguments of a recorded lentil Tilt (attributes are stored swapped)."""
    return float(t.y), float(t.x)


def evaluated(out):
    """List of (coordinate set, data, offset) of the output fields."""
    return [(rm.coordset(f.data.shape, f.offset), f) for f in out.data if f.data.size > 0]


def compare_rep(ctx, name, out, segfields, shifts, ar, ac, S, desc):
    """Compare the propagated wavefront `out` of representation `name` with sum_k F0_k(u - s_k) on the
    samples that every output field evaluated."""
    ev = evaluated(out)
    with probe.quiet():
        got = out.field
    if len(ev) == 0:
        return 'none-evaluated'
    if len(ev) != len(segfields):
        ctx.skip(f'{name}: some segment windows fell off the output (sum not comparable)')
        return 'partial'
    common = set.intersection(*[cs for cs, _ in ev])
    full = rm.coordset(S, (0, 0))
    common &= full
    if not common:
        ctx.skip(f'{name}: no sample evaluated by every field')
        return 'partial'
    pts = np.array(sorted(common))
    u, v = pts[:, 0].astype(float), pts[:, 1].astype(float)
    ref = np.zeros(len(pts), dtype=rm.CLD)
    umax = vmax = 0.0
    for fields, s in zip(segfields, shifts):
        ref += rm.fraunhofer(fields, ar, ac, u - s[0], v - s[1], points=True)
        umax = max(umax, float(np.max(np.abs(u - s[0]))))
        vmax = max(vmax, float(np.max(np.abs(v - s[1]))))
    tol = rm.fraunhofer_tol([f for fs in segfields for f in fs], ar, ac, umax, vmax, c=256.0)
    g = got[pts[:, 0] + S[0] // 2, pts[:, 1] + S[1] // 2]
    ctx.close('rep=model', g, ref, 1.0, f'rep|{name}',
              f'tilt representation "{name}" does not give F0(u - f*angle/du*oversample) with the stated signs',
              dict(desc, rep=name, samples=len(pts)), scale=tol)
    return 'compared'


def arclen(trace, x):
    xs, ws = leggauss(96)
    t = 0.5 * x * (xs + 1)
    return 0.5 * x * np.sum(ws * np.sqrt(1 + np.polyval(np.polyder(trace), t) ** 2))


def rand_dispersive(rng):
    to = int(rng.integers(1, 4))
    do = int(rng.integers(1, 4))
    trace = [rng.normal() * 10 ** (2 * (k - 1)) if k > 1 else rng.normal() * 2 for k in range(to, 0, -1)] \
        + [rng.normal() * 1e-4]
    if to == 2 and rng.random() < 0.4:
        # an almost straight trace: a fitted calibration polynomial whose quadratic term is tiny but not zero
        trace[0] = float(rng.choice([-1, 1])) * float(10 ** rng.uniform(-11, -3))
    lam0 = rng.uniform(4e-7, 1e-6)
    d1 = rng.uniform(1e-4, 5e-4) * rng.choice([-1, 1])
    disp = [rng.normal() * 1e-2 * abs(d1) * 10 ** (2 * (k - 2)) for k in range(do, 1, -1)] + [d1, lam0]
    if rng.random() < 0.25:
        # polynomials stored with leading zero coefficients (fixed-length calibration rows): same polynomial, same displacement;
        # the nominal order (len - 1) is what decides which evaluation path lentil takes, hence the tolerance class below
        if rng.random() < 0.7:
            trace = [0.0] * int(rng.integers(1, 3)) + trace
            to = len(trace) - 1
        if rng.random() < 0.5:
            disp = [0.0] * int(rng.integers(1, 3)) + disp
            do = len(disp) - 1
    return trace, disp, to, do, lam0


def _lay(ctx, rng, a):
    """The same map in another memory layout (Fortran order as read from a .mat / IDL file, a transposed or strided view)."""
    b = gen.layout(rng, a, p=0.4)
    if b is not a and not b.flags.c_contiguous:
        ctx.bucket('opd:not-c-contiguous')
    return b


def workload(ctx, lentil):
    defaults.run(ctx, lentil, 'C04', 'rep=model')
    reuse.run(ctx, lentil, 'C04', 'rep=model')
    argforms.run(ctx, lentil, 'C04', 'rep=model')
    corners.run(ctx, lentil, 'C04', 'rep=model')
    rng = ctx.rng
    n = ctx.count(70, 500)
    hi = 18 if ctx.tier == 'quick' else 32

    # ---- (i) representations ------------------------------------------------
    for i in range(n):
        wl, z, dx, du, os_ = gen.optics(rng)
        narrow32 = i % 7 == 3
        if narrow32:
            z = float(np.float32(z))      # a focal length (and, below, angles) that are exact single precision numbers
        dxs = np.broadcast_to(np.asarray(dx, float), (2,))
        dus = np.broadcast_to(np.asarray(du, float), (2,))
        shape = gen.rshape(rng, 4, hi)
        A = gen.support(rng, shape, kind=int(rng.choice([0, 1, 3, 4])))
        if A.sum() < 4:
            A = np.ones(shape, bool)
        amp = gen.amplitude(rng, A)
        opd = gen.opd(rng, shape, wl, smooth=True)
        # make the base OPD free of least-squares tip/tilt over the aperture, so that the tilt recorded by
        # fit_tilt is the applied tilt and every representation evaluates the same displaced window
        idx = np.argwhere(A)
        M = np.c_[np.ones(len(idx)), (idx[:, 0] - shape[0] // 2) * dxs[0], -(idx[:, 1] - shape[1] // 2) * dxs[1]]
        if np.linalg.matrix_rank(M) < 3:
            ctx.skip('representations: collinear aperture')
            continue
        sol = np.linalg.lstsq(M, opd[A], rcond=None)[0]
        opd = (opd - ramp(shape, dxs, sol[1], sol[2])) * A
        oshape = gen.rshape(rng, 4, 14)
        S = (oshape[0] * os_, oshape[1] * os_)
        # choose the displacement in oversampled output pixels, then derive the angles
        mag = ['sub', 'px', 'beyond'][int(rng.choice([0, 1, 1, 2], p=[0.3, 0.3, 0.25, 0.15]))]
        if mag == 'sub':
            sp = rng.uniform(-0.9, 0.9, size=2)
        elif mag == 'px':
            sp = rng.uniform(-0.45, 0.45, size=2) * np.array(S)
        else:
            sp = rng.choice([-1, 1], size=2) * rng.uniform(1.3, 3.0, size=2) * np.array(S)
        if rng.random() < 0.2:
            sp[int(rng.integers(0, 2))] = 0.0
        tx = sp[0] * dus[0] / (z * os_)           # s_row = +z*tx*os/du_row
        ty = -sp[1] * dus[1] / (z * os_)          # s_col = -z*ty*os/du_col
        if narrow32:
            tx, ty = float(np.float32(tx)), float(np.float32(ty))
        s = (float(z * tx * os_ / dus[0]), float(-z * ty * os_ / dus[1]))
        ar = dxs[0] * dus[0] / (wl * z * os_)
        ac = dxs[1] * dus[1] / (wl * z * os_)
        bks = [{'sub': 'tilt:subpixel', 'px': 'tilt:pixels', 'beyond': 'tilt:beyond-output'}[mag],
               'du:aniso' if isinstance(du, tuple) else 'du:iso'] + (['os>1'] if os_ > 1 else [])
        desc = {'shape': list(shape), 'out': list(oshape), 'os': os_, 'wl': wl, 'z': z, 'dx': dx, 'du': du,
                'tx': float(tx), 'ty': float(ty), 'shift_px': [s[0], s[1]], 'A': probe.fp_array(A)[:10]}
        ctx.case(desc, bks, nontrivial=bool(tx or ty))
        base = [[(amp * np.exp(2j * np.pi * opd / wl), (0, 0))]]
        reps = {}
        try:
            reps['ramp'] = lentil.Wavefront(wl) * lentil.Pupil(amplitude=amp, opd=opd + ramp(shape, dxs, tx, ty),
                                                               pixelscale=dx, focal_length=z)
            z_a, tx_a, ty_a = z, tx, ty
            if narrow32:
                # ... handed over as NumPy single precision scalars (read from a float32 table): the same numbers
                z_a, tx_a, ty_a = np.float32(z), np.float32(tx), np.float32(ty)
                ctx.bucket('scalars:float32')
            reps['plane'] = lentil.Wavefront(wl) * lentil.Pupil(amplitude=amp, opd=opd, pixelscale=dx,
                                                                focal_length=z_a) * lentil.Tilt(x=tx_a, y=ty_a)
            reps['wavefront'] = lentil.Wavefront(wl, tilt=[tx_a, ty_a] if i % 2 else np.array([tx_a, ty_a])) * lentil.Pupil(amplitude=amp, opd=opd,
                                                                                   pixelscale=dx, focal_length=z_a)
            reps['fit'] = lentil.Wavefront(wl) * lentil.Pupil(amplitude=amp, opd=_lay(ctx, rng, opd + ramp(shape, dxs, tx, ty)),
                                                              pixelscale=dx, focal_length=z).fit_tilt()
        except Exception as e:
            ctx.check(False, 'rep=model', f'rep|build-raises={type(e).__name__}', f'{type(e).__name__}: {e}', desc)
            continue
        for name, w in reps.items():
            ctx.bucket('rep:' + name)
            try:
                out = lentil.propagate_dft(w, du, shape=oshape, oversample=os_)
            except Exception as e:
                ctx.check(False, 'rep=model', f'rep|{name}|raises={type(e).__name__}',
                          f'propagating representation {name} raised {type(e).__name__}: {e}', desc)
                continue
            st = compare_rep(ctx, name, out, base, [s], ar, ac, S, desc)
            overlap_possible = abs(s[0]) < S[0] - 1 and abs(s[1]) < S[1] - 1
            if name != 'ramp':
                if st == 'none-evaluated':
                    with probe.quiet():
                        f = out.field
                    ctx.check(not overlap_possible and not f.any(), 'no-overlap', f'rep|{name}|nothing-evaluated',
                              'a tilted field whose window overlaps the output was not evaluated at all', desc)
                elif not overlap_possible:
                    ctx.check(True, 'no-overlap', 'ok', 'ok')
                if st == 'compared' and overlap_possible:
                    # evaluated window must cover the output ∩ (window displaced by s), up to one sample
                    cs = evaluated(out)[0][0]
                    rows = [r for r in range(-(S[0] // 2), -(S[0] // 2) + S[0])
                            if -(S[0] // 2) + s[0] + 1 <= r <= -(S[0] // 2) + S[0] - 1 + s[0] - 1]
                    cols = [c for c in range(-(S[1] // 2), -(S[1] // 2) + S[1])
                            if -(S[1] // 2) + s[1] + 1 <= c <= -(S[1] // 2) + S[1] - 1 + s[1] - 1]
                    need = {(r, c) for r in rows for c in cols}
                    ctx.check(need <= cs, 'rep=model', f'rep|{name}|window',
                              'the evaluated window does not follow the image displacement', desc)

    # ---- field-point scan: one tilted intermediate wavefront re-used with different Tilt planes ---------------
    for i in range(n // 2):
        wl, z, dx, du, os_ = gen.optics(rng, aniso_p=0.3)
        dxs = np.broadcast_to(np.asarray(dx, float), (2,))
        dus = np.broadcast_to(np.asarray(du, float), (2,))
        shape = gen.rshape(rng, 5, 14)
        A = gen.support(rng, shape, kind=int(rng.choice([0, 1, 4])))
        if A.sum() < 6:
            A = np.ones(shape, bool)
        amp = gen.amplitude(rng, A)
        oshape = gen.rshape(rng, 6, 12)
        S = (oshape[0] * os_, oshape[1] * os_)
        ar = dxs[0] * dus[0] / (wl * z * os_)
        ac = dxs[1] * dus[1] / (wl * z * os_)

        def angle():
            sp = rng.uniform(-0.12, 0.12, size=2) * np.array(S)
            return (float(sp[0] * dus[0] / (z * os_)), float(-sp[1] * dus[1] / (z * os_))), (float(sp[0]), float(sp[1]))
        (t0, s0), pts = angle(), [angle() for _ in range(3)]
        how = int(rng.integers(0, 3))
        desc = {'scan': how, 'shape': list(shape), 'out': list(oshape), 'os': os_, 'wl': wl, 'z': z, 'dx': dx, 'du': du}
        ctx.case(desc, ['multi-tilt', 'scan'])
        pup = lentil.Pupil(amplitude=amp, pixelscale=dx, focal_length=z)
        if how == 0:
            w1 = lentil.Wavefront(wl, tilt=list(t0)) * pup
        elif how == 1:
            w1 = lentil.Wavefront(wl) * pup * lentil.Tilt(x=t0[0], y=t0[1])
        else:
            w1 = lentil.Wavefront(wl) * lentil.Pupil(amplitude=amp, opd=ramp(shape, dxs, *t0) * A, pixelscale=dx,
                                                     focal_length=z).fit_tilt()
        base = [[(amp + 0j, (0, 0))]]
        # the same tilt element applied twice in one chain (double pass on a steering mirror): displacements add
        (td, sd2) = pts[0]
        tobj = lentil.Tilt(x=td[0], y=td[1])
        try:
            outd = lentil.propagate_dft((w1 * tobj) * tobj, du, shape=oshape, oversample=os_)
            compare_rep(ctx, 'same-element-twice', outd, base, [(s0[0] + 2 * sd2[0], s0[1] + 2 * sd2[1])], ar, ac, S, desc)
        except Exception as e:
            ctx.check(False, 'rep=model', f'rep|same-element-twice|raises={type(e).__name__}', str(e), desc)
        for (t, sft) in pts:
            try:
                out = lentil.propagate_dft(w1 * lentil.Tilt(x=t[0], y=t[1]), du, shape=oshape, oversample=os_)
            except Exception as e:
                ctx.check(False, 'rep=model', f'rep|scan|raises={type(e).__name__}', str(e), desc)
                break
            compare_rep(ctx, 'scan', out, base, [(s0[0] + sft[0], s0[1] + sft[1])], ar, ac, S, desc)

    # ---- dispersive elements in a propagation (alone and together with angular tilt, either order) -----------------
    for i in range(n // 2):
        wl, z, dx, du, os_ = gen.optics(rng, aniso_p=0.3)
        dxs = np.broadcast_to(np.asarray(dx, float), (2,))
        dus = np.broadcast_to(np.asarray(du, float), (2,))
        shape = gen.rshape(rng, 5, 12)
        A = gen.support(rng, shape, kind=int(rng.choice([0, 1, 4])))
        if A.sum() < 6:
            A = np.ones(shape, bool)
        amp = gen.amplitude(rng, A)
        oshape = gen.rshape(rng, 6, 12)
        S = (oshape[0] * os_, oshape[1] * os_)
        ar = dxs[0] * dus[0] / (wl * z * os_)
        ac = dxs[1] * dus[1] / (wl * z * os_)
        to, do = int(rng.integers(1, 4)), int(rng.integers(1, 4))
        # a displacement of a few output pixels: lambda = lam0 + d1*d (+ small higher orders)
        span = float(rng.uniform(0.05, 0.2)) * min(S) * float(min(dus)) / os_          # metres on the focal plane
        lam0 = wl * float(rng.uniform(0.9, 1.1))
        d1 = (wl - lam0) / (span * float(rng.choice([-1, 1]))) if wl != lam0 else 1e-3
        disp = [float(rng.normal() * 1e-2 * abs(d1) / span ** (k - 1)) for k in range(do, 1, -1)] + [d1, lam0]
        trace = [float(rng.normal() * 0.3 / span ** (k - 1)) for k in range(to, 1, -1)] + [float(rng.normal()), 0.0]
        desc = {'dispersive-propagation': {'trace': trace, 'dispersion': disp}, 'shape': list(shape), 'out': list(oshape),
                'os': os_, 'wl': wl, 'z': z, 'dx': dx, 'du': du}
        ctx.case(desc, ['disp:order1' if (to == 1 and do == 1) else 'disp:order>1', 'disp:propagated'])
        g = lentil.DispersiveTilt(trace=trace, dispersion=disp)
        try:
            x, y = g.shift(wavelength=wl)
            x, y = float(np.ravel(x)[0]), float(np.ravel(y)[0])
        except Exception as e:
            ctx.check(False, 'dispersive:trace', f'dispersive|raises={type(e).__name__}', str(e), desc)
            continue
        sd = (-y * os_ / dus[0], x * os_ / dus[1])             # rows grow downwards (-y), columns with +x
        tx, ty = float(rng.normal() * 2) * dus[0] / (z * os_), float(rng.normal() * 2) * dus[1] / (z * os_)
        st = (z * tx * os_ / dus[0], -z * ty * os_ / dus[1])
        pup = lentil.Pupil(amplitude=amp, pixelscale=dx, focal_length=z)
        for label, planes, s in (('dispersive', [g], sd),
                                 ('tilt+dispersive', [lentil.Tilt(x=tx, y=ty), g], (sd[0] + st[0], sd[1] + st[1])),
                                 ('dispersive+tilt', [g, lentil.Tilt(x=tx, y=ty)], (sd[0] + st[0], sd[1] + st[1]))):
            try:
                w = lentil.Wavefront(wl) * pup
                for pl_ in planes:
                    w = w * pl_
                out = lentil.propagate_dft(w, du, shape=oshape, oversample=os_)
            except Exception as e:
                ctx.check(False, 'rep=model', f'rep|{label}|raises={type(e).__name__}' + ('|order>1' if (to > 1 or do > 1) else ''),
                          f'propagating a wavefront carrying a dispersive element raised {type(e).__name__}: {e}', desc)
                continue
            compare_rep(ctx, label, out, [[(amp + 0j, (0, 0))]], [s], ar, ac, S, desc)

    # ---- per-segment tilts: ramp vs fit vs model ---------------------------------
    for i in range(n // 2):
        wl, z, dx, du, os_ = gen.optics(rng)
        dxs = np.broadcast_to(np.asarray(dx, float), (2,))
        dus = np.broadcast_to(np.asarray(du, float), (2,))
        shape = gen.rshape(rng, 8, hi)
        A = gen.support(rng, shape, kind=int(rng.choice([0, 1, 4])))
        if A.sum() < 16:
            A = np.ones(shape, bool)
        segs, style = gen.partition(rng, A, int(rng.integers(2, 5)))
        # blobs/stripes only: every segment needs non-collinear pixels
        ok = all(np.linalg.matrix_rank(np.c_[np.ones(int(sg.sum())), np.argwhere(sg)]) == 3 for sg in segs)
        if not ok:
            ctx.skip('segmented: collinear segment')
            continue
        amp = gen.amplitude(rng, A)
        opd0 = gen.opd(rng, shape, wl, smooth=True)
        oshape = gen.rshape(rng, 5, 12)
        S = (oshape[0] * os_, oshape[1] * os_)
        shifts = []
        opd = opd0.copy()
        angles = []
        for sg in segs:
            sp = rng.uniform(-0.3, 0.3, size=2) * np.array(S) if rng.random() < 0.7 else rng.uniform(-0.8, 0.8, size=2)
            tx = sp[0] * dus[0] / (z * os_)
            ty = -sp[1] * dus[1] / (z * os_)
            angles.append((float(tx), float(ty)))
            opd = opd + ramp(shape, dxs, tx, ty) * sg
        ar = dxs[0] * dus[0] / (wl * z * os_)
        ac = dxs[1] * dus[1] / (wl * z * os_)
        desc = {'segmented': len(segs), 'style': style, 'shape': list(shape), 'out': list(oshape), 'os': os_, 'wl': wl,
                'z': z, 'dx': dx, 'du': du, 'angles': angles}
        ctx.case(desc, ['segmented', 'du:aniso' if isinstance(du, tuple) else 'du:iso'])
        pup = lentil.Pupil(amplitude=amp, opd=opd, mask=segs.astype(float), pixelscale=dx, focal_length=z)
        fit = pup.fit_tilt()
        # model: per segment, field without ITS least-squares tilt displaced by that tilt  ==  field with the full OPD
        # (the physical statement): compare the fitted representation with the un-fitted one through the model
        segfields, sh = [], []
        for k, sg in enumerate(segs):
            # remove my own LSQ tilt of the total OPD on this segment, displace by it
            idx = np.argwhere(sg)
            r = (idx[:, 0] - shape[0] // 2) * dxs[0]
            c = -(idx[:, 1] - shape[1] // 2) * dxs[1]
            sol = np.linalg.lstsq(np.c_[np.ones(len(idx)), r, c], opd[sg], rcond=None)[0]
            o = opd - ramp(shape, dxs, sol[1], sol[2])
            segfields.append([(amp * sg * np.exp(2j * np.pi * o / wl), (0, 0))])
            sh.append((float(z * sol[1] * os_ / dus[0]), float(-z * sol[2] * os_ / dus[1])))
        try:
            out_fit = lentil.propagate_dft(lentil.Wavefront(wl) * fit, du, shape=oshape, oversample=os_)
            lentil.propagate_dft(lentil.Wavefront(wl) * pup, du, shape=oshape, oversample=os_)  # probe: C02 model
        except Exception as e:
            ctx.check(False, 'rep=model', f'rep|segmented|raises={type(e).__name__}', str(e), desc)
            continue
        compare_rep(ctx, 'fit-segmented', out_fit, segfields, sh, ar, ac, S, desc)

    # ---- (ii) fit_tilt = least squares --------------------------------------------
    for i in range(n):
        shape = gen.rshape(rng, 4, hi)
        dx = float(rng.uniform(1e-3, 5e-3))
        dxs = (dx, dx * float(rng.uniform(0.5, 2))) if rng.random() < 0.5 else (dx, dx)
        A = gen.support(rng, shape)
        seg = rng.random() < 0.5
        if seg:
            segs, _ = gen.partition(rng, A, int(rng.integers(1, 5)))
        else:
            segs = A[None]
        opd = rng.normal(size=shape) * 1e-7 + ramp(shape, dxs, rng.normal() * 1e-5, rng.normal() * 1e-5) \
            + rng.normal() * 1e-7
        if len(segs) >= 2 and rng.random() < 0.35:
            # some segments perfectly flat (OPD exactly zero) while segments listed after them are tilted
            flat = rng.random(len(segs)) < 0.5
            flat[-1] = False
            flat[0] = True if rng.random() < 0.7 else flat[0]
            for sg, fl in zip(segs, flat):
                if fl:
                    opd[sg] = 0.0
            ctx.bucket('fit:flat-segments')
        amp = gen.amplitude(rng, A)
        if i % 4 == 1:
            # a measured map: the file's fill value wherever there is no aperture - the least-squares tilt of a segment is that of the
            # samples inside the segment
            opd = np.where(A, opd, [-9999.0, 1e20, 9.97e36, 1e9][(i // 4) % 4])
            ctx.bucket('fit:fill-outside-mask')
        desc = {'fit_tilt': list(shape), 'segments': len(segs), 'seg3d': bool(seg), 'dx': list(dxs),
                'opd': probe.fp_array(opd)[:10]}
        ctx.case(desc, ['segmented'] if len(segs) > 1 else [])
        opd_arg, mdt, adt = opd.copy(), float, float
        if i % 5 == 2 and i % 4 != 1:
            # maps, masks and amplitudes in the precisions other parts of a pipeline deliver: single and extended precision OPD maps
            # (the numbers are kept), masks / amplitudes as extended or single precision, boolean or 8-bit arrays
            odt = [np.float32, np.longdouble, float, np.longdouble][(i // 5) % 4]
            opd_arg = opd.astype(odt)
            opd = opd_arg.astype(float)
            mdt = [np.longdouble, np.float32, bool, np.uint8][(i // 5) % 4]
            adt = [float, np.longdouble, np.float32, float][(i // 5) % 4]
            ctx.bucket('fit:array-dtypes')
            desc = dict(desc, dtypes=[np.dtype(odt).name, np.dtype(mdt).name, np.dtype(adt).name])
        pl = lentil.Pupil(amplitude=amp.astype(adt), opd=_lay(ctx, rng, opd_arg), mask=(segs.astype(mdt) if seg else A.astype(mdt)),
                          pixelscale=dxs, focal_length=1.0)
        inplace = bool(rng.random() < 0.5)
        try:
            q = pl.fit_tilt(inplace=inplace)
        except Exception as e:
            ctx.check(False, 'fit=lstsq', f'fit|raises={type(e).__name__}', str(e), desc)
            continue
        ctx.check((q is pl) == inplace, 'fit=lstsq', 'fit|inplace-identity', 'inplace flag not honoured', desc)
        if len(q.tilt) != len(segs):
            ctx.check(False, 'fit=lstsq', 'fit|count', 'fit_tilt did not record one tilt per segment',
                      dict(desc, recorded=len(q.tilt)))
            continue
        for k, sg in enumerate(segs):
            idx = np.argwhere(sg)
            M = np.c_[np.ones(len(idx)), (idx[:, 0] - shape[0] // 2) * dxs[0], -(idx[:, 1] - shape[1] // 2) * dxs[1]]
            if np.linalg.matrix_rank(M) < 3:
                ctx.skip('fit: rank-deficient segment')
                continue
            sol = np.linalg.lstsq(M, opd[sg], rcond=None)[0]
            rx, ry = ctor_angles(q.tilt[k])
            # yardsticks: a perfectly flat segment has zero tilt and zero OPD, so rounding noise (1e-20 rad, 1e-39 m) is measured
            # against the plane as a whole - its largest OPD, and the tilt that would produce that OPD across the array
            oglob = max(float(np.max(np.abs(opd[A]))), 1e-300)
            sc = max(abs(sol[1]), abs(sol[2]), oglob / (min(dxs) * max(shape)))
            ctx.close('fit=lstsq', np.array([rx, ry]), np.array([sol[1], sol[2]]), 1e-8, 'fit|angles',
                      'recorded angles are not the least-squares tip/tilt of the segment', dict(desc, seg=k), scale=sc)
            after = np.asarray(q.opd, dtype=float)
            rec = ramp(shape, dxs, rx, ry)
            osc = max(float(np.max(np.abs(opd[sg]))), oglob)
            ctx.close('fit:opd+tilt', (after + rec)[sg], opd[sg], 1e-10, 'fit|opd+tilt',
                      'OPD plus the recorded tilt ramp differs from the OPD before fitting (piston or more was removed)',
                      dict(desc, seg=k), scale=osc)
            # the residual has no tip/tilt left but keeps the piston
            sol2 = np.linalg.lstsq(M, after[sg], rcond=None)[0]
            ctx.close('fit=lstsq', np.array([sol2[1], sol2[2]]), np.zeros(2), 1e-8, 'fit|residual-tilt',
                      'tip/tilt remains after fit_tilt', dict(desc, seg=k), scale=sc)
            ctx.close('fit=lstsq', np.array([sol2[0]]), np.array([sol[0]]), 1e-8, 'fit|piston',
                      'fit_tilt changed the piston', dict(desc, seg=k), scale=max(abs(sol[0]), osc))

    # ---- re-fit after an OPD update: the plane's total tilt must still be propagated ---------
    for i in range(max(8, n // 4)):
        wl, z, dx, du, os_ = gen.optics(rng, aniso_p=0.3)
        dxs = np.broadcast_to(np.asarray(dx, float), (2,))
        dus = np.broadcast_to(np.asarray(du, float), (2,))
        shape = gen.rshape(rng, 6, 16)
        A = gen.support(rng, shape, kind=int(rng.choice([0, 1, 4])))
        if A.sum() < 6:
            A = np.ones(shape, bool)
        amp = gen.amplitude(rng, A)
        oshape = gen.rshape(rng, 6, 12)
        S = (oshape[0] * os_, oshape[1] * os_)
        sp1 = rng.uniform(-0.2, 0.2, size=2) * np.array(S)
        sp2 = rng.uniform(-0.2, 0.2, size=2) * np.array(S)
        t1 = (sp1[0] * dus[0] / (z * os_), -sp1[1] * dus[1] / (z * os_))
        t2 = (sp2[0] * dus[0] / (z * os_), -sp2[1] * dus[1] / (z * os_))
        desc = {'refit': list(shape), 'out': list(oshape), 'os': os_, 'wl': wl, 'z': z, 'dx': dx, 'du': du,
                't1': [float(x) for x in t1], 't2': [float(x) for x in t2]}
        ctx.case(desc, ['refit-after-update'])
        segm = A.astype(float)
        if i % 2 == 1:
            sg_, _ = gen.partition(rng, A, int(rng.integers(2, 4)))
            if all(np.linalg.matrix_rank(np.c_[np.ones(int(q.sum())), np.argwhere(q)]) == 3 for q in sg_):
                segm = sg_.astype(float)       # the same history on a segmented plane (one tilt per segment per fit)
                ctx.bucket('refit-segmented')
        pl = lentil.Pupil(amplitude=amp, opd=ramp(shape, dxs, *t1) * A, mask=segm, pixelscale=dx, focal_length=z)
        pl.fit_tilt(inplace=True)
        pl.opd = pl.opd + ramp(shape, dxs, *t2) * A
        pl.fit_tilt(inplace=True)
        ar = dxs[0] * dus[0] / (wl * z * os_)
        ac = dxs[1] * dus[1] / (wl * z * os_)
        s = (float(sp1[0] + sp2[0]), float(sp1[1] + sp2[1]))
        try:
            out = lentil.propagate_dft(lentil.Wavefront(wl) * pl, du, shape=oshape, oversample=os_)
        except Exception as e:
            ctx.check(False, 'rep=model', f'rep|refit|raises={type(e).__name__}', str(e), desc)
            continue
        nseg = 1 if segm.ndim == 2 else segm.shape[0]
        fields_ = [[(amp * A + 0j, (0, 0))]] if nseg == 1 else [[(amp * q + 0j, (0, 0))] for q in segm]
        compare_rep(ctx, 'refit', out, fields_, [s] * nseg, ar, ac, S, desc)

    # ---- (iii) Field.shift: additive, order independent, signs and axes ------------------------
    Field = lentil.field.Field
    for i in range(n * 2):
        z = float(rng.uniform(0.5, 30))
        wl = float(rng.uniform(5e-7, 9e-7))
        ps = (float(rng.uniform(2e-6, 2e-5)), float(rng.uniform(2e-6, 2e-5))) if rng.random() < 0.6 else \
            (lambda p: (p, p))(float(rng.uniform(2e-6, 2e-5)))
        os_ = int(rng.integers(1, 5))
        k = int(rng.integers(1, 5))
        elems, ctor = [], []
        with_disp = False
        for j in range(k):
            if rng.random() < 0.65:
                tx, ty = float(rng.normal() * 1e-5), float(rng.normal() * 1e-5)
                elems.append(lentil.Tilt(x=tx, y=ty))
                ctor.append(('tilt', tx, ty))
            else:
                trace, disp, to, do, lam0 = rand_dispersive(rng)
                elems.append(lentil.DispersiveTilt(trace=trace, dispersion=disp))
                ctor.append(('disp', to, do))
                with_disp = True
        desc = {'shift': ctor, 'z': z, 'wl': wl, 'ps': list(ps), 'os': os_}
        ctx.case(desc, ['multi-tilt'] if k > 1 else [], nontrivial=True)
        one = lambda lst, ind: np.array([float(np.ravel(v)[0]) for v in
                                         Field(np.ones((2, 2)), tilt=list(lst)).shift(z=z, wavelength=wl, pixelscale=ps,
                                                                                      oversample=os_, indexing=ind)])
        try:
            tot = one(elems, 'ij')
            parts = sum(one([e], 'ij') for e in elems)
        except Exception as e:
            ctx.check(False, 'shift:additive', f'shift|raises={type(e).__name__}', str(e), desc)
            continue
        sc = max(float(np.max(np.abs(parts))), 1e-9)
        ctx.close('shift:additive', tot, parts, 1e-9, 'shift|additive', 'displacements of several tilt elements do not add',
                  desc, scale=sc)
        perms = list(itertools.permutations(range(k)))
        for p in perms[:6]:
            ctx.close('shift:order', one([elems[q] for q in p], 'ij'), tot, 1e-9, 'shift|order',
                      'total displacement depends on the order of the tilt elements', desc, scale=sc)
        # signs / axes for the angular elements
        ang = [c for c in ctor if c[0] == 'tilt']
        if not with_disp:
            exp = np.array([sum(z * c[1] for c in ang) * os_ / ps[0], -sum(z * c[2] for c in ang) * os_ / ps[1]])
            ctx.close('shift:signs', tot, exp, 1e-12, 'shift|signs' + ('|aniso' if ps[0] != ps[1] else ''),
                      'Field.shift is not (+f*tx*os/du_row, -f*ty*os/du_col)', desc, scale=max(float(np.max(np.abs(exp))), 1e-12))
            xy = one(elems, 'xy')
            ctx.close('shift:signs', xy, np.array([exp[1], -exp[0]]), 1e-12, 'shift|xy' + ('|aniso' if ps[0] != ps[1] else ''),
                      'Field.shift(indexing="xy") is not (col displacement, -row displacement)', desc,
                      scale=max(float(np.max(np.abs(exp))), 1e-12))

    # ---- one dispersive / angular element evaluated for a sequence of wavelengths and distances (broadband loop) ------------
    for i in range(n):
        trace, disp, to, do, lam0 = rand_dispersive(rng)
        g = lentil.DispersiveTilt(trace=trace, dispersion=disp)
        tx, ty = float(rng.normal() * 1e-5), float(rng.normal() * 1e-5)
        t = lentil.Tilt(x=tx, y=ty)
        wls = [float(lam0 + rng.uniform(-2e-7, 2e-7)) for _ in range(4)]
        zs = [float(rng.uniform(0.5, 20)) for _ in range(4)]
        ctx.case({'element-sequence': {'trace': trace, 'dispersion': disp}, 'wls': wls}, ['sequence'])
        first = None
        for wl, zz in zip(wls + wls[:1], zs + zs[:1]):
            try:
                x, y = g.shift(wavelength=wl)
                x, y = float(np.ravel(x)[0]), float(np.ravel(y)[0])
                tol = 1e-12 if (to == 1 and do == 1) else 1e-6
                ctx.close('dispersive:trace', np.array([y]), np.array([np.polyval(trace, x)]), tol, 'dispersive|on-trace|sequence',
                          'dispersive displacement does not lie on the trace polynomial (element re-used for another wavelength)',
                          {'wl': wl}, scale=max(abs(y), abs(x), 1e-9))
                ctx.close('dispersive:arclength', np.array([np.polyval(disp, arclen(trace, x))]), np.array([wl]), tol,
                          'dispersive|arclength|sequence', 'arc length does not map to the wavelength (element re-used)', {'wl': wl}, scale=wl)
                xt, yt = t.shift(xs=0.0, ys=0.0, z=zz, wavelength=wl)
                ctx.close('shift:signs', np.array([float(xt), float(yt)]), np.array([-zz * ty, -zz * tx]), 1e-13, 'tilt|shift|sequence',
                          'Tilt.shift is not (-z*angle_y, -z*angle_x) (element re-used for another distance)', {'z': zz},
                          scale=max(abs(zz * tx), abs(zz * ty), 1e-12))
                if first is None:
                    first = (x, y)
            except Exception as e:
                ctx.check(False, 'dispersive:trace', f'dispersive|sequence|raises={type(e).__name__}', str(e), {'wl': wl})
        if first is not None:
            ctx.close('dispersive:trace', np.array([x, y]), np.array(first), 1e-9, 'dispersive|sequence|repeat',
                      'the same wavelength gives another displacement after the element was used for other wavelengths', {},
                      scale=max(abs(first[0]), abs(first[1]), 1e-9))

    # ---- (iv) dispersive elements --------------------------------------------------------------
    for i in range(n * 2):
        trace, disp, to, do, lam0 = rand_dispersive(rng)
        wl = float(lam0 + rng.uniform(-2e-7, 2e-7))
        xs, ys = (float(rng.normal() * 1e-4), float(rng.normal() * 1e-4)) if rng.random() < 0.5 else (0.0, 0.0)
        desc = {'dispersive': {'trace': trace, 'dispersion': disp}, 'wl': wl, 'in': [xs, ys]}
        ctx.case(desc, ['disp:order1' if (to == 1 and do == 1) else 'disp:order>1'])
        cls = lentil.DispersiveTilt
        g = cls(trace=trace, dispersion=disp)
        try:
            x, y = g.shift(wavelength=wl, xs=xs, ys=ys)
        except Exception as e:
            ctx.check(False, 'dispersive:trace', f'dispersive|raises={type(e).__name__}', str(e), desc)
            continue
        x = float(np.ravel(x)[0]) - xs
        y = float(np.ravel(y)[0]) - ys
        tol = 1e-12 if (to == 1 and do == 1) else 1e-6
        ctx.close('dispersive:trace', np.array([y]), np.array([np.polyval(trace, x)]), tol, 'dispersive|on-trace',
                  'dispersive displacement does not lie on the trace polynomial', desc,
                  scale=max(abs(y), abs(x), 1e-9))
        d = arclen(trace, x)
        ctx.close('dispersive:arclength', np.array([np.polyval(disp, d)]), np.array([wl]), tol, 'dispersive|arclength',
                  'arc length of the displacement is not where the dispersion polynomial gives the wavelength', desc,
                  scale=wl)
