"""C05 — propagation conserves energy.

Driver: commensurate samplings (1/alpha = N*oversample an integer per axis, N >= input size) for the DFT
and the FFT propagator; totals are compared with sum|input field|^2 (rendered by the monitor's own canvas
model); nested centred windows are recorded and checked offline for monotonicity; normalize_power.
Online probe on propagate_dft / propagate_fft: for every commensurate call whose window fits inside one
period, 0 <= sum(intensity) <= input power and intensity >= 0.
"""
import numpy as np

from vp import gen, probe, propmodel, refmodels as rm
from vp import defaults
from vp import reuse
from vp import forms as argforms
from vp import corners

RULE = ('seeded generator: complex pupil fields 2..20 per side, integers N_r, N_c >= input size (N_r != N_c allowed), '
        'du = lambda*z/(dx*N) per axis, anisotropic dx, oversample 1..3, nested centred windows k1<k2<...<=N, target powers; '
        'distinct = distinct (shape, N, os, dx, data hash) descriptors; non-trivial = more than one non-zero input sample.')
ASSUMPTIONS = ['1/alpha is an integer number of samples on each axis (commensurate sampling), as the property states']
PLAN = {'quick': {'gen': 8}, 'thorough': {'gen': 16, 'tests': 1, 'docs': 1}}
REQUIRED_BUCKETS = ['defaults', 'corners', 'reuse', 'forms', 'N:rect', 'N:square', 'dx:aniso', 'dx:iso', 'os=1', 'os=2', 'os=3', 'N:odd', 'N:even', 'fft', 'dft',
                    'nested', 'normalize_power', 'normalize_power:small-int', 'normalize_power:narrow-float', 'amp:extreme-magnitude', 'fft:any-period', 'fft:period%os!=0', 'amp:signed', 'nested:mask-values']
REQUIRED_ANCHORS = ['probe:propagate_dft', 'probe:propagate_fft', 'anchor:_fft2', 'anchor:normalize_power',
                    'anchor:dft2']
REQUIRED_ORACLES = ['dft:full-period', 'fft:full-period', 'nested:monotone', 'intensity>=0', 'normalize_power',
                    'online:bounded']


def anchors(lentil):
    return [('_fft2', lentil.propagate._fft2), ('normalize_power', lentil.util.normalize_power),
            ('dft2', lentil.fourier.dft2), ('_fft_shape', lentil.propagate._fft_shape)]


def _power(w):
    fields = [(f.data, f.offset) for f in w.data if f.data.size > 0]
    if any(np.ndim(d) != 2 for d, _ in fields):
        return None
    c = rm.Canvas()
    for d, o in fields:
        c.add(d, o)
    return float(sum(abs(v) ** 2 for v in c.d.values()))


def _power_fast(w):
    fields = [(f.data, f.offset) for f in w.data if f.data.size > 0]
    if not fields or any(np.ndim(d) != 2 for d, _ in fields):
        return None
    # bounding canvas
    lo_r = min(-(d.shape[0] // 2) + int(o[0]) for d, o in fields)
    hi_r = max(-(d.shape[0] // 2) + int(o[0]) + d.shape[0] for d, o in fields)
    lo_c = min(-(d.shape[1] // 2) + int(o[1]) for d, o in fields)
    hi_c = max(-(d.shape[1] // 2) + int(o[1]) + d.shape[1] for d, o in fields)
    can = np.zeros((hi_r - lo_r, hi_c - lo_c), complex)
    for d, o in fields:
        r0 = -(d.shape[0] // 2) + int(o[0]) - lo_r
        c0 = -(d.shape[1] // 2) + int(o[1]) - lo_c
        can[r0:r0 + d.shape[0], c0:c0 + d.shape[1]] += d
    return float(np.sum(np.abs(can) ** 2)), can.shape


def online(kind):
    def oracle(ctx, args, kwargs, result, exc, pre):
        if exc is not None:
            return
        w = args[0] if args else kwargs['wavefront']
        if w.pixelscale is None or not np.isfinite(w.focal_length) or any(f.tilt for f in w.data):
            return
        pw = _power_fast(w)
        if pw is None:
            return
        P, ext = pw
        os_ = kwargs.get('oversample', 2)
        du = np.broadcast_to(np.asarray(args[1] if len(args) > 1 else kwargs['pixelscale'], float), (2,))
        dx = np.broadcast_to(np.asarray(w.pixelscale, float), (2,))
        inv = [w.wavelength * w.focal_length * os_ / (dx[k] * du[k]) for k in (0, 1)]
        if any(abs(v - round(v)) > 1e-9 * max(1, v) for v in inv):
            ctx.skip('online: sampling not commensurate')
            return
        S = [int(x) for x in result.shape]
        if S[0] > round(inv[0]) or S[1] > round(inv[1]) or ext[0] > round(inv[0]) or ext[1] > round(inv[1]):
            ctx.skip('online: window or input larger than one period')
            return
        with probe.quiet():
            inten = result.intensity
        tot = float(inten.sum())
        ctx.check(float(inten.min()) >= 0 if inten.size else True, 'intensity>=0', f'{kind}|negative-intensity',
                  'negative intensity', {'shape': S})
        ctx.check(-1e-300 <= tot <= P * (1 + 1e-10) + 1e-300, 'online:bounded', f'{kind}|online|total>input',
                  'an output window inside one period holds more energy than the input',
                  {'total': tot, 'input': P, 'shape': S, 'period': [round(v) for v in inv]})
    return oracle


def install(ctx, lentil):
    probe.wrap_function(lentil.propagate.propagate_dft, online('dft'), ctx, 'propagate_dft')
    probe.wrap_function(lentil.propagate.propagate_fft, online('fft'), ctx, 'propagate_fft')


def workload(ctx, lentil):
    defaults.run(ctx, lentil, 'C05', 'dft:full-period')
    reuse.run(ctx, lentil, 'C05', 'dft:full-period')
    argforms.run(ctx, lentil, 'C05', 'dft:full-period')
    corners.run(ctx, lentil, 'C05', 'dft:full-period')
    rng = ctx.rng
    n = ctx.count(90, 700)
    hi = 20 if ctx.tier == 'quick' else 40
    ctx.notes['families'] = []
    for i in range(n):
        shape = gen.rshape(rng, 2, hi)
        wl = float(rng.uniform(4e-7, 2e-6))
        z = float(rng.uniform(0.5, 30))
        dx0 = float(rng.uniform(0.5e-3, 5e-3))
        dx = (dx0, dx0 * float(rng.uniform(0.6, 1.6))) if rng.random() < 0.5 else (dx0, dx0)
        os_ = int(rng.integers(1, 4))
        Nr = shape[0] + int(rng.integers(0, 12))
        Nc = Nr + (shape[1] - shape[0]) if rng.random() < 0.3 else shape[1] + int(rng.integers(0, 12))
        Nc = max(Nc, shape[1])
        du = (wl * z / (dx[0] * Nr), wl * z / (dx[1] * Nc))
        A = gen.support(rng, shape)
        amp = gen.amplitude(rng, A) * float(rng.uniform(0.1, 10))
        if i % 8 == 5:
            # faint or bright beams: conservation is relative to the input power, whatever its magnitude
            amp = amp * float(10 ** rng.uniform(-14, -7)) if i % 16 == 5 else amp * float(10 ** rng.uniform(5, 12))
            ctx.bucket('amp:extreme-magnitude')
        if (amp < 0).any():
            ctx.bucket('amp:signed')
        opd = gen.opd(rng, shape, wl, smooth=False)
        seg = rng.random() < 0.3
        kw = {}
        if seg:
            segs, _ = gen.partition(rng, A, int(rng.integers(2, 5)))
            kw['mask'] = segs.astype(float)
        desc = {'shape': list(shape), 'N': [Nr, Nc], 'os': os_, 'dx': list(dx), 'wl': wl, 'z': z, 'seg': bool(seg),
                'data': probe.fp_array(amp)[:10]}
        bks = ['N:rect' if Nr != Nc else 'N:square', 'dx:aniso' if dx[0] != dx[1] else 'dx:iso', f'os={os_}',
               'N:odd' if Nr % 2 else 'N:even']
        ctx.case(desc, bks, nontrivial=int(np.count_nonzero(amp)) > 1)
        pupil = lentil.Pupil(amplitude=amp, opd=opd, pixelscale=dx if dx[0] != dx[1] or rng.random() < 0.5 else dx[0],
                             focal_length=z, **kw)
        w = lentil.Wavefront(wl) * pupil
        P = _power(w)
        ref_P = float(np.sum(np.abs(amp * (A if seg else (amp != 0))) ** 2))
        if abs(P - ref_P) > 1e-10 * ref_P:
            ctx.skip('input power of the wavefront differs from the pupil (C07 territory)')
        # DFT, one full period
        ctx.bucket('dft')
        try:
            out = lentil.propagate_dft(w, du, shape=(Nr, Nc), oversample=os_)
            with probe.quiet():
                I = out.intensity
            ctx.close('dft:full-period', np.array([I.sum()]), np.array([P]), 1e-10, 'dft|full-period',
                      'DFT propagation over exactly one period does not conserve the input power', desc, scale=P)
            ctx.check(bool(I.min() >= 0), 'intensity>=0', 'dft|negative-intensity', 'negative intensity', desc)
        except Exception as e:
            ctx.check(False, 'dft:full-period', f'dft|raises={type(e).__name__}', str(e), desc)
        # FFT, default shape (= full grid) and explicit full shape
        ctx.bucket('fft')
        try:
            if rng.random() < 0.5 and (Nr * os_) % os_ == 0:
                out = lentil.propagate_fft(w, du, shape=(Nr, Nc), oversample=os_)
            else:
                out = lentil.propagate_fft(w, du, oversample=os_)
            with probe.quiet():
                I = out.intensity
            ok_shape = tuple(int(x) for x in out.shape) == (Nr * os_, Nc * os_)
            ctx.check(ok_shape, 'fft:full-period', 'fft|grid', 'FFT grid is not 1/alpha samples per axis',
                      dict(desc, got=[int(x) for x in out.shape]))
            ctx.close('fft:full-period', np.array([I.sum()]), np.array([P]), 1e-10, 'fft|full-period',
                      'FFT propagation over its full grid does not conserve the input power', desc, scale=P)
            ctx.check(bool(I.min() >= 0), 'intensity>=0', 'fft|negative-intensity', 'negative intensity', desc)
        except Exception as e:
            ctx.check(False, 'fft:full-period', f'fft|raises={type(e).__name__}', str(e), desc)
        # FFT whose period is any integer G >= input size (not necessarily a multiple of the oversampling factor):
        # the default output is the whole grid and holds the whole input power
        ctx.bucket('fft:any-period')
        try:
            Gr = max(shape) + int(rng.integers(0, 14))
            Gc = Gr if rng.random() < 0.6 or dx[0] != dx[1] else max(shape) + int(rng.integers(0, 14))
            if (Gr % os_ or Gc % os_):
                ctx.bucket('fft:period%os!=0')
            duG = (wl * z * os_ / (dx[0] * Gr), wl * z * os_ / (dx[1] * Gr))
            if Gc != Gr:
                duG = (duG[0], wl * z * os_ / (dx[1] * Gc))
            out = lentil.propagate_fft(w, duG, oversample=os_)
            with probe.quiet():
                I = out.intensity
            gotS = tuple(int(x) for x in out.shape)
            ctx.check(gotS == (Gr, Gc), 'fft:full-period', 'fft|grid|any-period', 'default FFT output is not the whole 1/alpha grid',
                      dict(desc, G=[Gr, Gc], got=list(gotS)))
            ctx.close('fft:full-period', np.array([I.sum()]), np.array([P]), 1e-10, 'fft|full-period|any-period',
                      'FFT propagation over its full grid (period not tied to the oversampling factor) does not conserve the input power',
                      dict(desc, G=[Gr, Gc]), scale=P)
        except Exception as e:
            ctx.check(False, 'fft:full-period', f'fft-any-period|raises={type(e).__name__}', str(e), desc)
        # FFT with a scratch buffer that is reused (dirty) across the cases of this history
        try:
            need = (Nr * os_, Nc * os_)
            sc = ctx.notes.get('_scratch')
            if sc is None or sc.shape[0] < need[0] or sc.shape[1] < need[1]:
                sc = rng.normal(size=(need[0] + 7, need[1] + 11)) + 1j * rng.normal(size=(need[0] + 7, need[1] + 11))
                ctx.notes['_scratch'] = sc
            out = lentil.propagate_fft(w, du, oversample=os_, scratch=sc)
            with probe.quiet():
                I = out.intensity
            ctx.close('fft:full-period', np.array([I.sum()]), np.array([P]), 1e-10, 'fft|full-period|reused-scratch',
                      'FFT propagation with a reused scratch buffer does not conserve the input power', desc, scale=P)
        except Exception as e:
            ctx.check(False, 'fft:full-period', f'fft-scratch|raises={type(e).__name__}', str(e), desc)
        # nested centred windows (recorded; checked offline in finish)
        if i % 2 == 0:
            ctx.bucket('nested')
            ks = sorted(set(int(x) for x in rng.integers(1, min(Nr, Nc) + 1, 4)) | {min(Nr, Nc)})
            fam = []
            for k in ks:
                kr, kc = (k, k) if rng.random() < 0.5 else (min(Nr, k + int(rng.integers(0, 3))), k)
                try:
                    use_prop = rng.random() < 0.4
                    if use_prop:
                        out = lentil.propagate_dft(w, du, shape=(Nr, Nc), prop_shape=(kr, kc), oversample=os_)
                    else:
                        out = lentil.propagate_dft(w, du, shape=(kr, kc), oversample=os_)
                    with probe.quiet():
                        I = out.intensity
                    fam.append([kr, kc, float(I.sum()), float(I.min())])
                except Exception as e:
                    ctx.check(False, 'nested:monotone', f'nested|raises={type(e).__name__}', str(e), desc)
            # mask-defined windows: centred boxes of any aspect ratio given as an output mask (same nesting requirement)
            for k in ks[:3]:
                kr = min(Nr, k + int(rng.integers(0, 4)))
                kc = k
                try:
                    mk = np.zeros((Nr * os_, Nc * os_))
                    r0, c0 = (Nr * os_) // 2 - (kr * os_) // 2, (Nc * os_) // 2 - (kc * os_) // 2
                    mk[r0:r0 + kr * os_, c0:c0 + kc * os_] = 1
                    if k % 3 == 1:
                        # the window mask as it comes out of other tools: boolean, 8-bit 0/255, a sum of overlapping windows (2 in
                        # the overlap) - every open sample belongs to the window, none of them amplifies the light
                        mk = [mk.astype(bool), (mk * 255).astype(np.uint8), mk + (np.indices(mk.shape)[0] >= r0 + (kr * os_) // 2) * mk][(k // 3) % 3]
                        ctx.bucket('nested:mask-values')
                    out = lentil.propagate_dft(w, du, shape=(Nr, Nc), oversample=os_, mask=mk)
                    with probe.quiet():
                        I = out.intensity
                    fam.append([kr, kc, float(I.sum()), float(I.min())])
                    # and the same window asked for through shape= must hold the same energy
                    o2 = lentil.propagate_dft(w, du, shape=(kr, kc), oversample=os_)
                    with probe.quiet():
                        e2 = float(o2.intensity.sum())
                    ctx.close('nested:monotone', np.array([float(I.sum())]), np.array([e2]), 1e-10, 'nested|mask-vs-shape',
                              'a centred window selected by a mask holds a different energy than the same window selected by shape',
                              dict(desc, window=[kr, kc]), scale=max(P, 1e-300))
                except Exception as e:
                    ctx.check(False, 'nested:monotone', f'nested-mask|raises={type(e).__name__}', str(e), desc)
            # make the family nested in both axes
            fam.sort(key=lambda t: (t[0], t[1]))
            chain = []
            for t in fam:
                if not chain or (t[0] >= chain[-1][0] and t[1] >= chain[-1][1]):
                    chain.append(t)
            ctx.notes['families'].append({'P': P, 'chain': chain, 'desc': {'shape': list(shape), 'N': [Nr, Nc], 'os': os_}})

    # normalize_power
    for i in range(n):
        shape = gen.rshape(rng, 1, hi)
        a = rng.normal(size=shape) * (rng.random(shape) < 0.8)
        if rng.random() < 0.5:
            a = a + 1j * rng.normal(size=shape)
        if not np.any(a):
            a[0, 0] = 1
        if i % 7 == 6 and not np.iscomplexobj(a):
            a = np.round(a * 5).astype(np.int64)            # integer-typed amplitude maps (e.g. binary masks)
            if not np.any(a):
                a[0, 0] = 1
        if i % 9 == 4:
            # apertures held as boolean / small-integer arrays (r < R, masks read from image files): 0/1 maps with more open
            # samples than the type could count, and grey-level maps near full scale
            dt = [bool, np.uint8, np.int8, np.int16, np.uint16][int(rng.integers(0, 5))]
            big = (int(rng.integers(17, 24)), int(rng.integers(17, 24)))
            if dt is bool or rng.random() < 0.5:
                a = (rng.random(big) < 0.9).astype(dt)
            else:
                a = rng.integers(int(np.iinfo(dt).max * 0.5), np.iinfo(dt).max, size=big, endpoint=True).astype(dt)
            shape = big
            ctx.bucket('normalize_power:small-int')
        narrow = None
        if i % 9 == 7:
            # amplitude maps held in half / single precision (compact storage, FITS files): large apertures whose power
            # exceeds what float16 can count, and ordinary ones whose sum of squares is rounded in the narrow type
            narrow = [np.float16, np.float32, np.complex64][int(rng.integers(0, 3))]
            big = (int(rng.integers(17, 24)) * 12, int(rng.integers(17, 24)) * 12) if narrow is np.float16 and rng.random() < 0.5 else shape
            a = rng.uniform(0.5, 1.0, size=big)
            if narrow is np.complex64:
                a = a * np.exp(1j * rng.uniform(-3, 3, size=big))
            a = a.astype(narrow)
            shape = big
            ctx.bucket('normalize_power:narrow-float')
        p = float(np.exp(rng.uniform(np.log(1e-3), np.log(1e6)))) if rng.random() < 0.8 else 1
        kindp = i % 5 if a.dtype.kind in 'fc' and narrow is None else 0
        if kindp == 3:
            # input whose power is already within 1e-9..1e-4 (relative) of the target: still has to come out at exactly p
            a = a * np.sqrt(p / np.sum(np.abs(a) ** 2)) * (1 + float(10 ** rng.uniform(-9, -4)) * rng.choice([-1, 1]))
        elif kindp == 4:
            # very small powers (absolute tolerances must not matter)
            a = a * 1e-6
            p = float(10 ** rng.uniform(-26, -8))
        desc = {'normalize_power': list(shape), 'p': p, 'complex': bool(np.iscomplexobj(a))}
        ctx.case(desc, ['normalize_power'], nontrivial=a.size > 1)
        b = lentil.normalize_power(a, p) if p != 1 or rng.random() < 0.5 else lentil.normalize_power(a)
        af = a.astype(complex if np.iscomplexobj(a) else float)      # the same numbers, in a type that cannot wrap
        desc['dtype'] = str(a.dtype)
        ctx.close('normalize_power', np.array([float(np.sum(np.abs(np.asarray(b).astype(np.clongdouble)) ** 2))]), np.array([p]), 1e-12, 'normalize_power|power',
                  'normalize_power(a, p) does not have power p', desc, scale=p)
        ctx.close('normalize_power', b * np.sqrt(np.sum(np.abs(af) ** 2) / p), af, 1e-12, 'normalize_power|direction',
                  'normalize_power changed more than the overall scale', desc, scale=float(np.abs(af).max()))
        if (i % 4 == 0 or kindp == 4) and not np.iscomplexobj(a) and min(shape) >= 2:
            wl, z, dx0 = 6e-7, 5.0, 1e-3
            N = max(shape) + 3
            du = wl * z / (dx0 * N)
            amp = np.abs(b) if i % 8 == 0 else np.asarray(b, float)      # sign changes are pi phase steps: same power
            w = lentil.Wavefront(wl) * lentil.Pupil(amplitude=amp, pixelscale=dx0, focal_length=z)
            out = lentil.propagate_dft(w, du, shape=N, oversample=2)
            with probe.quiet():
                tot = float(out.intensity.sum())
            ctx.close('normalize_power', np.array([tot]), np.array([p]), 1e-10, 'normalize_power|image-total',
                      'an amplitude normalised to power p does not image to total p', desc, scale=p)


def finish(ctx, lentil):
    """Offline checker over the recorded window families: 0 <= E(k1) <= E(k2) <= ... <= P."""
    for fam in ctx.notes.get('families', []):
        P = fam['P']
        prev = 0.0
        okm = True
        for kr, kc, tot, mn in fam['chain']:
            if tot < prev - 1e-12 * P or tot > P * (1 + 1e-12) or tot < 0 or mn < 0:
                okm = False
            prev = tot
        ctx.check(okm, 'nested:monotone', 'nested|monotone',
                  'energies of nested centred windows are not monotone, non-negative and bounded by the input power', fam)
    ctx.notes['families'] = len(ctx.notes.get('families', []))
    ctx.notes.pop('_scratch', None)
