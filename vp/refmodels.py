"""Executable reference models, independent of lentil.

Everything is written from the mathematical definitions in the properties
(never by calling lentil) and evaluated in extended precision (x87 80-bit
`np.longdouble`) or exact integer arithmetic.
"""
from fractions import Fraction
from math import comb, factorial

import numpy as np

LD = np.longdouble
CLD = np.clongdouble
PI = LD('3.14159265358979323846264338327950288')
EPS = float(np.finfo(np.float64).eps)


def origin(n):
    """Index of the origin sample on an axis of n samples."""
    return int(n) // 2


def coords(n):
    return np.arange(int(n), dtype=LD) - LD(origin(n))


# ---------------------------------------------------------------------------
# C01 / C02: defining Fourier sum

def dft_kernels(m, n, M, N, ar, ac, shift=(0, 0), offset=(0, 0), sign=-1):
    """E1[u, x] = exp(sign*2*pi*i*ar*(x+off_r)*(u-shift_r)), E2[y, v] likewise."""
    x = coords(m) + LD(offset[0])
    y = coords(n) + LD(offset[1])
    u = coords(M) - LD(shift[0])
    v = coords(N) - LD(shift[1])
    p1 = LD(ar) * np.outer(u, x)
    p2 = LD(ac) * np.outer(y, v)
    # reduce the phase modulo 1 turn in extended precision before exp
    p1 = p1 - np.rint(p1)
    p2 = p2 - np.rint(p2)
    E1 = np.exp(CLD(1j) * (sign * 2 * PI) * p1)
    E2 = np.exp(CLD(1j) * (sign * 2 * PI) * p2)
    maxphase = 2 * np.pi * max(float(np.max(np.abs(LD(ar) * np.outer(u, x)))) if p1.size else 0.0,
                               float(np.max(np.abs(LD(ac) * np.outer(y, v)))) if p2.size else 0.0)
    return E1, E2, maxphase


def dft_sum(f, ar, ac, shape, shift=(0, 0), offset=(0, 0), unitary=True, sign=-1, points=None):
    """The defining double sum  F[u,v] = norm * sum_xy f[x,y] exp(sign 2 pi i (ar x u + ac y v)).

    points: optional (rows, cols) index arrays -> only those output samples are
    evaluated (returns 1-D array).  Returns (F, maxphase)."""
    f = np.asarray(f).astype(CLD)
    m, n = f.shape
    M, N = int(shape[0]), int(shape[1])
    E1, E2, maxphase = dft_kernels(m, n, M, N, ar, ac, shift, offset, sign)
    if points is None:
        F = E1.dot(f).dot(E2)
    else:
        rows, cols = points
        F = np.einsum('px,xy,yp->p', E1[rows, :], f, E2[:, cols])
    if unitary:
        F = F * np.sqrt(np.abs(LD(ar) * LD(ac)))
    return F, maxphase


def dft_tol(f, ar, ac, maxphase, unitary=True, c=64.0):
    """Absolute tolerance for a float64 evaluation of the sum: every term carries a phase
    error <= eps*(|phase|+few) and the accumulation ~ eps*sqrt(terms)."""
    f = np.asarray(f)
    s = float(np.sum(np.abs(f)))
    norm = float(np.sqrt(abs(float(ar))) * np.sqrt(abs(float(ac)))) if unitary else 1.0
    return c * EPS * (4.0 + maxphase + np.sqrt(f.size)) * s * norm + 1e-300


# ---------------------------------------------------------------------------
# C06: canvas model of fields on the infinite plane

class Canvas:
    """Sparse complex canvas indexed by integer (row, col) plane coordinates."""

    def __init__(self):
        self.d = {}

    @staticmethod
    def field_coords(shape, offset):
        nr, nc = shape
        r0 = -(nr // 2) + int(offset[0])
        c0 = -(nc // 2) + int(offset[1])
        return r0, c0

    def add(self, data, offset, weight=1):
        data = np.asarray(data)
        if data.ndim < 2:
            data = data.reshape(1, 1)
        r0, c0 = self.field_coords(data.shape, offset)
        for i in range(data.shape[0]):
            for j in range(data.shape[1]):
                k = (r0 + i, c0 + j)
                self.d[k] = self.d.get(k, 0) + complex(data[i, j]) * weight
        return self

    def support(self):
        return set(self.d.keys())

    def window(self, shape):
        """Render the part of the canvas falling in an array of `shape` whose origin sample
        is at index floor(n/2)."""
        out = np.zeros(shape, dtype=complex)
        ro, co = shape[0] // 2, shape[1] // 2
        for (r, c), v in self.d.items():
            i, j = r + ro, c + co
            if 0 <= i < shape[0] and 0 <= j < shape[1]:
                out[i, j] += v
        return out


def render(fields, shape):
    """Coherent rendering of (data, offset) pairs into an array of `shape` whose origin sample is at
    index floor(n/2) on each axis."""
    shape = (int(shape[0]), int(shape[1]))
    bb = (-(shape[0] // 2), -(shape[0] // 2) + shape[0] - 1, -(shape[1] // 2), -(shape[1] // 2) + shape[1] - 1)
    fl = []
    for data, offset in fields:
        data = np.asarray(data)
        if data.ndim < 2:
            data = data.reshape(1, 1)
        fl.append((data, offset))
    return dense(fl, bb)


def coordset(shape, offset):
    nr, nc = (1, 1) if len(shape) < 2 else shape
    r0 = -(nr // 2) + int(offset[0])
    c0 = -(nc // 2) + int(offset[1])
    return {(r0 + i, c0 + j) for i in range(nr) for j in range(nc)}


# ---------------------------------------------------------------------------
# C11: Noll ordering and Zernike polynomials from exact integer coefficients

def noll_table(jmax):
    """j -> (n, |m|, 'cos'|'sin'|'') by direct enumeration of Noll's rule:
    rows of increasing n; within a row increasing |m|; for each |m|>0 the two
    azimuthal parities take consecutive j with even j <-> cosine."""
    table = {}
    j = 1
    n = 0
    while j <= jmax:
        ms = [m for m in range(0, n + 1) if (n - m) % 2 == 0]
        for m in ms:
            if m == 0:
                table[j] = (n, 0, '')
                j += 1
            else:
                for _ in range(2):
                    table[j] = (n, m, 'cos' if j % 2 == 0 else 'sin')
                    j += 1
        n += 1
    return {k: v for k, v in table.items() if k <= jmax}


def radial_coeffs(n, m):
    """Exact integer coefficients {power: coeff} of R_n^m."""
    m = abs(m)
    out = {}
    for k in range((n - m) // 2 + 1):
        c = Fraction((-1) ** k * factorial(n - k),
                     factorial(k) * factorial((n + m) // 2 - k) * factorial((n - m) // 2 - k))
        assert c.denominator == 1
        out[n - 2 * k] = int(c)
    return out


def radial(n, m, rho):
    rho = np.asarray(rho, dtype=LD)
    out = np.zeros(rho.shape, dtype=LD)
    for p, c in radial_coeffs(n, m).items():
        out += LD(c) * rho ** p
    return out


def radial_exact(n, m, rho):
    """R_n^m at the given float coordinates in exact rational arithmetic, rounded once (any order: the alternating factorial sum
    cancels catastrophically in any fixed precision from n of about 30 on)."""
    rho = np.asarray(rho, dtype=float)
    co = radial_coeffs(n, m)
    out = np.zeros(rho.shape, dtype=LD)
    flat = out.reshape(-1)
    for i, r in enumerate(rho.reshape(-1)):
        num, den = float(r).as_integer_ratio()
        acc = 0
        for p, c in co.items():
            acc += c * num ** p * den ** (n - p)
        q = Fraction(acc, den ** n)
        hi = float(q)
        flat[i] = LD(hi) + LD(float(q - Fraction(hi)))
    return out


def zernike_value(n, m, parity, rho, theta, normalize=True, sine_sign=-1, exact=False):
    """Textbook mode.  sine_sign=-1 pins lentil's documented convention sin(m*theta)
    with signed m<0 (i.e. -sin(|m| theta))."""
    rho = np.asarray(rho, dtype=LD)
    theta = np.asarray(theta, dtype=LD)
    R = radial_exact(n, m, rho) if exact else radial(n, m, rho)
    if m == 0:
        z = R * (np.sqrt(LD(n + 1)) if normalize else 1)
    else:
        az = np.cos(m * theta) if parity == 'cos' else sine_sign * np.sin(m * theta)
        z = R * az * (np.sqrt(LD(2) * LD(n + 1)) if normalize else 1)
    return z


# ---------------------------------------------------------------------------
# misc

def lstsq_plane(rows, cols, z):
    """Least squares fit z ~ a + b*rows + c*cols ; returns (a,b,c) in longdouble via normal eqs
    solved in float64 lstsq on centred data (well conditioned)."""
    A = np.stack([np.ones_like(rows, dtype=float), np.asarray(rows, float), np.asarray(cols, float)], 1)
    sol = np.linalg.lstsq(A, np.asarray(z, float), rcond=None)[0]
    return sol


# ---------------------------------------------------------------------------
# C02 / C03 / C04 / C09: unitary Fraunhofer sum of fields on the infinite plane

def fraunhofer(fields, ar, ac, u, v, points=False):
    """F(u,v) = sqrt|ar*ac| * sum_k sum_xy data_k[x,y] exp(-2 pi i (ar x u + ac y v)) with x, y the
    integer plane coordinates (row/col index - floor(n/2) + offset) of every sample and u, v real
    output coordinates relative to the optical axis.
    points=False: u (rows) x v (cols) grid;  points=True: paired samples (u[i], v[i])."""
    u = np.asarray(u, dtype=LD)
    v = np.asarray(v, dtype=LD)
    out = np.zeros(u.shape if points else (u.size, v.size), dtype=CLD)
    for data, offset in fields:
        data = np.asarray(data)
        if data.size == 0:
            continue
        if data.ndim < 2:
            raise ValueError('a one-element field has no finite embedding')
        nr, nc = data.shape
        x = np.arange(nr, dtype=LD) - (nr // 2) + LD(int(offset[0]))
        y = np.arange(nc, dtype=LD) - (nc // 2) + LD(int(offset[1]))
        p1 = LD(ar) * np.outer(u, x)
        p2 = LD(ac) * np.outer(y, v)
        E1 = np.exp(CLD(-2j) * PI * (p1 - np.rint(p1)))
        E2 = np.exp(CLD(-2j) * PI * (p2 - np.rint(p2)))
        if points:
            out += np.einsum('px,xy,yp->p', E1, data.astype(CLD), E2)
        else:
            out += E1.dot(data.astype(CLD)).dot(E2)
    return out * np.sqrt(np.abs(LD(ar) * LD(ac)))


def fraunhofer_tol(fields, ar, ac, umax, vmax, c=64.0):
    s = 0.0
    xmax = ymax = 1.0
    npx = 1
    for data, offset in fields:
        data = np.asarray(data)
        if data.size == 0:
            continue
        s += float(np.sum(np.abs(data)))
        xmax = max(xmax, data.shape[0] / 2 + abs(int(offset[0])) + 1)
        ymax = max(ymax, data.shape[1] / 2 + abs(int(offset[1])) + 1)
        npx = max(npx, data.size)
    phase = 2 * np.pi * (abs(float(ar)) * xmax * (abs(umax) + 1) + abs(float(ac)) * ymax * (abs(vmax) + 1))
    return c * EPS * (4.0 + phase + np.sqrt(npx)) * s * float(np.sqrt(abs(float(ar) * float(ac)))) + 1e-300


def bbox_of(items):
    """Bounding box (rmin, rmax, cmin, cmax) in plane coordinates of (shape, offset) pairs."""
    lo_r = min(-(sh[0] // 2) + int(o[0]) for sh, o in items)
    hi_r = max(-(sh[0] // 2) + int(o[0]) + sh[0] - 1 for sh, o in items)
    lo_c = min(-(sh[1] // 2) + int(o[1]) for sh, o in items)
    hi_c = max(-(sh[1] // 2) + int(o[1]) + sh[1] - 1 for sh, o in items)
    return lo_r, hi_r, lo_c, hi_c


def dense(fields, bbox):
    """Coherent rendering of (data, offset) pairs into a dense array covering bbox (vectorised)."""
    lo_r, hi_r, lo_c, hi_c = bbox
    out = np.zeros((hi_r - lo_r + 1, hi_c - lo_c + 1), dtype=complex)
    for data, offset in fields:
        data = np.asarray(data)
        r0 = -(data.shape[0] // 2) + int(offset[0]) - lo_r
        c0 = -(data.shape[1] // 2) + int(offset[1]) - lo_c
        i0, j0 = max(0, -r0), max(0, -c0)
        i1 = min(data.shape[0], out.shape[0] - r0)
        j1 = min(data.shape[1], out.shape[1] - c0)
        if i1 > i0 and j1 > j0:
            out[r0 + i0:r0 + i1, c0 + j0:c0 + j1] += data[i0:i1, j0:j1]
    return out
