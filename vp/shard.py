"""One shard = one process.  usage:
python -m vp.shard <prop> <tier> <seed> <shard> <nshards> <kind> <outfile>
kind: 'gen' (hostile generator workload) | 'tests' (repository test-suite under
the probes) | 'docs' (documentation examples under the probes)
"""
import importlib
import json
import os
import sys
import traceback


def main(argv):
    prop, tier, seed, shard, nshards, kind, outfile = argv
    seed, shard, nshards = int(seed), int(shard), int(nshards)
    os.environ.setdefault('PYTHONHASHSEED', '0')
    try:   # a defect (or a mutant) that asks for terabytes must fail fast instead of thrashing the machine
        import resource
        lim = int(os.environ.get('VERIF_SHARD_MEM', str(6 << 30)))
        resource.setrlimit(resource.RLIMIT_AS, (lim, lim))
    except Exception:
        pass
    from vp import core, probe
    status = 'ok'
    err = None
    ctx = core.Ctx(prop, tier, seed, shard, nshards)
    try:
        lentil = core.import_lentil()
        mon = importlib.import_module(f'vp.monitors.{prop}')
        anchors = probe.Anchors(ctx)
        if hasattr(mon, 'anchors'):
            try:
                lst = mon.anchors(lentil)
            except AttributeError:
                lst = mon.anchors(probe.Lenient(lentil))     # a helper named by the monitor does not exist in this tree
            for label, fn in lst:
                anchors.add(label, fn)
        if hasattr(mon, 'install'):
            mon.install(ctx, lentil)
        anchors.start()
        try:
            if kind == 'gen':
                ctx.workload = 'generator'
                mon.workload(ctx, lentil)
            elif kind == 'tests':
                from vp import workloads
                ctx.workload = 'testsuite'
                workloads.run_testsuite(ctx, shard, nshards)
            elif kind == 'docs':
                from vp import workloads
                ctx.workload = 'docs'
                workloads.run_docs(ctx)
            else:
                raise ValueError(kind)
            if hasattr(mon, 'finish'):
                mon.finish(ctx, lentil)
        finally:
            anchors.stop()
            probe.uninstall_all()
    except BaseException as exc:  # noqa
        status = 'crash'
        err = traceback.format_exc()[-4000:]
        try:
            # an exception that left lentil's own code through a call the workload did not guard: the workloads only make calls
            # that are valid for the property's quantifier, so this is an observation about the code under test, not about the
            # harness.  (Raised in harness code - an oracle, a generator - it stays a crash: inconclusive.)
            if kind == 'gen' and isinstance(exc, Exception) and not isinstance(exc, MemoryError):
                root = os.path.join(os.path.realpath(core.repo_dir()), 'lentil') + os.sep
                mine = os.path.join(os.path.realpath(core.VERIF_DIR), 'vp') + os.sep
                deepest = None
                for fr, _ in traceback.walk_tb(exc.__traceback__):
                    fn = os.path.realpath(fr.f_code.co_filename)
                    if fn.startswith(root):
                        deepest = ('lentil', fr.f_code.co_name, os.path.basename(fn))
                    elif fn.startswith(mine):
                        deepest = ('vp', fr.f_code.co_name, os.path.basename(fn))
                if deepest and deepest[0] == 'lentil':
                    ctx.violation(f'workload|raises={type(exc).__name__}|{deepest[2]}:{deepest[1]}',
                                  f'a call made by the workload raised {type(exc).__name__} inside lentil ({deepest[2]}:{deepest[1]}): {str(exc)[:300]}',
                                  {'traceback': err[-1500:]})
        except Exception:
            pass
    res = ctx.result()
    res['status'] = status
    res['error'] = err
    res['kind'] = kind
    with open(outfile, 'w') as f:
        json.dump(res, f)
    return 0


if __name__ == '__main__':
    sys.exit(main(sys.argv[1:]))
