"""One shard = one process.  usage:
python -m vp.shard <prop> <tier> <seed> <shard> <nshards> <kind> <outfile>
kind: 'gen' (hostile generator workload) | 'tests' (repository test-suite under
the probes) | 'docs' (documentation examples under the probes)
"""
import importlib
import json
import os
import sys
import traceback


def main(argv):
    prop, tier, seed, shard, nshards, kind, outfile = argv
    seed, shard, nshards = int(seed), int(shard), int(nshards)
    os.environ.setdefault('PYTHONHASHSEED', '0')
    try:   # a defect (or a mutant) that asks for terabytes must fail fast instead of thrashing the machine
        import resource
        lim = int(os.environ.get('VERIF_SHARD_MEM', str(6 << 30)))
        resource.setrlimit(resource.RLIMIT_AS, (lim, lim))
    except Exception:
        pass
    from vp import core, probe
    status = 'ok'
    err = None
    ctx = core.Ctx(prop, tier, seed, shard, nshards)
    try:
        lentil = core.import_lentil()
        mon = importlib.import_module(f'vp.monitors.{prop}')
        anchors = probe.Anchors(ctx)
        if hasattr(mon, 'anchors'):
            try:
                lst = mon.anchors(lentil)
            except AttributeError:
                lst = mon.anchors(probe.Lenient(lentil))     # a helper named by the monitor does not exist in this tree
            for label, fn in lst:
                anchors.add(label, fn)
        if hasattr(mon, 'install'):
            mon.install(ctx, lentil)
        anchors.start()
        try:
            if kind == 'gen':
                ctx.workload = 'generator'
                mon.workload(ctx, lentil)
            elif kind == 'tests':
                from vp import workloads
                ctx.workload = 'testsuite'
                workloads.run_testsuite(ctx, shard, nshards)
            elif kind == 'docs':
                from vp import workloads
                ctx.workload = 'docs'
                workloads.run_docs(ctx)
            else:
                raise ValueError(kind)
            if hasattr(mon, 'finish'):
                mon.finish(ctx, lentil)
        finally:
            anchors.stop()
            probe.uninstall_all()
    except BaseException:  # noqa
        status = 'crash'
        err = traceback.format_exc()[-4000:]
    res = ctx.result()
    res['status'] = status
    res['error'] = err
    res['kind'] = kind
    with open(outfile, 'w') as f:
        json.dump(res, f)
    return 0


if __name__ == '__main__':
    sys.exit(main(sys.argv[1:]))
