"""Workload generators shared by the optics monitors (apertures, planes, label maps).
Everything here is written without calling lentil's shape helpers so that the
inputs themselves are independent of the code under test."""
import numpy as np


def rshape(rng, lo=3, hi=24, square_p=0.35):
    if rng.random() < square_p:
        n = int(rng.integers(lo, hi + 1))
        return (n, n)
    return (int(rng.integers(lo, hi + 1)), int(rng.integers(lo, hi + 1)))


def parity(shape):
    return ('e' if shape[0] % 2 == 0 else 'o') + ('e' if shape[1] % 2 == 0 else 'o')


def support(rng, shape, kind=None):
    """Binary support (>=1 sample), frequently off-centre and touching no particular symmetry."""
    nr, nc = shape
    rr, cc = np.indices(shape)
    kind = kind if kind is not None else int(rng.integers(0, 6))
    if kind == 0:      # disc, off-centre
        r0 = rng.uniform(0.2, 0.8) * (nr - 1)
        c0 = rng.uniform(0.2, 0.8) * (nc - 1)
        rad = rng.uniform(0.8, max(1.0, 0.45 * min(nr, nc)))
        m = (rr - r0) ** 2 + (cc - c0) ** 2 <= rad ** 2
    elif kind == 1:    # rectangle block
        r1 = int(rng.integers(0, nr)); r2 = int(rng.integers(r1 + 1, nr + 1))
        c1 = int(rng.integers(0, nc)); c2 = int(rng.integers(c1 + 1, nc + 1))
        m = np.zeros(shape, bool)
        m[r1:r2, c1:c2] = True
    elif kind == 2:    # random speckle
        m = rng.random(shape) < rng.uniform(0.15, 0.7)
    elif kind == 3:    # annulus centred on the origin sample
        r = np.hypot(rr - nr // 2, cc - nc // 2)
        ro = rng.uniform(1.0, max(1.5, 0.5 * min(nr, nc)))
        m = (r <= ro) & (r >= rng.uniform(0, 0.5) * ro)
    elif kind == 4:    # full array
        m = np.ones(shape, bool)
    else:              # two separated blobs
        m = np.zeros(shape, bool)
        for _ in range(2):
            r0 = rng.uniform(0, nr - 1); c0 = rng.uniform(0, nc - 1)
            rad = rng.uniform(0.7, max(1.0, 0.25 * min(nr, nc)))
            m |= (rr - r0) ** 2 + (cc - c0) ** 2 <= rad ** 2
    if not m.any():
        m[int(rng.integers(0, nr)), int(rng.integers(0, nc))] = True
    return m


def bbox_size(mask):
    i = np.argwhere(mask)
    return (i[:, 0].max() - i[:, 0].min() + 1) * (i[:, 1].max() - i[:, 1].min() + 1)


def amplitude(rng, mask, signed=None):
    """Real amplitude on the support (non-zero there): usually positive, sometimes with sign changes (pi phase steps
    stored as negative values, as in a sinc / Bessel apodisation)."""
    k = rng.integers(0, 3)
    if k == 0:
        return mask.astype(float)
    a = rng.uniform(0.2, 1.5, size=mask.shape)
    if signed is None:
        signed = rng.random() < 0.2
    if signed:
        a = a * rng.choice([-1.0, 1.0], size=mask.shape)
    return a * mask


def opd(rng, shape, wavelength, smooth=None):
    """OPD map of a fraction of a wave (smooth polynomial or rough)."""
    nr, nc = shape
    rr, cc = np.indices(shape)
    x = (rr - nr // 2) / max(nr, 2)
    y = (cc - nc // 2) / max(nc, 2)
    smooth = rng.random() < 0.6 if smooth is None else smooth
    if smooth:
        c = rng.normal(size=6)
        o = c[0] + c[1] * x + c[2] * y + c[3] * x * y + c[4] * x * x + c[5] * y * y
    else:
        o = rng.normal(size=shape)
    return o * wavelength * rng.uniform(0.05, 0.6)


def partition(rng, mask, k):
    """Split the support of `mask` into k non-empty, pairwise disjoint segments.  Styles:
    stripes, nearest-seed blobs, interleaved pixels (bounding boxes overlap heavily)."""
    idx = np.argwhere(mask)
    k = max(1, min(k, len(idx)))
    lab = np.zeros(mask.shape, int) - 1
    style = int(rng.integers(0, 3))
    if style == 0:       # stripes along a random axis
        ax = int(rng.integers(0, 2))
        order = np.argsort(idx[:, ax], kind='stable')
        for n, chunk in enumerate(np.array_split(order, k)):
            lab[idx[chunk, 0], idx[chunk, 1]] = n
    elif style == 1:     # nearest seed
        seeds = idx[rng.choice(len(idx), k, replace=False)]
        d = ((idx[:, None, :] - seeds[None, :, :]) ** 2).sum(-1)
        lab[idx[:, 0], idx[:, 1]] = np.argmin(d, axis=1)
    else:                # interleaved pixels
        perm = rng.permutation(len(idx))
        for n, chunk in enumerate(np.array_split(perm, k)):
            lab[idx[chunk, 0], idx[chunk, 1]] = n
    segs = [lab == n for n in range(k)]
    segs = [s for s in segs if s.any()]
    return np.array(segs), ['stripes', 'blobs', 'interleaved'][style]


def bboxes_overlap(segs):
    boxes = []
    for s in segs:
        i = np.argwhere(s)
        boxes.append((i[:, 0].min(), i[:, 0].max(), i[:, 1].min(), i[:, 1].max()))
    for a in range(len(boxes)):
        for b in range(a + 1, len(boxes)):
            A, B = boxes[a], boxes[b]
            if A[0] <= B[1] and A[1] >= B[0] and A[2] <= B[3] and A[3] >= B[2]:
                return True
    return False


def optics(rng, aniso_p=0.5):
    """Wavelength, focal length, input/output pixel scales, oversampling."""
    wl = float(rng.uniform(400e-9, 2000e-9))
    z = float(rng.uniform(0.5, 30.0))
    dx = float(rng.uniform(0.5e-3, 5e-3))
    dxs = (dx, dx * float(rng.uniform(0.6, 1.6))) if rng.random() < aniso_p else dx
    du = float(rng.uniform(2e-6, 20e-6))
    dus = (du, du * float(rng.uniform(0.6, 1.6))) if rng.random() < aniso_p else du
    os_ = int(rng.integers(1, 5))
    return wl, z, dxs, dus, os_


def layout(rng, a, p=0.35):
    """The same values in another memory layout (the result compares equal to `a`): Fortran order, a view with negative
    strides, or a strided window into a larger buffer.  Callers pass the returned array to lentil and keep `a` for the model."""
    a = np.asarray(a)
    if a.ndim < 2 or rng.random() > p:
        return a
    k = int(rng.integers(0, 4))
    if k == 0:
        return np.asfortranarray(a)
    if k == 1:
        return a[..., ::-1, ::-1].copy()[..., ::-1, ::-1]
    if k == 2:
        big = np.zeros(a.shape[:-2] + (2 * a.shape[-2] + 1, 3 * a.shape[-1] + 2), dtype=a.dtype)
        big[..., 1::2, 2::3][..., :a.shape[-2], :a.shape[-1]] = a
        return big[..., 1::2, 2::3][..., :a.shape[-2], :a.shape[-1]]
    return a.T.copy().T if a.ndim == 2 else np.moveaxis(np.moveaxis(a, 0, -1).copy(), -1, 0)
