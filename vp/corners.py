"""Unusual magnitudes, number types and sizes (round 8): small deterministic scenarios per property, each with its own expectation
(an independent reference, two public routes that must agree, homogeneity under a change of scale, or "what was handed over is
left as it was"), evaluated once per run (shard 0) like `vp.defaults`, `vp.reuse` and `vp.forms`; bucket `corners`.
"""
import warnings

import numpy as np


def _rel(a, b):
    a, b = np.asarray(a), np.asarray(b)
    if a.shape != b.shape:
        return np.inf
    sc = max(float(np.max(np.abs(b))) if b.size else 0.0, 1e-300)
    return float(np.max(np.abs(a - b))) / sc if b.size else 0.0


def scenarios(prop, lentil, rng):
    R, D, U, Fd, H = lentil.radiometry, lentil.detector, lentil.util, lentil.field, lentil.helper
    Z = __import__('sys').modules['lentil.zernike']
    out = []
    add = lambda name, fn: out.append((name, fn))

    def kernel_sum(f, alpha, shape, shift=(0, 0)):
        (m, n), (M, N) = f.shape, shape
        u = np.arange(M) - M // 2 - shift[0]
        v = np.arange(N) - N // 2 - shift[1]
        x = np.arange(m) - m // 2
        y = np.arange(n) - n // 2
        return np.exp(-2j * np.pi * alpha[0] * np.outer(u, x)) @ f @ np.exp(-2j * np.pi * alpha[1] * np.outer(y, v))

    if prop in ('C01', 'C02', 'C05'):
        def unsigned_shift():
            f = rng.normal(size=(6, 5)) + 1j * rng.normal(size=(6, 5))
            al = (1 / 17.5, 1 / 11.3)
            ref = kernel_sum(f, al, (9, 8), (3, 2))
            worst = {}
            for label, sh in (('uint8 array', np.array([3, 2], dtype=np.uint8)), ('uint16 scalars', (np.uint16(3), np.uint16(2))),
                              ('uint64 array', np.array([3, 2], dtype=np.uint64)), ('int8 array', np.array([3, 2], dtype=np.int8))):
                worst[label] = _rel(lentil.fourier.dft2(f, al, shape=(9, 8), shift=sh, unitary=False), ref)
            return max(worst.values()) < 1e-10, worst
        add('dft2 with the output shift held in unsigned / narrow integer types, against the defining sum', unsigned_shift)

        def tall_output():
            f = rng.normal(size=(8, 3)) + 1j * rng.normal(size=(8, 3))
            worst = {}
            for M in (1100, 2049, 1025):
                al = (1 / M, 1 / 4.0)
                got = lentil.fourier.dft2(f, al, shape=(M, 3), unitary=False)
                worst[f'{M} x 3'] = _rel(got, kernel_sum(f, al, (M, 3)))
                got = lentil.fourier.dft2(f.T, al[::-1], shape=(3, M), unitary=False)
                worst[f'3 x {M}'] = _rel(got, kernel_sum(f.T, al[::-1], (3, M)))
            return max(worst.values()) < 1e-9, worst
        add('dft2 onto more than 1024 output rows / columns (not a multiple of 1024), against the defining sum', tall_output)

    if prop in ('C05',):
        def tiny_power():
            worst = {}
            base = rng.uniform(0.5, 1.0, size=(9, 7))
            for mag in (1e-12, 1e-9, 1e-100, 1e6):
                for p in (1, 2.5):
                    a = U.normalize_power(base * mag, p)
                    worst[f'{mag:g} -> {p}'] = abs(float(np.sum(np.abs(a) ** 2)) - p) / p
            return max(worst.values()) < 1e-12, worst
        add('normalize_power of arrays that are small (or large) in absolute terms', tiny_power)

    if prop in ('C05', 'C09'):
        def pupil_wave(wl=633e-9, dx=1e-3, z=1.0):
            amp = lentil.circle((24, 24), 10) * (0.6 + 0.4 * np.cos(np.arange(24) / 5.0))[None, :]
            r, c = H.mesh((24, 24))
            opd = 30e-9 * (0.3 * r - 0.1 * c + 0.02 * r * c) * (amp != 0)
            return lentil.Wavefront(wl) * lentil.Pupil(amplitude=amp, opd=opd, pixelscale=dx, focal_length=z)

        def scratch_types():
            w = pupil_wave()
            kw = dict(pixelscale=5e-6, shape=(20, 24), oversample=2)
            ref = lentil.propagate_fft(w, **kw)
            need = lentil.scratch_shape(633e-9, 1e-3, 5e-6, 1.0, 2)
            P = float(np.sum(np.abs(ref.field) ** 2))
            worst = {}
            for label, scratch, tol in (('byte-swapped complex128', np.zeros(need, dtype=np.dtype(complex).newbyteorder()), 1e-10),
                                        ('larger byte-swapped complex128', np.zeros((need[0] + 7, need[1] + 3), dtype=np.dtype(complex).newbyteorder()), 1e-10),
                                        ('Fortran complex128', np.zeros((need[1] + 3, need[0] + 7), dtype=complex).T, 1e-10),
                                        ('float64', np.zeros(need), 1e-10), ('float32', np.zeros(need, dtype=np.float32), 1e-5)):
                scratch[...] = 7
                try:
                    o = lentil.propagate_fft(pupil_wave(), scratch=scratch, **kw)
                except (TypeError, ValueError):
                    worst[label] = 0.0          # refused: nothing was imaged
                    continue
                worst[label] = max(_rel(o.field, ref.field), abs(float(np.sum(o.intensity)) - P) / P) / tol
            return max(worst.values()) < 1, worst
        add('propagate_fft through scratch buffers of other number types: refused, or the result of the call without scratch', scratch_types)

    if prop in ('C09',):
        def half_integer_grids():
            dx, z = 1e-3, 1.0
            worst = {}
            for du, os_, k in ((5e-6, 3, 244), (10e-6, 3, 244), (5e-6, 1, 101), (4e-6, 2, 300), (5e-6, 3, 301), (6.5e-6, 2, 150)):
                for half in (0.5, 0.5 - 1e-9, 0.5 + 1e-9):
                    wl = (k + half) * dx * du / (z * os_)
                    amp = lentil.circle((24, 24), 10)
                    w = lambda: lentil.Wavefront(wl) * lentil.Pupil(amplitude=amp, pixelscale=dx, focal_length=z)
                    need = lentil.scratch_shape(wl, dx, du, z, os_)
                    kw = dict(pixelscale=du, shape=16, oversample=os_)
                    ref = lentil.propagate_fft(w(), **kw)
                    try:
                        o = lentil.propagate_fft(w(), scratch=np.zeros(need, dtype=complex), **kw)
                        worst[f'du={du:g} os={os_} N={k}+{half}'] = _rel(o.field, ref.field)
                    except ValueError as e:
                        worst[f'du={du:g} os={os_} N={k}+{half}'] = np.inf
            return max(worst.values()) < 1e-10, {k: v for k, v in worst.items() if v >= 1e-10} or {'grids': len(worst)}
        add('a scratch of exactly the advertised shape is accepted where the grid size falls on a half-integer', half_integer_grids)

    if prop in ('C06', 'C10'):
        def one_shot_collections():
            a = Fd.Field(data=rng.normal(size=(5, 7)), pixelscale=1e-3, offset=[2, -1])
            b = Fd.Field(data=rng.normal(size=(6, 4)), pixelscale=1e-3, offset=[-4, 6])
            c = Fd.Field(data=rng.normal(size=(3, 3)), pixelscale=1e-3, offset=[9, 9])
            ref = np.asarray(Fd.boundary([a, b, c]))
            got = {'generator': np.asarray(Fd.boundary(f for f in [a, b, c])), 'iter': np.asarray(Fd.boundary(iter([a, b, c]))),
                   'tuple': np.asarray(Fd.boundary((a, b, c))), 'map': np.asarray(Fd.boundary(map(lambda f: f, [a, b, c])))}
            exp = np.array([min(f.extent[0] for f in (a, b, c)), max(f.extent[1] for f in (a, b, c)),
                            min(f.extent[2] for f in (a, b, c)), max(f.extent[3] for f in (a, b, c))])
            bad = {k: v.tolist() for k, v in got.items() if not np.array_equal(v, exp)}
            return (not bad) and np.array_equal(ref, exp), bad or {'boundary': exp.tolist()}
        add('boundary() of a generator / iterator / tuple / map of Fields is the bounding box of the list', one_shot_collections)

    if prop in ('C10', 'C16'):
        def negative_qe_kept():
            cube = np.abs(rng.normal(size=(3, 4, 6))) * 10
            wv = np.array([450.0, 550.0, 650.0])
            qe = np.array([0.5, -0.1, 0.7])
            keep = qe.copy()
            r1 = D.collect_charge(cube, wv, qe)
            r2 = D.collect_charge_bayer(cube, wv, qe, qe, qe, 'RGGB')
            ro = keep.copy()
            ro.setflags(write=False)
            r3 = D.collect_charge(cube, wv, ro)
            ok = np.array_equal(qe, keep) and np.array_equal(r1, r3)
            return ok, {'qe after the calls': qe.tolist()}
        add('a float64 efficiency vector with a negative entry is left as it was (and may be read-only)', negative_qe_kept)

    if prop in ('C10', 'C17'):
        def rescale_identity_keeps_input():
            r, c = H.mesh((20, 20))
            img = np.exp(-(r ** 2 + c ** 2) / 30.0)
            m = (np.hypot(r, c) < 6).astype(float)
            bad = {}
            for dt in (np.float64, np.float32, np.complex128):
                a = img.astype(dt)
                keep = a.copy()
                res = U.rescale(a, 1, mask=m)
                if not np.array_equal(a, keep):
                    bad[f'{np.dtype(dt).name}: input changed'] = float(np.abs(a - keep).max())
                if np.shares_memory(res, a):
                    bad[f'{np.dtype(dt).name}: result aliases the input'] = 1
                a2 = img.astype(dt)
                res2 = U.rescale(a2, 1.0)
                if not np.array_equal(a2, keep) or np.shares_memory(res2, a2):
                    bad[f'{np.dtype(dt).name}: scale 1.0 without mask'] = 1
            return not bad, bad
        add('rescale(img, 1, mask) leaves img as it was and returns a new array', rescale_identity_keeps_input)

        def rescale_homogeneous():
            r, c = H.mesh((24, 24))
            g = np.exp(-(r ** 2 + c ** 2) / 40.0) * (1 + 0.2 * np.sin(r / 3.0))
            worst = {}
            for s in (0.75, 1.0, 1.5):
                for unitary in (True, False):
                    ref = U.rescale(g, s, unitary=unitary)
                    for mag in (1e-9, 2e-8, 1e-15, 1e8):
                        worst[f's={s} unitary={unitary} x{mag:g}'] = _rel(U.rescale(g * mag, s, unitary=unitary), ref * mag)
            p = lentil.Pupil(amplitude=(g > 0.05) * 1.0, opd=g * 3e-9, pixelscale=1e-3, focal_length=5.0)
            q = lentil.Pupil(amplitude=(g > 0.05) * 1.0, opd=g * 3e-3, pixelscale=1e-3, focal_length=5.0)
            for s in (0.75, 1, 1.5):
                worst[f'Plane.rescale({s}): opd of a few nm'] = _rel(p.rescale(s).opd * 1e6, q.rescale(s).opd)
            return max(worst.values()) < 1e-9, {k: v for k, v in worst.items() if v >= 1e-9} or {'cases': len(worst)}
        add('rescale is homogeneous: an image (an OPD map) of tiny values is the scaled result of the same image of ordinary values', rescale_homogeneous)

    if prop in ('C11', 'C20'):
        def large_boolean_support():
            m = np.zeros((2200, 2200), dtype=bool)
            m[150:2150, 200:2100] = True
            exp = np.array([1149.5, 1149.5])
            got = {'bool': np.asarray(lentil.centroid(m), dtype=float), 'uint8': np.asarray(lentil.centroid(m.astype(np.uint8)), dtype=float),
                   'float': np.asarray(lentil.centroid(m.astype(float)), dtype=float)}
            err = {k: float(np.max(np.abs(v - exp))) for k, v in got.items()}
            rho, theta = Z.zernike_coordinates(m)
            rr = rho[m]
            err['rho: smallest value at the centroid'] = abs(float(np.hypot(*(np.array(np.unravel_index(np.argmin(np.where(m, rho, np.inf)), m.shape)) - exp))) - np.sqrt(0.5))
            err['rho: largest value 1'] = abs(float(rr.max()) - 1)
            return max(err.values()) < 1e-6, err
        add('centroid / default Zernike coordinates of a support of several million samples (boolean, 8-bit, float)', large_boolean_support)

    if prop in ('C11', 'C12'):
        def narrow_mode_arrays():
            r, c = H.mesh((40, 40))
            mask = (r ** 2 + c ** 2 <= 17 ** 2).astype(int)
            modes = [2, 17, 33, 40, 100]
            ref = Z.zernike_basis(mask, modes)
            worst = {}
            for dt in (np.uint8, np.int8, np.int16, np.uint16, np.int64):
                worst[np.dtype(dt).name] = _rel(Z.zernike_basis(mask, np.array(modes, dtype=dt)), ref)
            co = np.array([3e-8, -2e-8, 1e-8, 4e-8, -1e-8])
            opd = np.einsum('i,ijk->jk', co, ref)
            worst['fit with uint8 modes'] = _rel(Z.zernike_fit(opd, mask, np.array(modes, dtype=np.uint8)), co)
            worst['single modes'] = max(_rel(Z.zernike(mask, np.uint8(j)), Z.zernike(mask, j)) for j in modes)
            return max(worst.values()) < 1e-9, worst
        add('mode indices held in 8 / 16-bit arrays (indices above 31) give the modes of the same Python integers', narrow_mode_arrays)

    if prop == 'C12':
        def million_sample_fit():
            n = 1200
            r, c = H.mesh((n, n))
            mask = (r ** 2 + c ** 2 <= 580 ** 2).astype(int)
            modes = [1, 2, 3, 4]
            B = Z.zernike_basis(mask, modes + [9, 13])
            opd = np.einsum('i,ijk->jk', np.array([1e-8, -2e-8, 1.5e-8, 3e-8, 2e-8, -1e-8]), B)
            opd = opd + mask * 5e-9 * np.cos(r / 37.0) * np.sin(c / 23.0)
            got = np.asarray(Z.zernike_fit(opd, mask, modes))
            A = B[:4][:, mask != 0].T
            ref = np.linalg.lstsq(A, opd[mask != 0], rcond=None)[0]
            res = Z.zernike_remove(opd, mask, modes)
            proj = float(np.max(np.abs(A.T @ res[mask != 0]))) / (np.linalg.norm(A, axis=0).max() * np.linalg.norm(opd[mask != 0]))
            return _rel(got, ref) < 1e-7 and proj < 1e-9, {'coefficients': _rel(got, ref), 'residual against the removed modes': proj}
        add('fit / remove over more than 2**20 mask samples is the least-squares fit over all of them', million_sample_fit)

    if prop in ('C13', 'C14', 'C15'):
        def uneven(nw=41, lo=400.0, hi=700.0):
            w = np.sort(rng.uniform(lo, hi, size=nw - 2))
            w = np.concatenate([[lo], w, [hi]])
            w = lo + np.cumsum(np.concatenate([[0], np.maximum(np.diff(w), 1.0)]))
            return w
    if prop in ('C13', 'C15'):
        def tiny_values_all_methods():
            w = np.linspace(400, 700, 31)
            v = 1 + 0.5 * np.sin(w / 40)
            w2 = np.linspace(450, 760, 25)
            v2 = 2 + np.cos(w2 / 30)
            q = np.linspace(410, 690, 57)
            worst = {}
            for method in ('linear', 'quadratic', 'cubic'):
                for mag in (1e-15, 1e-18, 1e-30):
                    a, A_ = R.Spectrum(w, v), R.Spectrum(w, v * mag)
                    b, B_ = R.Spectrum(w2, v2), R.Spectrum(w2, v2 * mag)
                    worst[f'sample {method} x{mag:g}'] = _rel(A_.sample(q, method=method), a.sample(q, method=method) * mag)
                    worst[f'multiply {method} x{mag:g}'] = _rel(A_.multiply(b, method=method).value, a.multiply(b, method=method).value * mag)
                    worst[f'add {method} x{mag:g}'] = _rel(A_.add(B_, method=method).value, a.add(b, method=method).value * mag)
            return max(worst.values()) < 1e-9, {k: v for k, v in worst.items() if v >= 1e-9} or {'cases': len(worst)}
        add('sampling and arithmetic are homogeneous in the values for every interpolation method (values of 1e-15 and below)', tiny_values_all_methods)

    if prop in ('C14', 'C15'):
        def routes_through_units():
            w = np.linspace(400, 700, 31)
            v = 1 + 0.5 * np.sin(w / 40) + 0.1 * np.cos(w / 7)
            worst = {}
            q = np.linspace(455.5, 610.25, 12)
            for method in ('linear', 'quadratic', 'cubic'):
                s = R.Spectrum(w, v)
                ref = s.sample(q, method=method)
                for unit, f in (('um', 1e-3), ('m', 1e-9), ('angstrom', 10.0)):
                    worst[f'sample {method} in {unit}'] = _rel(s.sample(q * f, method=method, waveunit=unit), ref)
                    t = R.Spectrum(w * f, v, waveunit=unit)
                    worst[f'{unit} spectrum sampled in nm ({method})'] = _rel(t.sample(q, method=method, waveunit='nm'), ref)
            # resample into another unit, then a flux conversion
            for unit, f in (('um', 1e-3), ('m', 1e-9), ('angstrom', 10.0)):
                for target in ('wlam', 'flam'):
                    s1 = R.Spectrum(w, v, valueunit='photlam')
                    s1.resample(q * f, waveunit=unit)
                    s1.to(target)
                    s1.to('nm')
                    s2 = R.Spectrum(w, v, valueunit='photlam')
                    s2.resample(q)
                    s2.to(target)
                    s2.to('nm')
                    worst[f'resample in {unit}, to({target})'] = max(_rel(s1.value, s2.value), _rel(s1.wave, s2.wave))
            return max(worst.values()) < 1e-9, {k: v for k, v in worst.items() if v >= 1e-9} or {'cases': len(worst)}
        add('sampling in another wavelength unit (all methods, part of the range) and a flux conversion after a resample in another unit', routes_through_units)

        def integral_in_metres():
            worst = {}
            for nw in (41, 40, 7, 61, 101):
                w = uneven(nw) if nw < 50 else 400.0 + np.concatenate([[0], np.cumsum(rng.uniform(0.5, 6.0, size=nw - 1))])   # (steps of a few nm)
                v = 1 + 0.5 * np.sin(w / 40)
                for method in ('simps', 'trapz'):
                    I = R.Spectrum(w, v).integrate(method=method)
                    for unit, f in (('m', 1e-9), ('um', 1e-3), ('angstrom', 10.0)):
                        worst[f'{nw} samples {method} {unit}'] = abs(R.Spectrum(w * f, v, waveunit=unit).integrate(method=method) / f - I) / abs(I)
                        d = R.Spectrum(w, v, valueunit='photlam')
                        d.to(unit)
                        worst[f'{nw} samples {method} density in {unit}'] = abs(d.integrate(method=method) - I) / abs(I)
                        worst[f'{nw} samples {method} part in {unit}'] = abs(R.Spectrum(w * f, v, waveunit=unit).integrate(w[2] * f, w[-3] * f, method=method) / f
                                                                              - R.Spectrum(w, v).integrate(w[2], w[-3], method=method)) / abs(I)
            return max(worst.values()) < 1e-9, {k: v for k, v in worst.items() if v >= 1e-9} or {'cases': len(worst)}
        add('the integral over an uneven grid does not depend on the wavelength unit (metres included)', integral_in_metres)

    if prop in ('C16',):
        def unordered_out_of_range():
            qe = R.Spectrum(np.linspace(400, 800, 9), np.array([0.2, 0.4, 0.6, 0.7, 0.65, 0.5, 0.3, 0.2, 0.1]))
            worst = {}
            for wv in ([650, 350, 750, 550, 450], [900, 450, 300, 799, 401], [500, 500.0, 850, 420, 380], [810, 805, 400, 800]):
                wv = np.array(wv, dtype=float)
                cube = np.abs(rng.normal(size=(len(wv), 4, 6))) * 50 + 1
                vec = np.interp(wv, np.asarray(qe.wave), np.asarray(qe.value), left=0, right=0)
                ref = np.einsum('i,ijk->jk', vec, cube)
                worst[str(wv.tolist())] = max(_rel(D.collect_charge(cube, wv, qe), ref), _rel(D.collect_charge(cube, wv * 1e-3, qe, waveunit='um'), ref),
                                              _rel(D.collect_charge_bayer(cube, wv, qe, qe, qe, 'RGGB'), ref))
            return max(worst.values()) < 1e-12, worst
        add('a Spectrum efficiency at wavelengths in arbitrary order, some outside its range, is the vector of its interpolated values', unordered_out_of_range)

    if prop in ('C18',):
        def sequence_seeds():
            img = np.abs(rng.normal(size=(8, 9))) * 50 + 5
            m = (H.mesh((16, 16))[0] ** 2 + H.mesh((16, 16))[1] ** 2 < 49).astype(int)
            bad = {}
            for label, mk in (('list', lambda: [3, 1, 4]), ('tuple', lambda: (3, 1, 4)), ('uint32 array', lambda: np.array([3, 1, 4], dtype=np.uint32)),
                              ('int64 array', lambda: np.array([3, 1, 4]))):
                for name, fn in (('shot_noise', lambda s: D.shot_noise(img, seed=s)), ('shot_noise gaussian', lambda s: D.shot_noise(img, method='gaussian', seed=s)),
                                 ('read_noise', lambda s: D.read_noise(img, 4.0, seed=s)), ('dark_current', lambda s: D.dark_current(50.0, shape=(6, 5), fpn_factor=0.2, seed=s)),
                                 ('rule07', lambda s: D.rule07_dark_current(80.0, 5.0, 18e-6, shape=(6, 5), fpn_factor=0.2, seed=s)),
                                 ('power_spectrum', lambda s: lentil.power_spectrum(m, 1e-3, 5e-8, 8.0, 3.0, seed=s))):
                    a, b = fn(mk()), fn(mk())
                    if not np.array_equal(a, b):
                        bad[f'{name} seed as {label}'] = 'two calls differ'
                    elif label == 'list' and np.array_equal(a, fn([3, 1, 5])) and np.ptp(a) > 0:
                        bad[f'{name} seed as {label}'] = 'another seed gives the same frame'
            return not bad, bad
        add('sequence seeds (list, tuple, integer arrays) reproduce in every seeded model', sequence_seeds)

    if prop in ('C03', 'C07'):
        def signed_amplitude():
            n = 48
            amp = np.zeros((n, n))
            amp[12:36, 8:24] = 1.0
            amp[12:36, 24:40] = -1.0          # (a 0 / pi phase knife written as a signed amplitude)
            seg = np.zeros((2, n, n), dtype=int)
            seg[0, 12:36, 8:24] = 1
            seg[1, 12:36, 24:40] = 1
            opd = 30e-9 * rng.standard_normal((n, n))
            res = []
            for kw in ({}, {'mask': amp != 0}, {'mask': seg}):
                w = lentil.Wavefront(650e-9) * lentil.Pupil(amplitude=amp, opd=opd, pixelscale=1 / n, focal_length=10, **kw)
                wi = lentil.propagate_dft(w, pixelscale=5e-6, shape=40, oversample=2)
                res.append((w.field, wi.field, wi.intensity))
            exp = amp * np.exp(2j * np.pi * opd / 650e-9)
            worst = {'pupil field, no mask': _rel(res[0][0], exp), 'pupil field, mask': _rel(res[1][0], exp), 'pupil field, segments': _rel(res[2][0], exp)}
            for k, name in ((1, 'one mask'), (2, 'segments')):
                worst[f'image field, {name} vs no mask'] = _rel(res[k][1], res[0][1])
                worst[f'image intensity, {name} vs no mask'] = _rel(res[k][2], res[0][2])
            return max(worst.values()) < 1e-9, worst
        add('an amplitude that changes sign: no mask, one mask and a partition into segment masks give one field', signed_amplitude)

    if prop in ('C03',):
        def fitted_tilt_through_fft():
            n = 32
            r, c = H.mesh((n, n))
            circ = (r ** 2 + c ** 2 <= 13 ** 2)
            seg = np.array([circ & (c < 0), circ & (c >= 0)]).astype(int)
            opd = seg[0] * 1e-8 * (0.5 * r - 0.2 * c) + seg[1] * 1e-8 * (-0.3 * r + 0.4 * c)
            mk = lambda: lentil.Pupil(amplitude=circ * 1.0, opd=opd, mask=seg, pixelscale=1e-3, focal_length=10.0)
            kw = dict(pixelscale=6.5e-6 / 2, shape=32, oversample=2)
            ref = lentil.propagate_fft(lentil.Wavefront(650e-9) * mk(), **kw)
            try:
                got = lentil.propagate_fft(lentil.Wavefront(650e-9) * mk().fit_tilt(), **kw)
            except Exception as e:
                return True, {'refused': type(e).__name__}
            err = max(_rel(got.field, ref.field), _rel(got.intensity, ref.intensity))
            return err < 1e-8, {'against the plane with the tilt in its OPD': err}
        add('propagate_fft of a segmented plane after fit_tilt: refused, or the result for the same plane with the tilt in the OPD', fitted_tilt_through_fft)

    if prop in ('C04',):
        def curved_dispersion():
            ref_wl, b, slope = 650e-9, 1e-4, 0.75
            trace = [slope, 2e-5]
            worst = {}
            for wl in (700e-9, 850e-9, 1000e-9, 500e-9):
                delta = wl - ref_wl
                for k in (0.0, 0.05, -0.3, 1.0, 3.0, -0.8, -0.95, 9.0, 24.0, 80.0):
                    a = k * b ** 2 / (4 * delta)
                    x, y = lentil.DispersiveTilt(trace=trace, dispersion=[a, b, ref_wl]).shift(wavelength=wl)
                    s = x * np.sqrt(1 + slope ** 2)
                    worst[f'wl={wl:g} k={k}'] = max(abs(np.polyval([a, b, ref_wl], s) - wl) / abs(delta), abs(y - np.polyval(trace, x)) / 1e-9)
            return max(worst.values()) < 1e-6, {k: v for k, v in worst.items() if v >= 1e-6} or {'cases': len(worst)}
        add('a strongly curved dispersion polynomial: the displacement lies on the trace at the arc length the polynomial maps to the wavelength', curved_dispersion)

    if prop in ('C08',):
        def type_by_assignment():
            amp = lentil.circle((16, 16), 7)
            bad = {}
            for label, value, name in (('object', lentil.pupil, 'pupil'), ('str', 'pupil', 'pupil'), ('numpy str', np.str_('pupil'), 'pupil'), ('None', None, 'none'),
                                       ('image str', 'image', 'image')):
                w = lentil.Wavefront(650e-9)
                w.ptype = value
                want = getattr(lentil, name)
                if not (w.ptype == want):
                    bad[f'{label}: stored'] = repr(w.ptype)
                    continue
                if name == 'image':
                    if not ((w * lentil.Image()).ptype == lentil.image):
                        bad[f'{label}: image x image'] = 1
                    continue
                w1 = w * lentil.Pupil(amplitude=amp, pixelscale=1e-3, focal_length=1.0)
                if not (w1.ptype == lentil.pupil):
                    bad[f'{label}: x pupil'] = repr(w1.ptype)
                if name == 'pupil':
                    try:
                        w * lentil.Image()
                        bad[f'{label}: pupil x image not refused'] = 1
                    except TypeError:
                        pass
                wi = lentil.propagate_dft(w1, pixelscale=5e-6, shape=(8, 8))
                if not (wi.ptype == lentil.image):
                    bad[f'{label}: propagated'] = repr(wi.ptype)
            return not bad, bad
        add('a wavefront typed by assignment (object, string, numpy string, None) follows the same table', type_by_assignment)

    if prop in ('C15',):
        def straight_line_bins():
            w = np.linspace(400, 700, 31)
            worst = {}
            for a, b in ((0.3, -50.0), (-0.2, 200.0), (0.0, 3.0)):
                v = a * w + b
                F = lambda x: a * x ** 2 / 2 + b * x
                for cen in (np.array([450.0, 500, 560, 600, 650]), np.array([430.0, 470, 530, 610, 660, 680]), np.linspace(420, 680, 14), np.array([450.0, 500, 550, 600, 650])):
                    mids = cen[:-1] + np.diff(cen) / 2
                    for ends in ('symmetric', 'inside'):
                        edges = np.concatenate([[cen[0] - (cen[1] - cen[0]) / 2], mids, [cen[-1] + (cen[-1] - cen[-2]) / 2]]) if ends == 'symmetric' \
                            else np.concatenate([[cen[0]], mids, [cen[-1]]])
                        ref = F(edges[1:]) - F(edges[:-1])
                        even = bool(np.allclose(np.diff(cen), cen[1] - cen[0], rtol=1e-12, atol=0))
                        for method in (('simps', 'trapz') if even else ('trapz',)):      # (Simpson's rule needs the centre in the middle of its bin)
                            got = R.Spectrum(w, v).bin(cen, interp_method=method, ends=ends, preserve_power=False)
                            worst[f'{a}x+{b} {len(cen)} centres {ends} {method}'] = _rel(got, ref)
                            got = R.Spectrum(w * 1e-3, v, waveunit='um').bin(cen, interp_method=method, ends=ends, preserve_power=False)
                            worst[f'{a}x+{b} {len(cen)} centres {ends} {method} (um spectrum)'] = _rel(got, ref)
            return max(worst.values()) < 1e-10, {k: v for k, v in worst.items() if v >= 1e-10} or {'cases': len(worst)}
        add('bins of a straight line are its exact integrals over the bins: both rules, both kinds of ends, uneven centres', straight_line_bins)

    if prop in ('C14',):
        def integer_valued_densities():
            w = np.linspace(400, 700, 16)
            vals = np.array([3, 7, 12, 30, 55, 80, 120, 200, 350, 500, 420, 300, 150, 60, 20, 5])
            worst = {}
            for dt in (np.int64, np.uint16, np.int32):
                for vu in ('photlam', 'flam', 'wlam'):
                    for units in (('angstrom',), ('um',), ('m',), ('angstrom', 'wlam'), ('um', 'photlam')):
                        s = R.Spectrum(w, vals.astype(dt), valueunit=vu)
                        f = R.Spectrum(w, vals.astype(float), valueunit=vu)
                        s.to(*units)
                        f.to(*units)
                        worst[f'{np.dtype(dt).name} {vu} -> {units}'] = max(_rel(np.asarray(s.value, dtype=float), np.asarray(f.value)), _rel(s.wave, f.wave))
                        s.to('nm', vu)
                        worst[f'{np.dtype(dt).name} {vu} -> {units} -> back'] = _rel(np.asarray(s.value, dtype=float), vals.astype(float))
            return max(worst.values()) < 1e-12, {k: v for k, v in worst.items() if v >= 1e-12} or {'cases': len(worst)}
        add('integer-typed density values convert between units like the same numbers as floats, and come back', integer_valued_densities)

    if prop in ('C10', 'C20'):
        def geometry_after_rectangle():
            bad = {}
            for shape in ((20, 20), (15, 22)):
                def snapshot():
                    m = H.mesh(shape)
                    mask = lentil.circle(shape, 6)
                    return [m[0].copy(), m[1].copy(), mask.copy(), lentil.hexagon(shape, 6).copy(), np.asarray(Z.zernike(mask, 3)).copy(),
                            np.asarray(Z.zernike(mask, 2)).copy(), lentil.rectangle(shape, 5, 7).copy(), lentil.circle(shape, 4, shift=(1, -2)).copy()]
                before = snapshot()
                lentil.rectangle(shape, 6, 9)
                lentil.rectangle(shape, 3, 4, shift=(1, -2))
                lentil.rectangle(shape, 6, 9, angle=30)
                p = lentil.Pupil(amplitude=lentil.circle(shape, 6), opd=H.mesh(shape)[0] * 1e-9, pixelscale=1e-3, focal_length=1.0)
                p.fit_tilt()
                after = snapshot()
                for k, (x, y) in enumerate(zip(before, after)):
                    if not np.array_equal(x, y):
                        bad[f'{shape} item {k}'] = float(np.abs(x - y).max())
            return not bad, bad
        add('mesh / circle / hexagon / zernike / rectangle on a shape give the same arrays before and after rectangles were drawn on it', geometry_after_rectangle)

    if prop in ('C10', 'C18'):
        def global_generator_untouched():
            img = np.abs(rng.normal(size=(8, 9))) * 50 + 5
            m = (H.mesh((16, 16))[0] ** 2 + H.mesh((16, 16))[1] ** 2 < 49).astype(int)
            bad = {}
            for label, mk in (('int', lambda: 7), ('list', lambda: [3, 1, 4]), ('tuple', lambda: (3, 1, 4)), ('array', lambda: np.array([3, 1, 4])),
                              ('numpy int', lambda: np.int64(7))):
                for name, fn in (('shot_noise', lambda s: D.shot_noise(img, seed=s)), ('shot_noise gaussian', lambda s: D.shot_noise(img, method='gaussian', seed=s)),
                                 ('read_noise', lambda s: D.read_noise(img, 4.0, seed=s)), ('dark_current', lambda s: D.dark_current(50.0, shape=(6, 5), fpn_factor=0.2, seed=s)),
                                 ('rule07', lambda s: D.rule07_dark_current(80.0, 5.0, 18e-6, shape=(6, 5), fpn_factor=0.2, seed=s)),
                                 ('power_spectrum', lambda s: lentil.power_spectrum(m, 1e-3, 5e-8, 8.0, 3.0, seed=s))):
                    np.random.seed(12345)
                    st = np.random.get_state()
                    fn(mk())
                    st2 = np.random.get_state()
                    if not (st[0] == st2[0] and np.array_equal(st[1], st2[1]) and st[2:] == st2[2:]):
                        bad[f'{name} seed as {label}'] = 'the global generator was seeded or advanced'
            return not bad, bad
        add('seeded models leave the global NumPy generator as it was, whatever form the seed has', global_generator_untouched)

    if prop in ('C19',):
        def megapixel_jitter_commutes():
            n = 1024
            img = np.zeros((n, n))
            img[6:12, 500:507] = rng.uniform(1, 2, size=(6, 7))
            worst = {}
            a = lentil.jitter(img, 2.5)
            for sh in ((-9, 0), (3, 515), (0, -498)):
                worst[str(sh)] = _rel(lentil.jitter(np.roll(img, sh, axis=(0, 1)), 2.5), np.roll(a, sh, axis=(0, 1)))
            worst['total'] = abs(a.sum() - img.sum()) / img.sum()
            kr = np.fft.fftfreq(n)
            g = np.exp(-2 * np.pi ** 2 * 2.5 ** 2 * (kr[:, None] ** 2 + kr[None, :] ** 2))
            worst['gaussian transfer function'] = _rel(a, np.fft.ifft2(np.fft.fft2(img) * g).real)
            return max(worst.values()) < 1e-9, worst
        add('jitter of a megapixel frame with a compact source near an edge commutes with circular translation', megapixel_jitter_commutes)
    return out


def run(ctx, lentil, prop, oracle):
    if ctx.shard != 0:
        return
    rng = np.random.default_rng([ctx.seed, 95, int(prop[1:])])
    for name, fn in scenarios(prop, lentil, rng):
        ctx.case({'corners': name}, ['corners'])
        try:
            with warnings.catch_warnings():
                warnings.simplefilter('ignore')
                with np.errstate(all='ignore'):
                    ok, detail = fn()
            ctx.check(bool(ok), oracle, f'corners|{name[:80]}', 'unusual magnitude, number type or size: ' + name, dict(detail, scenario=name))
        except Exception as e:
            ctx.check(False, oracle, f'corners|{name[:60]}|raises={type(e).__name__}', str(e)[:300], {'scenario': name})
