"""Regenerate /verif/MANIFEST.json from the monitor modules (python -m vp.manifest)."""
import importlib
import json
import os
import pkgutil

from vp import core


def main():
    import vp.monitors as pkg
    props = [json.loads(l) for l in open(os.path.join(core.VERIF_DIR, 'properties.jsonl'))]
    have = sorted(m.name for m in pkgutil.iter_modules(pkg.__path__) if m.name.startswith('C'))
    checks = []
    na = []
    for p in props:
        pid = p['id']
        if pid not in have:
            na.append({'property_id': pid, 'reason': 'monitor not built yet (work in progress; see DESIGN.md §3)'})
            continue
        mon = importlib.import_module(f'vp.monitors.{pid}')
        if getattr(mon, 'NOT_APPLICABLE', None):
            na.append({'property_id': pid, 'reason': mon.NOT_APPLICABLE})
            continue
        checks.append({
            'property_id': pid,
            'quick_cmd': f'./check {pid} --tier quick',
            'thorough_cmd': f'./check {pid} --tier thorough',
            'evidence_file': f'/verif/evidence/{pid}.json',
            'replay_cmd_template': f'./check {pid} --replay {{path}}',
            'engine': 'vp',
            'level_claimed': {
                'category': 'exploration',
                'text': getattr(mon, 'LEVEL_TEXT', ' '.join((mon.__doc__ or '').split()) + ' — Assurance: the property held on every '
                                'execution the monitors observed (numbers of cases, oracle evaluations, coverage classes, probe/anchor '
                                'call counts and worst residual-to-tolerance ratios are in the evidence file); a run that misses a '
                                'required coverage class, probe or oracle is reported inconclusive. Exploration is the right level: '
                                'the property quantifies over unbounded spaces of inputs, configurations and call histories of '
                                'floating-point code, which execution monitoring can sample (and, for the finite sub-spaces named in '
                                'the rule, enumerate) but not exhaust.'),
                'design_ref': f'DESIGN.md §3 {pid}',
            },
            'level_note': getattr(mon, 'LEVEL_NOTE',
                                  'Held on the executions observed, not verified: trusted base is CPython, NumPy/SciPy, '
                                  'numpy longdouble arithmetic for the reference models and the oracle code itself; '
                                  'inputs are bounded as stated in the evidence rule.'),
            'technique': getattr(mon, 'TECHNIQUE',
                                 'runtime monitoring: probes on the real lentil callables with online oracles against '
                                 'independent reference models, driven by seeded hostile workloads'),
        })
    manifest = {
        'version': 1,
        'setup_cmd': 'cd /verif && /venv/bin/python -m vp.selfcheck',
        'hooks': {
            'guard': 'LENTIL_VERIF',
            'enable': 'none needed: probes are installed from /verif at import time (vp/probe.py); no source hooks '
                      'exist in /repo, the guard name is reserved',
            'baseline_off_cmd': 'cd /repo && /venv/bin/python -m pytest -ra -q -p no:cacheprovider --timeout=900 '
                                '--continue-on-collection-errors',
            'source_commits': [],
            'add_only': True,
        },
        'engines': [{
            'name': 'vp',
            'path': '/verif/vp',
            'serves_properties': [c['property_id'] for c in checks],
            'kind_free_text': 'runtime monitoring framework: probe layer (vp/probe.py), per-property monitors with '
                              'online oracles and offline log checkers (vp/monitors), reference models '
                              '(vp/refmodels.py), shard runner with three-valued verdicts (vp/runner.py)',
        }],
        'checks': checks,
        'not_applicable': na,
        'notes': 'All checks are runtime monitors over executions of the real code imported from /repo (or VERIF_REPO). '
                 'Exit 0 held / 1 violation / 2 inconclusive. known_findings.txt lists recorded defects and fixes.',
    }
    with open(os.path.join(core.VERIF_DIR, 'MANIFEST.json'), 'w') as f:
        json.dump(manifest, f, indent=1)
    print(f'{len(checks)} checks, {len(na)} not_applicable')


if __name__ == '__main__':
    main()
