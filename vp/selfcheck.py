"""setup_cmd: nothing to build (pure Python); verify the interpreter, the tree under test and the framework import."""
import sys


def main():
    from vp import core, probe, refmodels, runner  # noqa
    lentil = core.import_lentil()
    import numpy, scipy
    print('ok: python', sys.version.split()[0], 'numpy', numpy.__version__, 'scipy', scipy.__version__,
          'lentil from', lentil.__file__)
    return 0


if __name__ == '__main__':
    sys.exit(main())
