#!/bin/sh
# run the repository's own pinned test suite (hooks off), print the summary line
cd /repo && /venv/bin/python -m pytest -q -p no:cacheprovider --timeout=900 2>&1 | tail -3
